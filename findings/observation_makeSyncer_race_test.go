// Observation (NOT a violation of a listed property, NOT a known finding):
// a data race of the library on handler.syncer.
//
// handler.makeSyncer reads and writes the plain field h.syncer
// (dagsync/subscriber.go L806/L811/L820), and SyncAdChain, SyncEntries and the
// announce path call it before taking the per-publisher sync lock. Two first
// syncs of one publisher that overlap therefore both create a Syncer and
// publish it without synchronisation; the race detector reports the field
// itself and, because the publication is unsynchronised, every later use of the
// Syncer against its initialising writes in ipnisync.NewSyncer.
//
// How to see it (copy into a scratch checkout's dagsync directory; nothing of
// /verif is needed; no publisher either, the race is before the first request):
//
//	GOFLAGS=-mod=mod GOPROXY=off GOTOOLCHAIN=auto \
//	  go test -race -count=1 -run '^TestObservationMakeSyncerRace$' ./dagsync/
//
// Why it is only an observation: none of C01..C20 states data-race freedom of
// the subscriber; both writers store the same dynamic type, and under the
// sequentially consistent semantics that the scheduled checks explore the
// outcome is that one of the two syncs uses the Syncer the other just built
// (same publisher identity, content still signature-checked). DESIGN.md 13.6.
package dagsync_test

import (
	"context"
	"crypto/rand"
	"sync"
	"testing"
	"time"

	"github.com/ipld/go-ipld-prime/linking"
	cidlink "github.com/ipld/go-ipld-prime/linking/cid"
	"github.com/ipni/go-libipni/dagsync"
	"github.com/libp2p/go-libp2p/core/crypto"
	"github.com/libp2p/go-libp2p/core/peer"
	"github.com/multiformats/go-multiaddr"
)

func TestObservationMakeSyncerRace(t *testing.T) {
	_, pub, err := crypto.GenerateEd25519Key(rand.Reader)
	if err != nil {
		t.Fatal(err)
	}
	pid, err := peer.IDFromPublicKey(pub)
	if err != nil {
		t.Fatal(err)
	}
	var lsys linking.LinkSystem = cidlink.DefaultLinkSystem()
	sub, err := dagsync.NewSubscriber(nil, lsys)
	if err != nil {
		t.Fatal(err)
	}
	defer sub.Close()
	// an address nobody listens on: the syncs fail, after makeSyncer has run
	addr, _ := multiaddr.NewMultiaddr("/ip4/127.0.0.1/tcp/1/http")
	info := peer.AddrInfo{ID: pid, Addrs: []multiaddr.Multiaddr{addr}}
	ctx, cancel := context.WithTimeout(context.Background(), 5*time.Second)
	defer cancel()
	for round := 0; round < 20; round++ {
		sub.RemoveHandler(pid) // the next sync creates the handler and its syncer anew
		var wg sync.WaitGroup
		for i := 0; i < 2; i++ {
			wg.Add(1)
			go func() {
				defer wg.Done()
				sub.SyncAdChain(ctx, info) // two first syncs of one publisher
			}()
		}
		wg.Wait()
	}
}
