package dagsync_test

// Independent reproduction for C08 (no scheduler, no shims, unmodified code):
// an explicit SyncAdChain and an announce-triggered sync of the same publisher
// overlap; is an advertisement handed to the block hook twice?

import (
	"context"
	"sync"
	"testing"
	"time"

	"github.com/ipfs/go-cid"
	"github.com/ipfs/go-datastore"
	dssync "github.com/ipfs/go-datastore/sync"
	cidlink "github.com/ipld/go-ipld-prime/linking/cid"
	"github.com/ipni/go-libipni/announce"
	"github.com/ipni/go-libipni/dagsync"
	"github.com/ipni/go-libipni/dagsync/ipnisync"
	"github.com/ipni/go-libipni/dagsync/test"
	"github.com/libp2p/go-libp2p/core/peer"
	"github.com/stretchr/testify/require"
)

func TestC08ReproExplicitVsAnnounce(t *testing.T) {
	srcStore := dssync.MutexWrap(datastore.NewMapDatastore())
	dstStore := dssync.MutexWrap(datastore.NewMapDatastore())
	srcHost, srcPrivKey := test.MkTestHostPK(t)
	srcLnkS := test.MkLinkSystem(srcStore)
	dstHost := test.MkTestHost(t)
	dstLnkS := test.MkLinkSystem(dstStore)

	pub, err := ipnisync.NewPublisher(srcLnkS, srcPrivKey, ipnisync.WithStreamHost(srcHost), ipnisync.WithHTTPListenAddrs("127.0.0.1:0"))
	require.NoError(t, err)
	defer pub.Close()

	var mu sync.Mutex
	seen := map[cid.Cid]int{}
	first := make(chan struct{})
	release := make(chan struct{})
	var once sync.Once
	hook := func(p peer.ID, c cid.Cid, _ dagsync.SegmentSyncActions) {
		mu.Lock()
		seen[c]++
		mu.Unlock()
		// hold the first sync inside its hook so that the second one starts meanwhile
		once.Do(func() { close(first); <-release })
	}
	sub, err := dagsync.NewSubscriber(dstHost, dstLnkS, dagsync.RecvAnnounce("/indexer/ingest/c08repro", announce.WithAllowPeer(func(peer.ID) bool { return true })),
		dagsync.BlockHook(hook), dagsync.StrictAdsSelector(false))
	require.NoError(t, err)
	defer sub.Close()
	events, cancel := sub.OnSyncFinished()
	defer cancel()

	chain := test.MkChain(srcLnkS, true)
	head := chain[0].(cidlink.Link).Cid
	pub.SetRoot(head)
	pubInfo := peer.AddrInfo{ID: pub.ID(), Addrs: pub.Addrs()}

	// announce-triggered sync of the head; it blocks in its first hook call
	require.NoError(t, sub.Announce(context.Background(), head, pubInfo))
	select {
	case <-first:
	case <-time.After(10 * time.Second):
		t.Fatal("announce-triggered sync did not start")
	}
	// explicit sync of the same publisher (queried head): reads the latest-synced
	// value now, then waits for the per-publisher lock
	done := make(chan error, 1)
	go func() {
		_, err := sub.SyncAdChain(context.Background(), pubInfo)
		done <- err
	}()
	time.Sleep(300 * time.Millisecond) // let it reach the lock
	close(release)
	require.NoError(t, <-done)
	n := 0
	timeout := time.After(5 * time.Second)
loop:
	for n < 2 {
		select {
		case ev := <-events:
			t.Logf("event cid=%s count=%d err=%v", ev.Cid, ev.Count, ev.Err)
			n++
		case <-timeout:
			break loop
		}
	}
	mu.Lock()
	defer mu.Unlock()
	for c, k := range seen {
		if k > 1 {
			t.Errorf("advertisement %s was handed to the block hook %d times", c, k)
		}
	}
	t.Logf("%d events, %d distinct blocks reported", n, len(seen))
}
