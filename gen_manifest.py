#!/usr/bin/env python3
"""Generates /verif/MANIFEST.json from the table below (kept in one place so
that the manifest is always valid and in step with what is built)."""
import json, os, sys

ALL = ["C%02d" % i for i in range(1, 21)]

# id -> (level category, engine, technique, level text, level note, design ref)
CLAIMED = {
    "C07": ("model_checking", "S",
            "stateless model checking (iterative context bounding, preemption bound 2 quick / 3 thorough, completed on all shards) of the real ProviderCache built with the instrumentation overlay and a fake source whose Fetch/FetchAll are scheduling points: readers (Get, List, GetResults of a cached provider) vs Refresh (with and without a rebuild of the main map), vs a miss-fetch, and two lookups after the refresh interval elapsed; PLUS a separate free-running `go test -race` pass of the same operations on the uninstrumented code (sampled)",
            "Scheduled part (every execution is the real cache): at every quiescence a reader released last must be parked at its next point or finished - otherwise it is waiting for a writer that is parked inside a source call holding the write lock, which decides 'reads never wait' without timing; every read must observe a version some update produced, never missing, never older than an earlier read of the same caller; exactly one automatic refresh per elapsed interval. Race part: any race-detector report between repository source lines is a violation. The scheduled part is blind to pure data races by construction (shown with a mutant) and the race pass is blind to schedules it does not happen to sample, so each covers what the other cannot.",
            "The race pass is sampled, so `exhaustive` is false for the check as a whole (counter scheduled_part_exhaustive_at_bound says whether the model-checked part completed); at most 2 readers; sequential consistency of atomics assumed.",
            "DESIGN.md 6/C07, 13"),
    "C09": ("model_checking", "H",
            "exhaustive enumeration of operation sequences against one reference model (allow predicate, then LRU set with refresh-on-hit and explicit removal) on three layers: the LRU object (test-only export via the overlay) at capacities 1..3, every sequence of 6 (quick) / 7 (thorough) update/remove operations; the real receiver at its real capacity 64 after three fill-prefix variants, every sequence of <=3/4 operations over 9 (announce oldest / second-oldest / newest / fresh / from a denied peer / evicted, un-cache), delivery decided by quiescence in a synctest bubble; every address list of <=2/3 over 12 addresses with filtering on/off; the pubsub path: every sequence of <=2/3 messages over 10 kinds (plain, republished by a relay for an allowed / a denied origin, from a denied peer, own republication, malformed, direct with resend, repeats) on a single-host gossipsub topic in a bubble",
            "Every sequence is an execution of the real code (1.3 M quick), compared step by step with the model: return values and length of the LRU, delivered / not delivered and the CID and peer carried for the receiver, delivered addresses against net.IP predicates. Recency refresh on a hit, the order allow-check -> cache, the eviction order and the constant 64 only show over histories longer than the duplicate cache, which one duplicate-and-one-eviction test does not sample; non-delivery on the pubsub path (own republications, denied original peers) is decided by quiescence, which no timeout-based test can do.",
            "Reference model trusted (30 lines); pubsub path on one host with injected author identities (multi-host gossip not driven); third-party goroutines left after teardown are counted, only a goroutine with a library frame is a violation.",
            "DESIGN.md 6/C09, 13"),
    "C06": ("model_checking", "H",
            "exhaustive enumeration of operation sequences (depth 5 over a 12-symbol alphabet quick, 21-symbol thorough: per-source content changes incl. regress and disappearance, source failures, Refresh, Refresh cancelled at each source, overlapping Refresh, lookups that hit / miss / hit a negative entry, List, TTL advances), each executed on a fresh real ProviderCache with two fake sources in a synctest bubble (virtual clock) and compared after every step with a reference model",
            "Every sequence is an execution of the real cache (traces_validated_against_impl = sequences run; 90 484 quick, 1 633 640 thorough, both complete). After every refresh that returned nil each provider reported by a responding source must be served by Get and List with the freshest record ever handed to the cache; unreported providers stay until the TTL and go after it; a provider found absent is not fetched again; Get and List agree. History-dependence (stamps, expiry timers) is exactly what scripted single histories miss.",
            "Reference model (trusted, ~120 lines); two sources, two reported providers; nothing is asserted right after a failed or cancelled refresh; expiry asserted only in histories where all sources responded since the last report.",
            "DESIGN.md 6/C06, 13"),
    "C14": ("model_checking", "S",
            "stateless model checking (iterative context bounding, preemption bound 2 quick / 3 thorough) of the real subscriber built with the instrumentation overlay: N1 two publishers synced concurrently with a reading and a never-reading listener; N2 two successive syncs while a listener registers/cancels at scheduler-chosen moments and a reader checks the latest-synced value at the moment each event arrives; N3 failing announce-triggered sync; N4 an explicit / an announce-triggered sync racing with Close while a listener registered beforehand reads only at the end",
            "Every explored schedule is an execution of the real code: each produced notification (CID, publisher, count = hook calls of that sync, error flag) must reach every listener registered before the sync was invoked and cancelled after it returned exactly once and in completion order; a never-read listener must not keep sync threads from finishing (quiescence, not a timeout, decides); cancelled listeners' channels end closed after their queued events; the latest-synced value already shows an event's CID when it is received. Evidence reports per scenario the bound all shards completed.",
            "Cooperative scheduling at synchronization operations and at the library's one racy plain field (handler.syncer, DESIGN 13.6); every multi-case select is a priority select whose first-tried case is a scheduler decision (a non-default first case costs one unit of the bound, like a preemption); chain blocks pre-stored in N1/N2/N4 so that only head requests remain; quick tier completes bound 0 for N1/N2 on all shards and higher bounds partially (reported). A free-running `go test -race` pass over the same kinds of thread bodies (harness/subrace) runs after the shards: sampled, not the deciding step; it guards the assumption that all inter-thread communication goes through the scheduled operations, so `exhaustive` is false for the check as a whole (counter scheduled_part_exhaustive_at_bound).",
            "DESIGN.md 6/C14, 13"),
    "C15": ("model_checking", "S",
            "stateless model checking (iterative context bounding, preemption bound 2 quick / 3 thorough) of the real subscriber built with the instrumentation overlay: explicit sync || Close (one and two Close callers), announce-triggered sync || Close, listener registration/cancellation || Close, and each of 11 entry points called after Close returned; Close can start at every scheduling point of a sync",
            "Every explored schedule is an execution of the real code. 'Never returns' is decided by quiescence in the bubble with the caller unfinished (no timeout); after the first Close return the observation log must contain no block-hook call and no destination-store write; a running explicit sync ends successfully or is refused with the shutdown error; listener channels end closed; no goroutine with a library frame remains after cleanup. Evidence reports per scenario the bound all shards completed.",
            "Cooperative scheduling at synchronization operations and at handler.syncer (DESIGN 13.6); every multi-case select is a priority select whose first-tried case is a scheduler decision (a non-default first case costs one unit of the bound, like a preemption); one publisher; quick tier cut by an internal budget (exhaustive:false, completed bound reported). A free-running `go test -race` pass over the same kinds of thread bodies (harness/subrace) runs after the shards: sampled, not the deciding step; it guards the assumption that all inter-thread communication goes through the scheduled operations, so `exhaustive` is false for the check as a whole (counter scheduled_part_exhaustive_at_bound).",
            "DESIGN.md 6/C15, 13"),
    "C08": ("model_checking", "S",
            "stateless model checking (iterative context bounding, preemption bound 2 quick / 3 thorough) of the real subscriber built with the instrumentation overlay: scenarios S1 announcement burst, S2 burst with a failing request, S3 k publishers x concurrency limit, S4 announcements + explicit sync, S5 two explicit syncs with scoped hooks; scheduling points at every lock, atomic, channel operation, select, spawn, publisher request, hook call and observation",
            "Every explored schedule is an execution of the real code; per publisher the hook log must split into batches that match the success events one to one, every ad up to the latest-synced one is reported exactly once, the last announced head is synced or has an error event, requests of one publisher never overlap, scoped hooks get exactly their own sync, concurrent announce-triggered syncs stay within the limit. Lost announcements show as the absence of a later event, which only quiescence detection (not a timeout) decides. Evidence reports per scenario the preemption bound that all shards completed.",
            "Cooperative scheduling at synchronization operations and at handler.syncer (DESIGN 13.6); every multi-case select is a priority select whose first-tried case is a scheduler decision (a non-default first case costs one unit of the bound, like a preemption); bursts of 3, at most 3 publishers; quick tier is cut by an internal budget (exhaustive:false, bound completed reported). A free-running `go test -race` pass over the same kinds of thread bodies (harness/subrace) runs after the shards: sampled, not the deciding step; it guards the assumption that all inter-thread communication goes through the scheduled operations, so `exhaustive` is false for the check as a whole (counter scheduled_part_exhaustive_at_bound).",
            "DESIGN.md 6/C08, 13"),
    "C16": ("model_checking", "S",
            "stateless model checking of the real announce.Receiver built with the instrumentation overlay (mutex shim, scheduling points at every lock, channel operation and select): all interleavings, up to 2 (quick) / 3 (thorough) preemptions, of every set of 2-3 threads x 1-2 operations containing a Close (459 configurations quick); plus every operation sequence of length <=4/5 run one call per goroutine in a synctest bubble and compared at quiescence with a reference model (returned value / still blocked)",
            "Every explored schedule is an execution of the real receiver (traces_validated_against_impl = executions); 'a call never returns' is decided by quiescence in the bubble (no enabled thread, caller parked on a lock whose predicate is false), not by a timeout; the reference model says which calls may wait and what each returns. The schedule and return-path dependence (which return path an earlier call took) is exactly what two scripted close tests cannot cover.",
            "Receiver without pubsub (nil host); every multi-case select is a priority select whose first-tried case is a scheduler decision (a non-default first case costs one unit of the bound, like a preemption); cooperative scheduling at synchronization operations only. A free-running `go test -race` pass over the same kinds of thread bodies (harness/subrace) runs after the shards: sampled, not the deciding step; it guards the assumption that all inter-thread communication goes through the scheduled operations, so `exhaustive` is false for the check as a whole (counter scheduled_part_exhaustive_at_bound).",
            "DESIGN.md 6/C16"),
    "C04": ("fault_enumeration", "F",
            "fault enumeration over the real subscriber / sync client / publisher stack in a synctest bubble (virtual time): for each of 42 (quick) / 72 (thorough) modes {libp2p-HTTP discovery, plain HTTP} x {1,2 addresses} x {queried head, explicit head, announce-triggered} x {unsegmented, segments of 1, 2} x {fresh, partly synced}, every fault kind (5 HTTP statuses, connection closed, short body, corrupt / substituted / empty body, stalled response, caller cancellation during a request and from inside each block-hook call, hook failure) at every request / hook position of the fault-free run, singly, and in pairs within an attempt and across attempt and retry (reduced kind set quick, larger thorough), each followed by a fault-free retry on the same subscriber",
            "For every script the failed attempt must leave latest-synced unchanged, emit no success event, exactly one error event for announce-triggered syncs, a verifying store; the retry must succeed, end in the reference run's latest-synced value and stored set, re-request no verified block and report every block; masked faults must equal the reference run. Position-by-kind enumeration with a retry is what exposes sticky client fallback state that a single scripted missing block cannot.",
            "Request positions come from a fault-free reference run per mode (the two concurrent discovery requests of libp2phttp may arrive in either order); the stream-reset retry branch is not driven; 30 virtual minutes is the horizon for 'no event'.",
            "DESIGN.md 6/C04"),
    "C03": ("exploration", "I",
            "bounded-exhaustive enumeration: publisher side every root (10 CIDs) x topic (4) x key type (4) through the real Publisher handler; client side every single-byte substitution, every truncation and 14 field-level alterations of valid encoded heads (key types x topics x discovery/plain HTTP) served verbatim to the real Syncer.GetHead over an in-memory network, each alteration class also through Subscriber.SyncAdChain; judged by an independent reference validator",
            "GetHead may return a CID only when the reference validator (generic DAG-JSON decode, libp2p signature check over cid||topic, signer = expected peer) accepts exactly that CID; untouched heads must be accepted; on the subscriber path a rejected head must cause no block request, hook call, latest-sync change or event. Enumerating all byte and field alterations reaches the omitted-comparison and unsigned-topic cases that one wrong-peer sample does not.",
            "Reference validator and libp2p crypto are trusted; alterations that change no value (as judged by the reference) need not be rejected.",
            "DESIGN.md 6/C03"),
    "C02": ("fault_enumeration", "F",
            "fault enumeration over the real sync path: at every block-request position of a chain, for each multihash function (quick: sha2-256, truncated sha2-256, identity; thorough: 7 functions, segmented and unsegmented), the body is replaced by every single-bit flip, every truncation (consistent and original Content-Length), appended bytes, every other valid block, empty body, re-serialised node; followed by a healthy and a further tampered sync on the same subscriber with a store-wide audit after each",
            "After every run every key/value of the destination store is re-hashed with the key's own multihash code and length, hook calls and counts are checked against verified store content, and a needed tampered block must fail the sync and leave the latest-synced value unset. Enumerating every position and body kind, including the identity function where a partial digest comparison becomes visible, is what one scripted 'fish' body cannot do.",
            "Hash functions trusted (collision resistance for the enumerated alterations); bit flips strided on real advertisements in the quick tier.",
            "DESIGN.md 6/C02"),
    "C01": ("model_checking", "F",
            "exhaustive enumeration of a bounded configuration space (chain length <=3 quick / <=4 thorough x entry point x head x latest-sync state x stop x resync x depth limits x segment size x every pre-stored subset; entries chains likewise), each configuration executed on the real subscriber/sync client/publisher over an in-memory network inside a synctest bubble and compared step by step with an integer reference model of the chain",
            "Every configuration of the stated finite space is an execution of the real code (traces_validated_against_impl = executions): hook log, return value, SyncFinished event and count, latest-synced value, readability of reported blocks and the publisher's request log are compared with the reference model, which does not depend on segment size or pre-stored blocks, so the 'same whatever segment size / pre-stored subset' clause is decided differentially. Exhaustive over boundaries (segment ending on the stop block, depth equal to remaining length) that scripted tests do not reach.",
            "Reference model (40 lines) is trusted; two depth-limit combinations the documentation leaves open are accepted under either reading; chain lengths bounded by the tier.",
            "DESIGN.md 6/C01"),
    "C19": ("exploration", "I",
            "bounded-exhaustive enumeration over an in-memory HTTP network: every result list of <=2 (quick) / <=3 (thorough) results over 27 result kinds written by the real rwriter and read back by the real find client and raw JSON/NDJSON requests; 63 keys (5 hash functions x base58/hex/CID forms); every Accept header sequence of <=2 values over 9 values x both server preferences; 13 path shapes; every status 400..599 x 5 messages through apierror",
            "Written-vs-read equality, one-document / one-result-per-line framing, 404-for-empty, 4xx API errors for bad negotiation, resource type and key, and error encode/decode are each compared with a specification on every enumerated request against the real server helper and client.",
            "The find client sends no Accept header, so client read-back uses a JSON-preferring server (the strict server is checked with raw requests); net/http and encoding/json trusted.",
            "DESIGN.md 6/C19"),
    "C10": ("exploration", "I",
            "bounded-exhaustive enumeration: message product (10 CIDs x every address list of <=3 over a 5-symbol alphabet x 5 extra-data values x orig peer) through CBOR and JSON; real HTTP sender (CBOR/JSON) and pubsub sender against receivers over an in-memory network; CBOR decoder fed every single-byte substitution, truncation, every CBOR header token at every offset singly and in pairs, lengths at/above every cap and all strings of <=2 bytes, in an isolated worker with allocation metering",
            "Round-trip equality, sender-to-receiver equality (decoded the way a receiver does) and decoder totality (no panic, no process death, allocation within input + 2 x 2 MiB + 256 KiB, accepted input survives re-encoding) are checked on every enumerated case of the real code.",
            "cbor-gen primitives, go-multiaddr and encoding/json are trusted; decoder inputs are within two tokens of a valid message.",
            "DESIGN.md 6/C10"),
    "C13": ("exploration", "I",
            "bounded-exhaustive enumeration: structural product of advertisements (5184 shapes) and entry chunks (170) through DAG-JSON and DAG-CBOR, stored twice through Linkproto, loaded with typed and generic prototypes; decoders fed every single-byte substitution, truncation, CBOR header / JSON structural token at every offset of a 12-block corpus and all strings of <=2 bytes",
            "decode(encode(v)) is compared semantically (absent vs present optional parts kept) for every enumerated value; CID stability and prefix; generic-vs-typed unwrap equality; every decoder input must yield an error or a re-encodable value and never a panic, on both the typed path and the generic-load + unwrap path.",
            "go-ipld-prime codecs/bindnode are the trusted base; nil and empty are equal for non-optional fields; decoder inputs within one token of a valid block.",
            "DESIGN.md 6/C13"),
    "C05": ("exploration", "I",
            "bounded-exhaustive enumeration of advertisements (structural product of optional parts, 0..3 extended providers with the main provider at every position), signer = / != provider, key types; per ad: verify, verify after DAG-JSON and DAG-CBOR round trips, 27 single-value mutations, every single-bit flip and field replacement inside every signature envelope, every assignment of signing keys {named, ad signer, unrelated} to the extended-provider entries",
            "The specification (verify iff no signed value changed, envelopes intact, main provider listed, every entry sealed by the identity it names / the ad signer for the main entry) is evaluated on every enumerated case against the real Sign/Verify code; values that no signature covers must keep verifying. Exhaustive key assignment is what reaches the foreign-key entry case.",
            "libp2p envelopes/crypto trusted; single-value mutations only (the payload is undelimited, as the statement says); RSA/ECDSA on a reduced shape set in the quick tier.",
            "DESIGN.md 6/C05"),
    "C17": ("exploration", "I",
            "bounded-exhaustive enumeration of provider records (every chain-level list of <=2/3 entries over {main,X,Y} x 4 metadata kinds, every contextual list of <=2 entries, override, two contextual sets, list-length mismatches, direct and via JSON) x 6 lookups, compared with an independent specification function",
            "Every record of the stated alphabet is loaded into a real ProviderCache from a fake source and GetResults is compared result by result with a specification written from the statement; mismatched list lengths are required only not to panic. The skip/substitute/override rules interact per entry, so only the full product reaches the combinations where they differ.",
            "Specification function is the oracle (trusted, 30 lines); providers limited to 3 identities, context IDs to 2.",
            "DESIGN.md 6/C17"),
    "C18": ("exploration", "I",
            "bounded-exhaustive enumeration of (request, signing key, named provider) over 4 key types, every single-bit flip and field-level replacement of the sealed envelope, cross-domain and cross-reader replays, against an accept/reject specification",
            "Accept iff envelope intact, sealed for the reader's domain and payload type, and signer's peer ID equals the provider named; checked on every enumerated case with the real constructors and readers. Exhaustive over signer/named pairs is what reaches the foreign-signer case.",
            "libp2p record envelopes and crypto are trusted; alterations judged semantically (same decoded envelope = no alteration); two identities per key type.",
            "DESIGN.md 6/C18"),
    "C12": ("exploration", "I",
            "bounded-exhaustive enumeration: payload lengths x passphrases; every truncation and single-bit flip of each ciphertext; every nonce length; every call sequence up to depth 3/5 over encrypt/decrypt/second-hash (history determinism); every small index through DHashClient.Find incl. every truncation of every stored value",
            "Round trip, determinism and fail-closed are checked on every point of the stated grids against the obvious specification (decrypt(encrypt(x)) = x, equal inputs equal bytes, tampered input => error, never data, never panic); the find workflow is compared with the plaintext index for all 64 indexes. Exhaustive over lengths is what reaches the short-input and wrong-nonce cases a sampled test misses.",
            "AES-GCM/SHA-256 from the Go standard library and libp2p peer IDs are trusted; only single-bit flips and truncations of ciphertexts are enumerated.",
            "DESIGN.md 6/C12"),
    "C11": ("exploration", "I",
            "bounded-exhaustive enumeration: every subset of 8 protocol IDs up to size 4 (quick) / 6 (thorough) in every construction order, all variant combinations for small subsets; decoder fed every single-byte substitution, truncation and boundary varint at every offset of a corpus of encodings plus all byte strings of length <=2, in an isolated worker with allocation metering",
            "The canonical-order, round-trip and Get clauses are compared with a specification encoder on every enumerated collection and order; decoder totality (no panic, no process death, allocation bound, accepted input re-encodes to itself) is checked on every enumerated mutation. Exhaustive over the stated alphabets, which is what reaches offset arithmetic across >=3 protocols and hostile length prefixes.",
            "Unknown protocols are built the way the decoder builds them; go-varint, go-ipld-prime/refmt CBOR decoding are the trusted base (their fixed caps are the subject of the recorded known finding); allocation bound 64 KiB + 64 x input.",
            "DESIGN.md 6/C11"),
    "C20": ("exploration", "I",
            "bounded-exhaustive input enumeration against a specification function (every port 0..65535, every path of <=2 (quick) / <=3 (thorough) symbols over all printable ASCII + non-ASCII + percent sequences, every address list of length <=3/4 over a 15-address alphabet)",
            "Every URL of the stated finite space is converted by the real FromURL/ToURL and compared field by field; every address list is run through the real helpers and compared with set-theoretic specifications. Exhaustive within the alphabet, so boundary characters on which the two escaping schemes differ cannot be missed.",
            "Hosts limited to 9 representatives; url.URL values are built directly; go-multiaddr is trusted for the component transcoders.",
            "DESIGN.md 6/C20"),
}

NOT_YET = "not inapplicable: the check is designed (DESIGN.md section 6) but not built yet; engine S/H it needs exists (see C08, C16)"

def main():
    checks = []
    for pid in ALL:
        if pid not in CLAIMED:
            continue
        cat, engine, technique, text, note, ref = CLAIMED[pid]
        checks.append({
            "property_id": pid,
            "quick_cmd": "bin/verifctl check %s --tier quick" % pid,
            "thorough_cmd": "bin/verifctl check %s --tier thorough" % pid,
            "evidence_file": "/verif/evidence/%s.json" % pid,
            "replay_cmd_template": "bin/verifctl replay {path}",
            "engine": engine,
            "level_claimed": {"category": cat, "text": text, "design_ref": ref},
            "level_note": note,
            "technique": technique,
        })
    hooks_commits = []
    hc = os.path.join(os.path.dirname(os.path.abspath(__file__)), "hook_commits.txt")
    if os.path.exists(hc):
        hooks_commits = [l.split()[0] for l in open(hc) if l.strip() and not l.startswith("#")]
    m = {
        "version": 1,
        "setup_cmd": "cd /verif/tools && GOFLAGS=-mod=mod GOPROXY=off GOSUMDB=off GOTOOLCHAIN=local GOWORK=off go1.26.8 build -o /verif/bin/verifctl ./cmd/verifctl && /verif/bin/verifctl setup",
        "hooks": {
            "guard": "verif-overlay",
            "enable": "no instrumentation is committed to /repo: checks build /repo's working tree with `go test -overlay` (generated by `verifctl instr` from the current sources: sync/sync-atomic imports rewritten to scheduler-aware shims, scheduling points before channel operations, test-only exports); without the overlay the repository is byte-for-byte what is committed",
            "baseline_off_cmd": "cd /repo && GOFLAGS=-mod=mod GOPROXY=off GOTOOLCHAIN=auto go test -json -vet=off -count=1 -timeout 25m ./...",
            "source_commits": hooks_commits,
            "add_only": True,
        },
        "engines": [
            {"name": "I", "path": "/verif/harness/vp", "serves_properties": [p for p in ALL if p in CLAIMED and CLAIMED[p][1] == "I"],
             "kind_free_text": "bounded-exhaustive input enumerator: nested loops over explicit finite alphabets, every case run on the real code and compared with a specification function"},
            {"name": "F", "path": "/verif/harness/memnet", "serves_properties": [p for p in ALL if p in CLAIMED and CLAIMED[p][1] == "F"],
             "kind_free_text": "fault enumerator over an in-memory network: every fault kind at every request index of a real subscriber/publisher sync, singly and in pairs"},
            {"name": "S", "path": "/verif/harness/sched", "serves_properties": [p for p in ALL if p in CLAIMED and CLAIMED[p][1] == "S"],
             "kind_free_text": "stateless model checker for Go: cooperative scheduler inside a testing/synctest bubble, depth-first exploration of all interleavings up to a preemption bound over hooked lock/atomic/channel/spawn points of the real code"},
            {"name": "H", "path": "/verif/harness/seqx", "serves_properties": [p for p in ALL if p in CLAIMED and CLAIMED[p][1] == "H"],
             "kind_free_text": "operation-sequence explorer: every sequence over a small alphabet up to a depth, on a fresh real instance, compared step by step with a reference model"},
        ],
        "checks": checks,
        "not_applicable": [{"property_id": p, "reason": NOT_YET} for p in ALL if p not in CLAIMED],
        "notes": "All checks are driven by bin/verifctl (built by setup_cmd from /verif/tools). Exit 0 = held, 1 = VIOLATION line printed, 2 = machinery error (no VIOLATION line). Known findings: /verif/known_findings.txt.",
    }
    out = os.path.join(os.path.dirname(os.path.abspath(__file__)), "MANIFEST.json")
    json.dump(m, open(out, "w"), indent=1)
    open(out, "a").write("\n")
    try:
        import jsonschema
        jsonschema.validate(m, json.load(open("/root/.vp/MANIFEST.schema.json")))
        print("manifest valid;", len(checks), "checks")
    except ImportError:
        print("jsonschema not available; wrote manifest with", len(checks), "checks")

if __name__ == "__main__":
    main()
