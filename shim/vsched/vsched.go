// Package vsched is the cooperative scheduler that the instrumented library
// code, the sync/atomic shims and the harness share. It is mapped into the
// repository module as github.com/ipni/go-libipni/verifshim/vsched by the build
// overlay; nothing of it is committed to the repository.
//
// A goroutine that calls Point parks: it registers (thread name, label,
// enabled predicate) and blocks on a bubble channel. The root goroutine of the
// synctest bubble is the scheduler: it waits for quiescence
// (synctest.Wait), looks at the parked set, releases exactly one enabled
// thread, and repeats.
package vsched

import (
	"bytes"
	"fmt"
	"runtime"
	"sort"
	"strconv"
	"sync"
	"sync/atomic"
)

// Parked describes a goroutine waiting at a scheduling point.
type Parked struct {
	Name    string
	Label   string
	Enabled func() bool
	// Alts > 1: a choice point (which ready case a select tries first); the
	// scheduler releases it with one of the alternatives 0..Alts-1.
	Alts   int
	choice int
	// Idle: eligible only when no other goroutine is enabled (a harness point
	// that lets everything else run as far as it can first).
	Idle bool
	ch   chan struct{}
	gid  uint64
}

// Sched is one scheduler instance (one per execution).
type Sched struct {
	mu      sync.Mutex
	rootGID uint64
	free    bool // free-running: points are no-ops
	parked  []*Parked
	names   map[uint64]string // goroutine id -> thread name
	ordinal map[string]int    // first label -> number of goroutines named after it
	// Steps counts released points.
	Steps int64
}

var cur atomic.Pointer[Sched]

// Install makes s the current scheduler; the calling goroutine is its root.
func Install(s *Sched) {
	s.rootGID = gid()
	if s.names == nil {
		s.names = map[uint64]string{}
		s.ordinal = map[string]int{}
	}
	cur.Store(s)
}

// Uninstall removes the current scheduler and releases every parked goroutine
// (so that nothing stays blocked on scheduler channels).
func Uninstall() {
	s := cur.Swap(nil)
	if s == nil {
		return
	}
	s.mu.Lock()
	s.free = true
	p := s.parked
	s.parked = nil
	s.mu.Unlock()
	for _, x := range p {
		close(x.ch)
	}
}

// New creates a scheduler in free-running mode.
func New() *Sched {
	return &Sched{free: true, names: map[uint64]string{}, ordinal: map[string]int{}}
}

// SetFree switches between free-running (points are no-ops) and controlled
// mode. Switching to free-running releases everything parked.
func (s *Sched) SetFree(free bool) {
	s.mu.Lock()
	s.free = free
	var p []*Parked
	if free {
		p = s.parked
		s.parked = nil
	}
	s.mu.Unlock()
	for _, x := range p {
		close(x.ch)
	}
}

func gid() uint64 {
	var buf [64]byte
	b := buf[:runtime.Stack(buf[:], false)]
	// "goroutine 123 ["
	b = bytes.TrimPrefix(b, []byte("goroutine "))
	i := bytes.IndexByte(b, ' ')
	if i < 0 {
		return 0
	}
	n, _ := strconv.ParseUint(string(b[:i]), 10, 64)
	return n
}

// Name names the calling goroutine (harness threads, request handlers).
func Name(name string) {
	s := cur.Load()
	if s == nil {
		return
	}
	g := gid()
	s.mu.Lock()
	s.names[g] = name
	s.mu.Unlock()
}

// CurrentName returns the name given to the calling goroutine ("" when it has
// none yet, or outside a controlled scheduler).
func CurrentName() string {
	s := cur.Load()
	if s == nil {
		return ""
	}
	g := gid()
	s.mu.Lock()
	defer s.mu.Unlock()
	return s.names[g]
}

// Point is a scheduling point that is always enabled.
func Point(label string) { PointIf(label, nil) }

// PointIf is a scheduling point that may only be passed while enabled()
// holds (nil = always). Outside a controlled scheduler it is a no-op.
func PointIf(label string, enabled func() bool) { park(label, enabled, 1) }

// PointChoice is a scheduling point at which the scheduler also picks one of
// n alternatives; 0 is the default. Outside a controlled scheduler it returns 0.
func PointChoice(label string, n int) int { return park(label, nil, n) }

// PointIdle is a scheduling point that the scheduler passes only when nothing
// else is enabled: the rest of the system has run as far as it can.
func PointIdle(label string) { parkOpt(label, nil, 1, true) }

func park(label string, enabled func() bool, alts int) int {
	return parkOpt(label, enabled, alts, false)
}

func parkOpt(label string, enabled func() bool, alts int, idle bool) int {
	s := cur.Load()
	if s == nil {
		return 0
	}
	g := gid()
	s.mu.Lock()
	if s.free || g == s.rootGID {
		s.mu.Unlock()
		return 0
	}
	name, ok := s.names[g]
	if !ok {
		k := s.ordinal[label]
		s.ordinal[label] = k + 1
		name = fmt.Sprintf("lib:%s#%d", label, k)
		s.names[g] = name
	}
	p := &Parked{Name: name, Label: label, Enabled: enabled, Alts: alts, Idle: idle, ch: make(chan struct{}), gid: g}
	s.parked = append(s.parked, p)
	s.mu.Unlock()
	<-p.ch
	return p.choice
}

// ReportPanic records a panic recovered at the top of a goroutine spawned by
// the instrumented library (the goroutine then ends instead of taking the
// process down). The harness reads the reports with Panics.
func ReportPanic(v any) {
	buf := make([]byte, 4096)
	buf = buf[:runtime.Stack(buf, false)]
	msg := fmt.Sprintf("goroutine spawned by the library panicked: %v\n%s", v, buf)
	panicMu.Lock()
	panics = append(panics, msg)
	panicMu.Unlock()
}

// TakePanics returns and clears the recorded library-goroutine panics.
func TakePanics() []string {
	panicMu.Lock()
	defer panicMu.Unlock()
	out := panics
	panics = nil
	return out
}

var (
	panicMu sync.Mutex
	panics  []string
)

// Snapshot returns the parked goroutines sorted by name. Call at quiescence.
func (s *Sched) Snapshot() []*Parked {
	s.mu.Lock()
	defer s.mu.Unlock()
	out := append([]*Parked(nil), s.parked...)
	sort.SliceStable(out, func(i, j int) bool { return out[i].Name < out[j].Name })
	return out
}

// IsEnabled evaluates the predicate of a parked goroutine.
func (p *Parked) IsEnabled() bool { return p.Enabled == nil || p.Enabled() }

// ReleaseAlt lets a goroutine parked at a choice point continue with alternative k.
func (s *Sched) ReleaseAlt(p *Parked, k int) {
	p.choice = k
	s.Release(p)
}

// Release lets one parked goroutine continue.
func (s *Sched) Release(p *Parked) {
	s.mu.Lock()
	for i, x := range s.parked {
		if x == p {
			s.parked = append(s.parked[:i], s.parked[i+1:]...)
			break
		}
	}
	s.Steps++
	s.mu.Unlock()
	close(p.ch)
}

// Forget drops the name of a finished harness thread.
func (s *Sched) Forget(name string) {
	s.mu.Lock()
	for g, n := range s.names {
		if n == name {
			delete(s.names, g)
		}
	}
	s.mu.Unlock()
}

// Caller returns "file.go:line" of the repository code that called into a
// shim (skip = frames above the shim function).
func Caller(skip int) string {
	_, file, line, ok := runtime.Caller(skip + 1)
	if !ok {
		return "?"
	}
	for i := len(file) - 1; i >= 0; i-- {
		if file[i] == '/' {
			file = file[i+1:]
			break
		}
	}
	return file + ":" + strconv.Itoa(line)
}

// SelectOrder returns the order in which the cases of an instrumented select
// are tried (a priority select: any ready case may legally be chosen by Go, so
// this restricts, never extends, the behaviours of the code). It is a choice
// point: the scheduler picks which case is tried first (default: the first in
// source order); the others follow in source order.
func SelectOrder(label string, n int) []int {
	k := PointChoice(label+" first-case", n)
	if k < 0 || k >= n {
		k = 0
	}
	ord := make([]int, 0, n)
	ord = append(ord, k)
	for i := 0; i < n; i++ {
		if i != k {
			ord = append(ord, i)
		}
	}
	return ord
}
