// Package vsync replaces "sync" in the instrumented packages (import rewrite
// by the overlay generator). Every identifier of package sync that the
// repository may use is provided. Mutex, RWMutex and Once are re-implemented so
// that a goroutine waiting for them is durably blocked inside a synctest bubble
// (plain sync.Mutex is not) and so that acquisition is a scheduling point that
// is enabled only while the lock can be taken. The safety semantics are those
// of package sync; there is no fairness, which Go does not promise either.
package vsync

import (
	"sync"
	"sync/atomic"

	"github.com/ipni/go-libipni/verifshim/vsched"
)

type (
	Locker = sync.Locker
	Pool   = sync.Pool
	Cond   = sync.Cond
)

func NewCond(l Locker) *Cond                                   { return sync.NewCond(l) }
func OnceFunc(f func()) func()                                 { return sync.OnceFunc(f) }
func OnceValue[T any](f func() T) func() T                     { return sync.OnceValue(f) }
func OnceValues[T1, T2 any](f func() (T1, T2)) func() (T1, T2) { return sync.OnceValues(f) }

// waitq is a broadcast gate: waiters block on a channel that is closed and
// replaced whenever the protected state changes.
type waitq struct {
	mu sync.Mutex // held only for a few instructions, never across a point
	ch chan struct{}
}

func (w *waitq) waitChLocked() chan struct{} {
	if w.ch == nil {
		w.ch = make(chan struct{})
	}
	return w.ch
}

func (w *waitq) broadcastLocked() {
	if w.ch != nil {
		close(w.ch)
		w.ch = nil
	}
}

// Mutex is a mutual exclusion lock.
type Mutex struct {
	q      waitq
	locked bool
}

func (m *Mutex) free() bool {
	m.q.mu.Lock()
	defer m.q.mu.Unlock()
	return !m.locked
}

func (m *Mutex) Lock() {
	vsched.PointIf(vsched.Caller(1)+" Mutex.Lock", m.free)
	for {
		m.q.mu.Lock()
		if !m.locked {
			m.locked = true
			m.q.mu.Unlock()
			return
		}
		ch := m.q.waitChLocked()
		m.q.mu.Unlock()
		<-ch
	}
}

func (m *Mutex) TryLock() bool {
	vsched.Point(vsched.Caller(1) + " Mutex.TryLock")
	m.q.mu.Lock()
	defer m.q.mu.Unlock()
	if m.locked {
		return false
	}
	m.locked = true
	return true
}

func (m *Mutex) Unlock() {
	m.q.mu.Lock()
	if !m.locked {
		m.q.mu.Unlock()
		panic("sync: unlock of unlocked mutex")
	}
	m.locked = false
	m.q.broadcastLocked()
	m.q.mu.Unlock()
	vsched.Point(vsched.Caller(1) + " Mutex.Unlock")
}

// RWMutex is a reader/writer mutual exclusion lock.
type RWMutex struct {
	q       waitq
	writer  bool
	readers int
}

func (rw *RWMutex) canRead() bool {
	rw.q.mu.Lock()
	defer rw.q.mu.Unlock()
	return !rw.writer
}

func (rw *RWMutex) canWrite() bool {
	rw.q.mu.Lock()
	defer rw.q.mu.Unlock()
	return !rw.writer && rw.readers == 0
}

func (rw *RWMutex) RLock() {
	vsched.PointIf(vsched.Caller(1)+" RWMutex.RLock", rw.canRead)
	for {
		rw.q.mu.Lock()
		if !rw.writer {
			rw.readers++
			rw.q.mu.Unlock()
			return
		}
		ch := rw.q.waitChLocked()
		rw.q.mu.Unlock()
		<-ch
	}
}

func (rw *RWMutex) TryRLock() bool {
	vsched.Point(vsched.Caller(1) + " RWMutex.TryRLock")
	rw.q.mu.Lock()
	defer rw.q.mu.Unlock()
	if rw.writer {
		return false
	}
	rw.readers++
	return true
}

func (rw *RWMutex) RUnlock() {
	rw.q.mu.Lock()
	if rw.readers <= 0 {
		rw.q.mu.Unlock()
		panic("sync: RUnlock of unlocked RWMutex")
	}
	rw.readers--
	rw.q.broadcastLocked()
	rw.q.mu.Unlock()
	vsched.Point(vsched.Caller(1) + " RWMutex.RUnlock")
}

func (rw *RWMutex) Lock() {
	vsched.PointIf(vsched.Caller(1)+" RWMutex.Lock", rw.canWrite)
	for {
		rw.q.mu.Lock()
		if !rw.writer && rw.readers == 0 {
			rw.writer = true
			rw.q.mu.Unlock()
			return
		}
		ch := rw.q.waitChLocked()
		rw.q.mu.Unlock()
		<-ch
	}
}

func (rw *RWMutex) TryLock() bool {
	vsched.Point(vsched.Caller(1) + " RWMutex.TryLock")
	rw.q.mu.Lock()
	defer rw.q.mu.Unlock()
	if rw.writer || rw.readers != 0 {
		return false
	}
	rw.writer = true
	return true
}

func (rw *RWMutex) Unlock() {
	rw.q.mu.Lock()
	if !rw.writer {
		rw.q.mu.Unlock()
		panic("sync: Unlock of unlocked RWMutex")
	}
	rw.writer = false
	rw.q.broadcastLocked()
	rw.q.mu.Unlock()
	vsched.Point(vsched.Caller(1) + " RWMutex.Unlock")
}

type rlocker RWMutex

func (r *rlocker) Lock()   { (*RWMutex)(r).RLock() }
func (r *rlocker) Unlock() { (*RWMutex)(r).RUnlock() }

func (rw *RWMutex) RLocker() Locker { return (*rlocker)(rw) }

// Once performs exactly one action.
type Once struct {
	m    Mutex
	done atomic.Bool
}

func (o *Once) Do(f func()) {
	if o.done.Load() {
		vsched.Point(vsched.Caller(1) + " Once.Do(done)")
		return
	}
	o.m.Lock()
	defer o.m.Unlock()
	if !o.done.Load() {
		defer o.done.Store(true)
		f()
	}
}

// WaitGroup waits for a collection of goroutines to finish.
type WaitGroup struct {
	wg sync.WaitGroup
	n  atomic.Int64
}

func (w *WaitGroup) Add(delta int) {
	vsched.Point(vsched.Caller(1) + " WaitGroup.Add")
	w.n.Add(int64(delta))
	w.wg.Add(delta)
}

func (w *WaitGroup) Done() {
	vsched.Point(vsched.Caller(1) + " WaitGroup.Done")
	w.n.Add(-1)
	w.wg.Done()
}

func (w *WaitGroup) Wait() {
	vsched.PointIf(vsched.Caller(1)+" WaitGroup.Wait", func() bool { return w.n.Load() <= 0 })
	w.wg.Wait()
}

func (w *WaitGroup) Go(f func()) {
	w.Add(1)
	go func() {
		defer w.Done()
		f()
	}()
}

// Map is sync.Map with a scheduling point before every operation.
type Map struct{ m sync.Map }

func (m *Map) Load(key any) (any, bool) {
	vsched.Point(vsched.Caller(1) + " Map.Load")
	return m.m.Load(key)
}
func (m *Map) Store(key, value any) {
	vsched.Point(vsched.Caller(1) + " Map.Store")
	m.m.Store(key, value)
}
func (m *Map) LoadOrStore(key, value any) (any, bool) {
	vsched.Point(vsched.Caller(1) + " Map.LoadOrStore")
	return m.m.LoadOrStore(key, value)
}
func (m *Map) LoadAndDelete(key any) (any, bool) {
	vsched.Point(vsched.Caller(1) + " Map.LoadAndDelete")
	return m.m.LoadAndDelete(key)
}
func (m *Map) Delete(key any) {
	vsched.Point(vsched.Caller(1) + " Map.Delete")
	m.m.Delete(key)
}
func (m *Map) Swap(key, value any) (any, bool) {
	vsched.Point(vsched.Caller(1) + " Map.Swap")
	return m.m.Swap(key, value)
}
func (m *Map) CompareAndSwap(key, old, new any) bool {
	vsched.Point(vsched.Caller(1) + " Map.CompareAndSwap")
	return m.m.CompareAndSwap(key, old, new)
}
func (m *Map) CompareAndDelete(key, old any) bool {
	vsched.Point(vsched.Caller(1) + " Map.CompareAndDelete")
	return m.m.CompareAndDelete(key, old)
}
func (m *Map) Range(f func(key, value any) bool) {
	vsched.Point(vsched.Caller(1) + " Map.Range")
	m.m.Range(f)
}
func (m *Map) Clear() {
	vsched.Point(vsched.Caller(1) + " Map.Clear")
	m.m.Clear()
}
