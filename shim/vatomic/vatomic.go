// Package vatomic replaces "sync/atomic" in the instrumented packages: every
// operation is the real atomic operation preceded by a scheduling point, so
// that the model checker can interleave other goroutines between any two
// atomic steps (e.g. between a Load and a Store that replaced a Swap).
package vatomic

import (
	"sync/atomic"
	"unsafe"

	"github.com/ipni/go-libipni/verifshim/vsched"
)

func pt(op string) { vsched.Point(vsched.Caller(2) + " atomic." + op) }

type Pointer[T any] struct{ v atomic.Pointer[T] }

func (x *Pointer[T]) Load() *T       { pt("Pointer.Load"); return x.v.Load() }
func (x *Pointer[T]) Store(val *T)   { pt("Pointer.Store"); x.v.Store(val) }
func (x *Pointer[T]) Swap(new *T) *T { pt("Pointer.Swap"); return x.v.Swap(new) }
func (x *Pointer[T]) CompareAndSwap(old, new *T) bool {
	pt("Pointer.CompareAndSwap")
	return x.v.CompareAndSwap(old, new)
}

type Bool struct{ v atomic.Bool }

func (x *Bool) Load() bool         { pt("Bool.Load"); return x.v.Load() }
func (x *Bool) Store(val bool)     { pt("Bool.Store"); x.v.Store(val) }
func (x *Bool) Swap(new bool) bool { pt("Bool.Swap"); return x.v.Swap(new) }
func (x *Bool) CompareAndSwap(old, new bool) bool {
	pt("Bool.CompareAndSwap")
	return x.v.CompareAndSwap(old, new)
}

type Int32 struct{ v atomic.Int32 }

func (x *Int32) Load() int32          { pt("Int32.Load"); return x.v.Load() }
func (x *Int32) Store(val int32)      { pt("Int32.Store"); x.v.Store(val) }
func (x *Int32) Swap(new int32) int32 { pt("Int32.Swap"); return x.v.Swap(new) }
func (x *Int32) Add(d int32) int32    { pt("Int32.Add"); return x.v.Add(d) }
func (x *Int32) CompareAndSwap(old, new int32) bool {
	pt("Int32.CompareAndSwap")
	return x.v.CompareAndSwap(old, new)
}

type Int64 struct{ v atomic.Int64 }

func (x *Int64) Load() int64          { pt("Int64.Load"); return x.v.Load() }
func (x *Int64) Store(val int64)      { pt("Int64.Store"); x.v.Store(val) }
func (x *Int64) Swap(new int64) int64 { pt("Int64.Swap"); return x.v.Swap(new) }
func (x *Int64) Add(d int64) int64    { pt("Int64.Add"); return x.v.Add(d) }
func (x *Int64) CompareAndSwap(old, new int64) bool {
	pt("Int64.CompareAndSwap")
	return x.v.CompareAndSwap(old, new)
}

type Uint32 struct{ v atomic.Uint32 }

func (x *Uint32) Load() uint32           { pt("Uint32.Load"); return x.v.Load() }
func (x *Uint32) Store(val uint32)       { pt("Uint32.Store"); x.v.Store(val) }
func (x *Uint32) Swap(new uint32) uint32 { pt("Uint32.Swap"); return x.v.Swap(new) }
func (x *Uint32) Add(d uint32) uint32    { pt("Uint32.Add"); return x.v.Add(d) }
func (x *Uint32) CompareAndSwap(old, new uint32) bool {
	pt("Uint32.CompareAndSwap")
	return x.v.CompareAndSwap(old, new)
}

type Uint64 struct{ v atomic.Uint64 }

func (x *Uint64) Load() uint64           { pt("Uint64.Load"); return x.v.Load() }
func (x *Uint64) Store(val uint64)       { pt("Uint64.Store"); x.v.Store(val) }
func (x *Uint64) Swap(new uint64) uint64 { pt("Uint64.Swap"); return x.v.Swap(new) }
func (x *Uint64) Add(d uint64) uint64    { pt("Uint64.Add"); return x.v.Add(d) }
func (x *Uint64) CompareAndSwap(old, new uint64) bool {
	pt("Uint64.CompareAndSwap")
	return x.v.CompareAndSwap(old, new)
}

type Uintptr struct{ v atomic.Uintptr }

func (x *Uintptr) Load() uintptr            { pt("Uintptr.Load"); return x.v.Load() }
func (x *Uintptr) Store(val uintptr)        { pt("Uintptr.Store"); x.v.Store(val) }
func (x *Uintptr) Swap(new uintptr) uintptr { pt("Uintptr.Swap"); return x.v.Swap(new) }
func (x *Uintptr) Add(d uintptr) uintptr    { pt("Uintptr.Add"); return x.v.Add(d) }
func (x *Uintptr) CompareAndSwap(old, new uintptr) bool {
	pt("Uintptr.CompareAndSwap")
	return x.v.CompareAndSwap(old, new)
}

type Value struct{ v atomic.Value }

func (x *Value) Load() any        { pt("Value.Load"); return x.v.Load() }
func (x *Value) Store(val any)    { pt("Value.Store"); x.v.Store(val) }
func (x *Value) Swap(new any) any { pt("Value.Swap"); return x.v.Swap(new) }
func (x *Value) CompareAndSwap(old, new any) bool {
	pt("Value.CompareAndSwap")
	return x.v.CompareAndSwap(old, new)
}

func AddInt32(addr *int32, delta int32) int32 { pt("AddInt32"); return atomic.AddInt32(addr, delta) }
func AddInt64(addr *int64, delta int64) int64 { pt("AddInt64"); return atomic.AddInt64(addr, delta) }
func AddUint32(addr *uint32, delta uint32) uint32 {
	pt("AddUint32")
	return atomic.AddUint32(addr, delta)
}
func AddUint64(addr *uint64, delta uint64) uint64 {
	pt("AddUint64")
	return atomic.AddUint64(addr, delta)
}
func AddUintptr(addr *uintptr, delta uintptr) uintptr {
	pt("AddUintptr")
	return atomic.AddUintptr(addr, delta)
}
func LoadInt32(addr *int32) int32       { pt("LoadInt32"); return atomic.LoadInt32(addr) }
func LoadInt64(addr *int64) int64       { pt("LoadInt64"); return atomic.LoadInt64(addr) }
func LoadUint32(addr *uint32) uint32    { pt("LoadUint32"); return atomic.LoadUint32(addr) }
func LoadUint64(addr *uint64) uint64    { pt("LoadUint64"); return atomic.LoadUint64(addr) }
func LoadUintptr(addr *uintptr) uintptr { pt("LoadUintptr"); return atomic.LoadUintptr(addr) }
func LoadPointer(addr *unsafe.Pointer) unsafe.Pointer {
	pt("LoadPointer")
	return atomic.LoadPointer(addr)
}
func StoreInt32(addr *int32, val int32)       { pt("StoreInt32"); atomic.StoreInt32(addr, val) }
func StoreInt64(addr *int64, val int64)       { pt("StoreInt64"); atomic.StoreInt64(addr, val) }
func StoreUint32(addr *uint32, val uint32)    { pt("StoreUint32"); atomic.StoreUint32(addr, val) }
func StoreUint64(addr *uint64, val uint64)    { pt("StoreUint64"); atomic.StoreUint64(addr, val) }
func StoreUintptr(addr *uintptr, val uintptr) { pt("StoreUintptr"); atomic.StoreUintptr(addr, val) }
func StorePointer(addr *unsafe.Pointer, val unsafe.Pointer) {
	pt("StorePointer")
	atomic.StorePointer(addr, val)
}
func SwapInt32(addr *int32, new int32) int32 { pt("SwapInt32"); return atomic.SwapInt32(addr, new) }
func SwapInt64(addr *int64, new int64) int64 { pt("SwapInt64"); return atomic.SwapInt64(addr, new) }
func SwapUint32(addr *uint32, new uint32) uint32 {
	pt("SwapUint32")
	return atomic.SwapUint32(addr, new)
}
func SwapUint64(addr *uint64, new uint64) uint64 {
	pt("SwapUint64")
	return atomic.SwapUint64(addr, new)
}
func SwapUintptr(addr *uintptr, new uintptr) uintptr {
	pt("SwapUintptr")
	return atomic.SwapUintptr(addr, new)
}
func SwapPointer(addr *unsafe.Pointer, new unsafe.Pointer) unsafe.Pointer {
	pt("SwapPointer")
	return atomic.SwapPointer(addr, new)
}
func CompareAndSwapInt32(addr *int32, old, new int32) bool {
	pt("CompareAndSwapInt32")
	return atomic.CompareAndSwapInt32(addr, old, new)
}
func CompareAndSwapInt64(addr *int64, old, new int64) bool {
	pt("CompareAndSwapInt64")
	return atomic.CompareAndSwapInt64(addr, old, new)
}
func CompareAndSwapUint32(addr *uint32, old, new uint32) bool {
	pt("CompareAndSwapUint32")
	return atomic.CompareAndSwapUint32(addr, old, new)
}
func CompareAndSwapUint64(addr *uint64, old, new uint64) bool {
	pt("CompareAndSwapUint64")
	return atomic.CompareAndSwapUint64(addr, old, new)
}
func CompareAndSwapUintptr(addr *uintptr, old, new uintptr) bool {
	pt("CompareAndSwapUintptr")
	return atomic.CompareAndSwapUintptr(addr, old, new)
}
func CompareAndSwapPointer(addr *unsafe.Pointer, old, new unsafe.Pointer) bool {
	pt("CompareAndSwapPointer")
	return atomic.CompareAndSwapPointer(addr, old, new)
}
