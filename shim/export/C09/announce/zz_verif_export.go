package announce

// Test-only exports for property C09, added to the package by the build
// overlay (never committed to the repository).

// VerifLRU gives the harness the unexported string LRU.
type VerifLRU struct{ l *stringLRU }

func VerifNewLRU(n int) *VerifLRU        { return &VerifLRU{newStringLRU(n)} }
func (v *VerifLRU) Update(s string) bool { return v.l.update(s) }
func (v *VerifLRU) Remove(s string) bool { return v.l.remove(s) }
func (v *VerifLRU) Len() int             { return v.l.len() }

// VerifAnnounceCacheSize is the duplicate-filter size the receiver is built with.
const VerifAnnounceCacheSize = announceCacheSize
