#!/bin/bash
# seedcheck.sh <PROP-ID> <out-dir of the sub-agent> [<seed-name>]
#
# Confirms an independently produced property-breaking change myself, in a
# scratch worktree (never in /repo), then runs my check against it in /repo and
# reverts /repo whatever happens. Prints a verdict; keeps the change under
# /verif/seeded/<name>/ only when everything the brief asks for was confirmed:
#   patch applies, builds, the repository's own tests pass with it,
#   the demonstration fails with it and passes without it.
set -u
ID="$1"; OUT="$2"; NAME="${3:-$ID}"
export GOFLAGS=-mod=mod GOPROXY=off
GOT="env GOTOOLCHAIN=auto go"
WT=/tmp/seedverify/$NAME
LOG=/tmp/seedverify/$NAME.log
mkdir -p /tmp/seedverify; [ -s "$LOG.confirm" ] && cp "$LOG.confirm" "$LOG.confirm.keep"; : > "$LOG"
say() { echo "$@" | tee -a "$LOG"; }
cleanup() {
  [ "${SEED_VIA:-repo}" = worktree ] || git -C /repo checkout -q -- . 2>/dev/null
  git -C /repo worktree remove --force "$WT" 2>/dev/null
  rm -rf "$WT"; git -C /repo worktree prune
}
trap cleanup EXIT

[ -s "$OUT/patch.diff" ] || { say "VERDICT $NAME: no patch.diff"; exit 3; }
if [ "${SEED_PHASE:-all}" = check ] && [ -s "$LOG.confirm.keep" ]; then
  . "$LOG.confirm.keep"
  DEMO=$(ls "$OUT"/*_test.go 2>/dev/null | head -1)
  SKIP_WT=1
fi
DEMO=$(ls "$OUT"/*_test.go 2>/dev/null | head -1)
[ -n "$DEMO" ] || { say "VERDICT $NAME: no demonstration test"; exit 3; }
if [ "${SKIP_WT:-0}" != 1 ]; then
PKGDIR=$(grep -m1 -oE '(\./)?[a-z0-9_/]+/?' "$OUT/DEMO_CMD.txt" 2>/dev/null | grep -E 'dagsync|announce|pcache|metadata|dhash|find|ingest|maurl|mautil|rwriter|apierror' | head -1 | sed 's#^\./##; s#/\.\.\.$##; s#/$##')
[ -n "$PKGDIR" ] || PKGDIR=$(head -1 "$DEMO" | awk '{print $2}' | sed 's/_test$//')
say "== $NAME: property $ID, demo package dir: $PKGDIR"

rm -rf "$WT"; git -C /repo worktree add -q "$WT" HEAD || exit 3
cd "$WT" || exit 3
TESTNAME=$(grep -m1 -oE 'func (Test[A-Za-z0-9_]+)' "$DEMO" | awk '{print $2}')
cp "$DEMO" "$WT/$PKGDIR/zz_seed_demo_test.go"

say "-- demonstration WITHOUT the change (must pass)"
$GOT test ${SEED_DEMO_FLAGS:-} -count=1 -run "^${TESTNAME}\$" "./$PKGDIR/" >> "$LOG" 2>&1; R0=$?
say "   exit $R0"

git apply "$OUT/patch.diff" >> "$LOG" 2>&1 || { say "VERDICT $NAME: patch does not apply"; exit 3; }
say "-- build with the change"
$GOT build ./... >> "$LOG" 2>&1 || { say "VERDICT $NAME: does not build"; exit 3; }
say "-- demonstration WITH the change (must fail), 3 runs"
F=0; for i in 1 2 3; do $GOT test ${SEED_DEMO_FLAGS:-} -count=1 -run "^${TESTNAME}\$" "./$PKGDIR/" >> "$LOG" 2>&1 || F=$((F+1)); done
say "   failed $F of 3"
rm -f "$WT/$PKGDIR/zz_seed_demo_test.go"
say "-- the repository's own test suite with the change (must pass)"
$GOT test -count=1 ./... > "$LOG.suite" 2>&1; RS=$?
grep -E "^(FAIL|---|panic)" "$LOG.suite" | head -5 | tee -a "$LOG"
say "   suite exit $RS"

echo "R0=$R0 F=$F RS=$RS" > "$LOG.confirm"
fi
if [ "${SEED_PHASE:-all}" = confirm ]; then
  say "CONFIRM $NAME: demo passes without: $([ $R0 = 0 ] && echo yes || echo NO), fails with: $F/3, suite green: $([ $RS = 0 ] && echo yes || echo NO)"
  exit 0
fi
if [ "${SEED_VIA:-repo}" = worktree ]; then
  # Same check, same sources, but against a scratch worktree of /repo with the
  # change applied and a private copy of /verif (harness/go.mod names the
  # repository directory, so a copy per seed keeps concurrent runs apart). Used
  # while a background run is reading /repo itself.
  say "-- my check against the change (scratch worktree + private copy of /verif, removed afterwards)"
  CR=/tmp/seedverify/$NAME-chkrepo; CV=/tmp/seedverify/$NAME-chkverif
  git -C /repo worktree remove --force "$CR" 2>/dev/null; rm -rf "$CR" "$CV"
  git -C /repo worktree add -q "$CR" HEAD || exit 3
  git -C "$CR" apply "$OUT/patch.diff" || { say "VERDICT $NAME: patch does not apply"; git -C /repo worktree remove --force "$CR"; exit 3; }
  mkdir -p "$CV"; rsync -a --exclude .git --exclude .work --exclude replays --exclude seeded "${SEED_VERIF_SRC:-/verif}/" "$CV/"
  ( cd "$CV" && VERIF_DIR="$CV" VERIF_REPO="$CR" timeout ${SEED_TIMEOUT:-2400} bin/verifctl check "$ID" ) > "$LOG.check" 2>&1; RC=$?
  git -C /repo worktree remove --force "$CR" 2>/dev/null; rm -rf "$CR" "$CV"; git -C /repo worktree prune
else
say "-- my check against the change (applied to /repo, reverted afterwards)"
git -C /repo status --short | grep -q . && { say "VERDICT $NAME: /repo is not clean, refusing"; exit 3; }
git -C /repo apply "$OUT/patch.diff" || { say "VERDICT $NAME: patch does not apply to /repo"; exit 3; }
cd /verif
timeout ${SEED_TIMEOUT:-2400} bin/verifctl check "$ID" > "$LOG.check" 2>&1; RC=$?
git -C /repo checkout -q -- .
fi
grep -E "^VIOLATION|MACHINERY|KNOWN-FINDING|^property" "$LOG.check" | cut -c1-260 | head -6 | tee -a "$LOG"
say "   verifctl exit $RC (1 = violation reported, 0 = silent, 2 = machinery error)"

CONFIRMED=no
[ "$R0" = 0 ] && [ "$F" -ge 2 ] && [ "$RS" = 0 ] && CONFIRMED=yes
CAUGHT=no; [ "$RC" = 1 ] && CAUGHT=yes
say "VERDICT $NAME: confirmed=$CONFIRMED (demo passes without: $([ $R0 = 0 ] && echo yes || echo NO), fails with: $F/3, suite green: $([ $RS = 0 ] && echo yes || echo NO)) caught_by_my_check=$CAUGHT"
if [ "$CONFIRMED" = yes ]; then
  D=/verif/seeded/$NAME; mkdir -p "$D"
  cp "$OUT/patch.diff" "$D/patch.diff"; cp "$DEMO" "$D/"; cp "$OUT/NOTES.md" "$D/NOTES.md" 2>/dev/null; cp "$OUT/DEMO_CMD.txt" "$D/" 2>/dev/null
  grep -E "^VIOLATION" "$LOG.check" | cut -c1-400 | head -3 > "$D/check_output.txt"
  python3 - "$D" "$ID" "$NAME" "$CAUGHT" "$F" "$RC" <<'EOF'
import json,sys,subprocess
d,pid,name,caught,f,rc=sys.argv[1:7]
meta={"property":pid,"name":name,"origin":"independent sub-agent given only the property text and a scratch worktree",
 "confirmed_by_me":{"patch_applies_and_builds":True,"repository_test_suite_passes_with_it":True,"demonstration_passes_without_it":True,"demonstration_fails_with_it":f+"/3 runs"},
 "what_i_ran":["tools/seedcheck.sh (scratch worktree under /tmp/seedverify, removed afterwards)","bin/verifctl check "+pid+" --tier quick with the patch applied to /repo, then git checkout -- ."],
 "caught_by_quick_check":caught=="yes","verifctl_exit":int(rc),
 "needs_to_manifest":"see NOTES.md (written by the sub-agent)",
 "repo_commit":subprocess.run(["git","-C","/repo","rev-parse","--short","HEAD"],capture_output=True,text=True).stdout.strip()}
json.dump(meta,open(d+"/meta.json","w"),indent=1)
EOF
  say "   kept under $D"
fi
[ "$CONFIRMED" = yes ] && [ "$CAUGHT" = yes ] && exit 0
exit 1
