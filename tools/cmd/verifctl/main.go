// verifctl drives the checks of /verif: it regenerates the harness module
// files and the instrumentation overlay from /repo's working tree, builds the
// harness test binary of a property, runs it as parallel shards, merges the
// shard results into /verif/evidence/<id>.json, writes replay files and prints
// VIOLATION / KNOWN-FINDING lines.
//
// Exit status: 0 property held on everything explored (known findings do not
// count), 1 at least one violation not listed in known_findings.txt, 2 the
// machinery itself failed (build error, crashed shard): no VIOLATION line is
// printed in that case.
package main

import (
	"bytes"
	"crypto/sha256"
	"encoding/binary"
	"encoding/hex"
	"encoding/json"
	"errors"
	"flag"
	"fmt"
	"os"
	"os/exec"
	"path/filepath"
	"sort"
	"strconv"
	"strings"
	"sync"
	"sync/atomic"
	"time"
)

var (
	verifDir = envOr("VERIF_DIR", "/verif")
	repoDir  = envOr("VERIF_REPO", "/repo")
	goBin    = envOr("VERIF_GO", "go1.26.8")
)

func envOr(k, d string) string {
	if v := os.Getenv(k); v != "" {
		return v
	}
	return d
}

type prop struct {
	ID      string
	Level   string
	Overlay bool // needs the instrumentation overlay (engine S / exports)
	Shards  int
	// internal time budgets in seconds handed to the harness (0 = none). When
	// a budget is hit the harness stops, reports exhaustive:false and exits 0.
	QuickBudget, ThoroughBudget float64
	// RacePkg: harness package run free-running under `go test -race` after the
	// shards (uninstrumented, no overlay). Sampled, never exhaustive.
	RacePkg string
	// RaceBodies: prefixes of the bodies of RacePkg that belong to this property.
	RaceBodies string
}

var props = []prop{
	{ID: "C01", Level: "model_checking", Overlay: true, Shards: 16},
	{ID: "C02", Level: "fault_enumeration", Overlay: true, Shards: 16},
	{ID: "C03", Level: "exploration", Overlay: true, Shards: 16},
	{ID: "C04", Level: "fault_enumeration", Overlay: true, Shards: 16},
	{ID: "C05", Level: "exploration", Shards: 16},
	{ID: "C06", Level: "model_checking", Shards: 16},
	{ID: "C07", Level: "model_checking", Overlay: true, Shards: 16, QuickBudget: 45, ThoroughBudget: 900, RacePkg: "c07race"},
	{ID: "C08", Level: "model_checking", Overlay: true, Shards: 16, QuickBudget: 120, ThoroughBudget: 900, RacePkg: "subrace", RaceBodies: "C08-"},
	{ID: "C09", Level: "model_checking", Overlay: true, Shards: 16},
	{ID: "C10", Level: "exploration", Shards: 16},
	{ID: "C11", Level: "exploration", Shards: 16},
	{ID: "C12", Level: "exploration", Shards: 16},
	{ID: "C13", Level: "exploration", Shards: 16},
	{ID: "C14", Level: "model_checking", Overlay: true, Shards: 16, QuickBudget: 90, ThoroughBudget: 900, RacePkg: "subrace", RaceBodies: "C14-,C15-sync"},
	{ID: "C15", Level: "model_checking", Overlay: true, Shards: 16, QuickBudget: 120, ThoroughBudget: 900, RacePkg: "subrace", RaceBodies: "C15-"},
	{ID: "C16", Level: "model_checking", Overlay: true, Shards: 16, QuickBudget: 75, ThoroughBudget: 900, RacePkg: "subrace", RaceBodies: "C16-"},
	{ID: "C17", Level: "exploration", Shards: 16},
	{ID: "C18", Level: "exploration", Shards: 16},
	{ID: "C19", Level: "exploration", Shards: 16},
	{ID: "C20", Level: "exploration", Shards: 16},
}

func findProp(id string) *prop {
	for i := range props {
		if strings.EqualFold(props[i].ID, id) {
			return &props[i]
		}
	}
	return nil
}

func main() {
	if len(os.Args) < 2 {
		usage()
	}
	switch os.Args[1] {
	case "check":
		os.Exit(cmdCheck(os.Args[2:]))
	case "replay":
		os.Exit(cmdReplay(os.Args[2:]))
	case "setup":
		os.Exit(cmdSetup(os.Args[2:]))
	case "instr":
		os.Exit(cmdInstr(os.Args[2:]))
	default:
		usage()
	}
}

func usage() {
	fmt.Fprintln(os.Stderr, "usage: verifctl check <ID> [--tier quick|thorough] | replay <file> | setup | instr <outdir>")
	os.Exit(2)
}

func goEnv() []string {
	env := os.Environ()
	out := env[:0:0]
	for _, e := range env {
		if strings.HasPrefix(e, "GOFLAGS=") || strings.HasPrefix(e, "GOPROXY=") || strings.HasPrefix(e, "GOSUMDB=") || strings.HasPrefix(e, "GOTOOLCHAIN=") || strings.HasPrefix(e, "GOWORK=") {
			continue
		}
		out = append(out, e)
	}
	out = append(out, "GOFLAGS=-mod=mod", "GOPROXY=off", "GOSUMDB=off", "GOTOOLCHAIN=local", "GOWORK=off")
	return out
}

// writeIfChanged writes atomically and only when the content differs, so that
// concurrently running checks do not disturb each other.
func writeIfChanged(path string, data []byte) error {
	old, err := os.ReadFile(path)
	if err == nil && bytes.Equal(old, data) {
		return nil
	}
	tmp := fmt.Sprintf("%s.tmp%d", path, os.Getpid())
	if err := os.WriteFile(tmp, data, 0o644); err != nil {
		return err
	}
	return os.Rename(tmp, path)
}

// genHarnessMod regenerates harness/go.mod and go.sum from /repo.
func genHarnessMod() error {
	src, err := os.ReadFile(filepath.Join(repoDir, "go.mod"))
	if err != nil {
		return err
	}
	var b strings.Builder
	b.WriteString("module verifharness\n\ngo 1.26\n\n")
	b.WriteString("require github.com/ipni/go-libipni v0.0.0\n\n")
	b.WriteString("replace github.com/ipni/go-libipni => " + repoDir + "\n\n")
	// copy require and replace blocks / lines of the repository
	lines := strings.Split(string(src), "\n")
	in := false
	for _, l := range lines {
		t := strings.TrimSpace(l)
		switch {
		case in:
			b.WriteString(l + "\n")
			if t == ")" {
				in = false
				b.WriteString("\n")
			}
		case strings.HasPrefix(t, "require (") || strings.HasPrefix(t, "replace (") || strings.HasPrefix(t, "exclude ("):
			in = true
			b.WriteString(l + "\n")
		case strings.HasPrefix(t, "require ") || strings.HasPrefix(t, "replace ") || strings.HasPrefix(t, "exclude "):
			b.WriteString(l + "\n")
		}
	}
	if err := writeIfChanged(filepath.Join(verifDir, "harness", "go.mod"), []byte(b.String())); err != nil {
		return err
	}
	sum, err := os.ReadFile(filepath.Join(repoDir, "go.sum"))
	if err != nil {
		return err
	}
	return writeIfChanged(filepath.Join(verifDir, "harness", "go.sum"), sum)
}

func workDir(id string) string { return filepath.Join(verifDir, ".work", strings.ToLower(id)) }

// build compiles the harness test binary for a property.
func build(p *prop, wd string) (string, error) {
	if err := genHarnessMod(); err != nil {
		return "", fmt.Errorf("generate harness go.mod: %w", err)
	}
	bin := filepath.Join(wd, "h.test")
	args := []string{"test", "-c", "-vet=off", "-o", bin}
	if p.Overlay {
		ovDir := filepath.Join(wd, "overlay")
		ovJSON, err := genOverlay(ovDir, p.ID)
		if err != nil {
			return "", fmt.Errorf("INSTRUMENTATION-ERROR: %w", err)
		}
		args = append(args, "-overlay", ovJSON)
	}
	args = append(args, "./"+strings.ToLower(p.ID))
	cmd := exec.Command(goBin, args...)
	cmd.Dir = filepath.Join(verifDir, "harness")
	cmd.Env = goEnv()
	out, err := cmd.CombinedOutput()
	if err != nil {
		return "", fmt.Errorf("build failed: %v\n%s", err, out)
	}
	return bin, nil
}

type violation struct {
	Signature string          `json:"signature"`
	Case      string          `json:"case"`
	Message   string          `json:"message"`
	Detail    json.RawMessage `json:"detail,omitempty"`
}

type shardResult struct {
	Property    string           `json:"property_id"`
	Tier        string           `json:"tier"`
	Seed        int64            `json:"seed"`
	Shard       int              `json:"shard"`
	Shards      int              `json:"shards"`
	Level       string           `json:"level"`
	Rule        string           `json:"rule"`
	Assumptions []string         `json:"assumptions"`
	Bounds      json.RawMessage  `json:"bounds,omitempty"`
	Evaluations int64            `json:"evaluations"`
	Distinct    int64            `json:"distinct_nontrivial"`
	States      int64            `json:"states"`
	Transitions int64            `json:"transitions"`
	Traces      int64            `json:"traces_validated_against_impl"`
	HashFile    string           `json:"hash_file,omitempty"`
	Samples     []any            `json:"samples"`
	Violations  []violation      `json:"violations"`
	NViol       int64            `json:"n_violations"`
	Exhaustive  bool             `json:"exhaustive"`
	Notes       []string         `json:"notes,omitempty"`
	Counters    map[string]int64 `json:"counters,omitempty"`
	Outcomes    map[string]int64 `json:"outcomes,omitempty"`
	WallS       float64          `json:"wall_s"`
	Replay      bool             `json:"replay"`
	ReplayHit   int64            `json:"replay_hit"`
}

// runShard runs one process of the harness binary.
// runtimeCrashRetries counts shards that were run a second time because the
// first attempt died from a fatal error of the Go runtime's memory manager.
var runtimeCrashRetries atomic.Int64

// runShard runs one shard; if the process dies without a result and its log
// shows a heap-corruption fatal error of the Go runtime ("found pointer to free
// object": seen once in about a dozen runs of the scenarios that create a
// libp2p host per execution, never reproducible, not tied to the code under
// test), the shard is run once more. The exploration is deterministic, so the
// second attempt covers exactly the same space; a second crash is an error.
func runShard(bin, wd string, p *prop, tier string, seed int64, i, n int, replayKey string, budget float64, tag string) (*shardResult, error) {
	sr, err := runShardOnce(bin, wd, p, tier, seed, i, n, replayKey, budget, tag)
	if err == nil || sr != nil {
		return sr, err
	}
	logf := filepath.Join(wd, fmt.Sprintf("shard-%s%d.log", tag, i))
	data, _ := os.ReadFile(logf)
	if !bytes.Contains(data, []byte("fatal error: found pointer to free object")) && !bytes.Contains(data, []byte("fatal error: found bad pointer in Go heap")) {
		return sr, err
	}
	os.Rename(logf, logf+".crashed")
	runtimeCrashRetries.Add(1)
	fmt.Fprintf(os.Stderr, "shard %d died from a Go runtime heap fatal error (log kept as %s.crashed); running it once more\n", i, logf)
	return runShardOnce(bin, wd, p, tier, seed, i, n, replayKey, budget, tag)
}

func runShardOnce(bin, wd string, p *prop, tier string, seed int64, i, n int, replayKey string, budget float64, tag string) (*shardResult, error) {
	out := filepath.Join(wd, fmt.Sprintf("shard-%s%d.json", tag, i))
	os.Remove(out)
	logf := filepath.Join(wd, fmt.Sprintf("shard-%s%d.log", tag, i))
	lf, err := os.Create(logf)
	if err != nil {
		return nil, err
	}
	defer lf.Close()
	cmd := exec.Command(bin, "-test.run", "^TestCheck$", "-test.count=1", "-test.timeout=0", "-test.v")
	cmd.Dir = wd
	env := append(os.Environ(),
		"VERIF_PROP="+p.ID,
		"VERIF_TIER="+tier,
		"VERIF_SEED="+strconv.FormatInt(seed, 10),
		fmt.Sprintf("VERIF_SHARD=%d/%d", i, n),
		"VERIF_OUT="+out,
		"VERIF_WORK="+wd,
		"VERIF_DIR="+verifDir,
		"VERIF_REPO="+repoDir,
		"GOLOG_LOG_LEVEL=fatal",
		"GOTRACEBACK=all",
	)
	if replayKey != "" {
		env = append(env, "VERIF_REPLAY_KEY="+replayKey)
	}
	if budget > 0 {
		env = append(env, fmt.Sprintf("VERIF_BUDGET_S=%g", budget))
	}
	cmd.Env = env
	cmd.Stdout = lf
	cmd.Stderr = lf
	runErr := cmd.Run()
	data, rerr := os.ReadFile(out)
	if rerr != nil {
		return nil, fmt.Errorf("shard %d produced no result (%v); see %s", i, runErr, logf)
	}
	var sr shardResult
	if err := json.Unmarshal(data, &sr); err != nil {
		return nil, fmt.Errorf("shard %d result unreadable: %v", i, err)
	}
	if runErr != nil {
		return &sr, fmt.Errorf("shard %d exited with %v after writing its result; see %s", i, runErr, logf)
	}
	return &sr, nil
}

type knownFinding struct {
	Property, Signature, Text string
	hit                       int64
}

func loadKnown() ([]*knownFinding, error) {
	data, err := os.ReadFile(filepath.Join(verifDir, "known_findings.txt"))
	if err != nil {
		if errors.Is(err, os.ErrNotExist) {
			return nil, nil
		}
		return nil, err
	}
	var out []*knownFinding
	for _, l := range strings.Split(string(data), "\n") {
		l = strings.TrimSpace(l)
		if !strings.HasPrefix(l, "known:") {
			continue // comments and "fixed:" lines suppress nothing
		}
		rest := strings.TrimSpace(strings.TrimPrefix(l, "known:"))
		kf := &knownFinding{}
		parts := strings.SplitN(rest, " :: ", 2)
		if len(parts) == 2 {
			kf.Text = parts[1]
		}
		for _, f := range strings.Fields(parts[0]) {
			if strings.HasPrefix(f, "property=") {
				kf.Property = strings.TrimPrefix(f, "property=")
			} else if strings.HasPrefix(f, "signature=") {
				kf.Signature = strings.TrimPrefix(f, "signature=")
			}
		}
		if kf.Property != "" && kf.Signature != "" {
			out = append(out, kf)
		}
	}
	return out, nil
}

func (k *knownFinding) matches(id, sig string) bool {
	if k.Property != id {
		return false
	}
	if strings.HasSuffix(k.Signature, "*") {
		return strings.HasPrefix(sig, strings.TrimSuffix(k.Signature, "*"))
	}
	return k.Signature == sig
}

func cmdCheck(args []string) int {
	if len(args) < 1 {
		usage()
	}
	id := args[0]
	fs := flag.NewFlagSet("check", flag.ExitOnError)
	tier := fs.String("tier", envOr("VERIF_TIER", "quick"), "quick|thorough")
	shards := fs.Int("shards", 0, "override number of shards")
	fs.Parse(args[1:])
	if *tier != "thorough" {
		*tier = "quick"
	}
	p := findProp(id)
	if p == nil {
		fmt.Fprintf(os.Stderr, "unknown property %s\n", id)
		return 2
	}
	seed, _ := strconv.ParseInt(os.Getenv("VERIF_SEED"), 10, 64)
	start := time.Now()
	wd := workDir(p.ID)
	os.RemoveAll(wd)
	if err := os.MkdirAll(wd, 0o755); err != nil {
		fmt.Fprintln(os.Stderr, "MACHINERY-ERROR:", err)
		return 2
	}
	bin, err := build(p, wd)
	if err != nil {
		fmt.Fprintf(os.Stderr, "MACHINERY-ERROR property=%s: %v\n", p.ID, err)
		return 2
	}
	buildS := time.Since(start).Seconds()
	n := p.Shards
	if *shards > 0 {
		n = *shards
	}
	budget := p.QuickBudget
	if *tier == "thorough" {
		budget = p.ThoroughBudget
	}
	if b := os.Getenv("VERIF_BUDGET_S"); b != "" {
		budget, _ = strconv.ParseFloat(b, 64)
	}
	results := make([]*shardResult, n)
	errs := make([]error, n)
	var wg sync.WaitGroup
	for i := 0; i < n; i++ {
		wg.Add(1)
		go func(i int) {
			defer wg.Done()
			results[i], errs[i] = runShard(bin, wd, p, *tier, seed, i, n, "", budget, "")
		}(i)
	}
	wg.Wait()
	for _, e := range errs {
		if e != nil {
			fmt.Fprintf(os.Stderr, "MACHINERY-ERROR property=%s: %v\n", p.ID, e)
			return 2
		}
	}

	// merge
	type cov struct {
		Evaluations int64            `json:"evaluations"`
		Distinct    int64            `json:"distinct_nontrivial"`
		Rule        string           `json:"rule"`
		Samples     []any            `json:"samples"`
		States      int64            `json:"states"`
		Transitions int64            `json:"transitions"`
		Traces      int64            `json:"traces_validated_against_impl"`
		Exhaustive  bool             `json:"exhaustive"`
		Bounds      json.RawMessage  `json:"bounds,omitempty"`
		Counters    map[string]int64 `json:"counters,omitempty"`
		DistinctOut int              `json:"distinct_outcomes"`
		Outcomes    map[string]int64 `json:"outcomes,omitempty"`
		Notes       []string         `json:"notes,omitempty"`
		Shards      int              `json:"shards"`
		BuildS      float64          `json:"build_s"`
		Known       []string         `json:"known_findings_hit,omitempty"`
		Flaky       []string         `json:"flaky_not_reported,omitempty"`
		NewViol     []string         `json:"violations_reported,omitempty"`
	}
	c := cov{Exhaustive: true, Counters: map[string]int64{}, Outcomes: map[string]int64{}, Shards: n, BuildS: buildS}
	states := map[uint64]struct{}{}
	var viols []violation
	var nviol int64
	var assumptions []string
	noteSeen := map[string]bool{}
	classWitness := map[string]bool{}
	plain := 0
	for _, r := range results {
		c.Evaluations += r.Evaluations
		c.Distinct += r.Distinct
		c.Transitions += r.Transitions
		c.Traces += r.Traces
		if c.Rule == "" {
			c.Rule = r.Rule
		}
		if len(assumptions) == 0 {
			assumptions = r.Assumptions
		}
		if len(c.Bounds) == 0 {
			c.Bounds = r.Bounds
		}
		if !r.Exhaustive {
			c.Exhaustive = false
		}
		for _, s := range r.Samples {
			// up to 8 plain samples, and one witness per (scenario, outcome class)
			if m, ok := s.(map[string]any); ok && m["outcome_class"] != nil {
				k := fmt.Sprint(m["scenario"], "|", m["outcome_class"])
				if !classWitness[k] && len(classWitness) < 60 {
					classWitness[k] = true
					c.Samples = append(c.Samples, s)
				}
				continue
			}
			if plain < 8 {
				plain++
				c.Samples = append(c.Samples, s)
			}
		}
		for k, v := range r.Counters {
			c.Counters[k] += v
		}
		for k, v := range r.Outcomes {
			c.Outcomes[k] += v
		}
		for _, nt := range r.Notes {
			if !noteSeen[nt] && len(c.Notes) < 40 {
				noteSeen[nt] = true
				c.Notes = append(c.Notes, nt)
			}
		}
		if r.HashFile != "" {
			if data, err := os.ReadFile(r.HashFile); err == nil {
				for o := 0; o+8 <= len(data); o += 8 {
					states[binary.LittleEndian.Uint64(data[o:])] = struct{}{}
				}
			}
			os.Remove(r.HashFile)
		}
		viols = append(viols, r.Violations...)
		nviol += r.NViol
	}
	c.States = int64(len(states))
	c.DistinctOut = len(c.Outcomes)
	if len(c.Outcomes) > 40 {
		// keep the 40 most frequent
		type kv struct {
			k string
			v int64
		}
		var l []kv
		for k, v := range c.Outcomes {
			l = append(l, kv{k, v})
		}
		sort.Slice(l, func(i, j int) bool { return l[i].v > l[j].v || (l[i].v == l[j].v && l[i].k < l[j].k) })
		c.Outcomes = map[string]int64{}
		for _, e := range l[:40] {
			c.Outcomes[e.k] = e.v
		}
	}

	// free-running race-detector pass (sampled)
	if n := runtimeCrashRetries.Load(); n > 0 {
		c.Counters["shards_rerun_after_go_runtime_heap_fatal_error"] = n
		c.Notes = append(c.Notes, fmt.Sprintf("%d shard(s) died from a fatal error of the Go runtime's memory manager (not an outcome of the check) and were run once more; the exploration is deterministic, the second attempt covered the same space", n))
	}
	if p.RacePkg != "" {
		rv, rounds, rerr := racePass(p, wd, *tier)
		if rerr != nil && nviol > 0 {
			// the deciding step already has violations: they must be reported,
			// whatever happened to the supplementary pass (a change that leaks a
			// lock makes the free-running bodies hang)
			fmt.Fprintf(os.Stderr, "race pass did not complete (%v); the model-checked part has violations, which are reported\n", rerr)
			c.Notes = append(c.Notes, fmt.Sprintf("race pass did not complete: %v", rerr))
			rerr = nil
		}
		if rerr != nil {
			fmt.Fprintf(os.Stderr, "MACHINERY-ERROR property=%s: race pass: %v\n", p.ID, rerr)
			return 2
		}
		c.Counters["race_pass_rounds"] = rounds
		c.Counters["race_pass_reports"] = int64(len(rv))
		c.Counters["race_pass_reports_on_modelled_fields"] = int64(len(raceModelled))
		for _, m := range raceModelled {
			c.Notes = append(c.Notes, "race pass: data race of the library on a plain field, "+m+"; not a violation of this property by itself; both accesses are scheduling points of the model-checked part (instr.go racyFields), which explores their orders")
			fmt.Printf("NOTE: property=%s race on a modelled plain field (%s): explored as scheduling nondeterminism, not an alarm\n", p.ID, m)
		}
		c.Notes = append(c.Notes, fmt.Sprintf("race pass: %s ran %d rounds free-running under go test -race on the uninstrumented code; it is SAMPLED, not exhaustive, and is the only part of this check that can see data races. `exhaustive` is therefore false for the check as a whole; the model-checked part alone completed: %v", p.RacePkg, rounds, c.Exhaustive))
		c.Counters["scheduled_part_exhaustive_at_bound"] = map[bool]int64{true: 1, false: 0}[c.Exhaustive]
		c.Exhaustive = false
		viols = append(viols, rv...)
		nviol += int64(len(rv))
	}

	// classify violations
	known, err := loadKnown()
	if err != nil {
		fmt.Fprintf(os.Stderr, "MACHINERY-ERROR: known_findings.txt: %v\n", err)
		return 2
	}
	sort.SliceStable(viols, func(i, j int) bool { return viols[i].Signature < viols[j].Signature })
	replayDir := filepath.Join(verifDir, "replays", p.ID)
	os.MkdirAll(replayDir, 0o755)
	exit := 0
	reportedSig := map[string]int{}
	var lines []string
	for _, v := range viols {
		matched := false
		for _, k := range known {
			if k.matches(p.ID, v.Signature) {
				k.hit++
				matched = true
				break
			}
		}
		if matched {
			continue
		}
		if reportedSig[v.Signature] >= 2 || len(reportedSig) > 12 {
			reportedSig[v.Signature]++
			continue
		}
		// write replay file
		h := sha256.Sum256([]byte(v.Signature + "\x00" + v.Case))
		rp := filepath.Join(replayDir, hex.EncodeToString(h[:6])+".json")
		rf := map[string]any{"property_id": p.ID, "tier": *tier, "seed": seed, "signature": v.Signature, "case": v.Case, "message": v.Message, "detail": v.Detail}
		data, _ := json.MarshalIndent(rf, "", " ")
		os.WriteFile(rp, data, 0o644)
		// re-run the violation from its replay key before believing it
		ok, hit := true, true
		if !strings.HasPrefix(v.Case, "race-pass|") {
			ok, hit = confirm(bin, wd, p, *tier, seed, v.Case, 5)
		}
		if hit && !ok {
			c.Flaky = append(c.Flaky, v.Signature+" case="+v.Case)
			continue
		}
		reportedSig[v.Signature]++
		exit = 1
		msg := v.Message
		if len(msg) > 600 {
			msg = msg[:600] + "..."
		}
		lines = append(lines, fmt.Sprintf("VIOLATION property=%s replay=%s signature=%q %s", p.ID, rp, v.Signature, strings.ReplaceAll(msg, "\n", " | ")))
		c.NewViol = append(c.NewViol, v.Signature)
	}
	// sigs seen only in counters (beyond the kept records) that match no known finding
	for _, k := range known {
		if k.Property == p.ID && k.hit > 0 {
			fmt.Printf("KNOWN-FINDING: property=%s signature=%s %s\n", p.ID, k.Signature, k.Text)
			c.Known = append(c.Known, k.Signature)
		}
	}
	for _, l := range lines {
		fmt.Println(l)
	}

	ev := map[string]any{
		"property_id": p.ID,
		"tier":        *tier,
		"seed":        seed,
		"level":       p.Level,
		"coverage":    c,
		"assumptions": assumptions,
		"wall_s":      time.Since(start).Seconds(),
		"violations":  int(nviol),
	}
	// self-check: the evidence must satisfy what its level requires
	// (EVIDENCE.schema.json); better a loud machinery error here than a record
	// that is silently treated as no evidence
	var evProblems []string
	if len(c.Samples) == 0 {
		evProblems = append(evProblems, "coverage.samples is empty (the harness never called Sample)")
	}
	switch p.Level {
	case "model_checking":
		if c.States < 1 || c.Transitions < 1 {
			evProblems = append(evProblems, fmt.Sprintf("model_checking needs states>=1 and transitions>=1 (got %d, %d)", c.States, c.Transitions))
		}
	default:
		if c.Evaluations < 1 || c.Distinct < 2 || strings.TrimSpace(c.Rule) == "" {
			evProblems = append(evProblems, fmt.Sprintf("%s needs evaluations>=1, distinct_nontrivial>=2 and a rule (got %d, %d, rule %d chars)", p.Level, c.Evaluations, c.Distinct, len(c.Rule)))
		}
	}
	data, _ := json.MarshalIndent(ev, "", " ")
	os.MkdirAll(filepath.Join(verifDir, "evidence"), 0o755)
	if err := os.WriteFile(filepath.Join(verifDir, "evidence", p.ID+".json"), append(data, '\n'), 0o644); err != nil {
		fmt.Fprintln(os.Stderr, "MACHINERY-ERROR:", err)
		return 2
	}
	if len(evProblems) > 0 && exit == 0 {
		fmt.Fprintf(os.Stderr, "MACHINERY-ERROR property=%s: evidence would not be valid for level %s: %s\n", p.ID, p.Level, strings.Join(evProblems, "; "))
		exit = 2
	}
	fmt.Printf("property=%s tier=%s evaluations=%d distinct=%d states=%d transitions=%d traces=%d exhaustive=%v violations=%d new=%d wall=%.1fs\n",
		p.ID, *tier, c.Evaluations, c.Distinct, c.States, c.Transitions, c.Traces, c.Exhaustive, nviol, len(lines), time.Since(start).Seconds())
	return exit
}

// confirm re-runs one case n times; ok = it violated every time; hit = the
// replay key was found by the harness at all.
func confirm(bin, wd string, p *prop, tier string, seed int64, caseKey string, n int) (ok, hit bool) {
	ok, hit = true, true
	var mu sync.Mutex
	var wg sync.WaitGroup
	for i := 0; i < n; i++ {
		wg.Add(1)
		go func(i int) {
			defer wg.Done()
			r, err := runShard(bin, wd, p, tier, seed, i, 1, caseKey, 0, "replay-")
			mu.Lock()
			defer mu.Unlock()
			if err != nil || r == nil {
				hit = false
				return
			}
			if r.ReplayHit == 0 {
				hit = false
			}
			if r.NViol == 0 {
				ok = false
			}
		}(i)
	}
	wg.Wait()
	return
}

func cmdReplay(args []string) int {
	if len(args) < 1 {
		usage()
	}
	data, err := os.ReadFile(args[0])
	if err != nil {
		fmt.Fprintln(os.Stderr, err)
		return 2
	}
	var rf struct {
		Property  string `json:"property_id"`
		Tier      string `json:"tier"`
		Seed      int64  `json:"seed"`
		Signature string `json:"signature"`
		Case      string `json:"case"`
	}
	if err := json.Unmarshal(data, &rf); err != nil {
		fmt.Fprintln(os.Stderr, err)
		return 2
	}
	p := findProp(rf.Property)
	if p == nil {
		fmt.Fprintln(os.Stderr, "unknown property", rf.Property)
		return 2
	}
	wd := workDir(p.ID + "-replay")
	os.RemoveAll(wd)
	os.MkdirAll(wd, 0o755)
	bin, err := build(p, wd)
	if err != nil {
		fmt.Fprintf(os.Stderr, "MACHINERY-ERROR property=%s: %v\n", p.ID, err)
		return 2
	}
	r, err := runShard(bin, wd, p, rf.Tier, rf.Seed, 0, 1, rf.Case, 0, "replay-")
	if err != nil {
		fmt.Fprintf(os.Stderr, "MACHINERY-ERROR property=%s: %v\n", p.ID, err)
		return 2
	}
	if r.ReplayHit == 0 {
		fmt.Fprintf(os.Stderr, "MACHINERY-ERROR property=%s: replay key not found by the harness\n", p.ID)
		return 2
	}
	if r.NViol > 0 {
		for _, v := range r.Violations {
			fmt.Printf("VIOLATION property=%s replay=%s signature=%q %s\n", p.ID, args[0], v.Signature, strings.ReplaceAll(v.Message, "\n", " | "))
		}
		return 1
	}
	fmt.Printf("property=%s replay of %s: no violation\n", p.ID, args[0])
	return 0
}

// cmdSetup warms the build cache by compiling every harness binary once.
func cmdSetup(args []string) int {
	rc := 0
	var wg sync.WaitGroup
	sem := make(chan struct{}, 4)
	var mu sync.Mutex
	for i := range props {
		p := &props[i]
		if _, err := os.Stat(filepath.Join(verifDir, "harness", strings.ToLower(p.ID))); err != nil {
			continue
		}
		wg.Add(1)
		go func() {
			defer wg.Done()
			sem <- struct{}{}
			defer func() { <-sem }()
			wd := workDir(p.ID + "-setup")
			os.RemoveAll(wd)
			os.MkdirAll(wd, 0o755)
			_, err := build(p, wd)
			os.RemoveAll(wd)
			if err != nil {
				mu.Lock()
				fmt.Fprintf(os.Stderr, "setup: %s: %v\n", p.ID, err)
				rc = 2
				mu.Unlock()
			}
		}()
	}
	wg.Wait()
	return rc
}

func cmdInstr(args []string) int {
	if len(args) < 1 {
		usage()
	}
	j, err := genOverlay(args[0], "")
	if err != nil {
		fmt.Fprintln(os.Stderr, "INSTRUMENTATION-ERROR:", err)
		return 2
	}
	fmt.Println(j)
	return 0
}

// raceModelled: race reports of the last race pass whose two accesses are both
// on statements modelled as scheduling points (see instr.go racyFields).
var raceModelled []string

// modelledRace: every reported access ("file.go:line") is on a source line of
// the current working tree that touches a racy field listed in instr.go.
func modelledRace(sites []string) bool {
	if len(sites) < 2 {
		return false
	}
	for _, site := range sites {
		i := strings.LastIndexByte(site, ':')
		if i < 0 {
			return false
		}
		var ln int
		fmt.Sscanf(site[i+1:], "%d", &ln)
		data, err := os.ReadFile(filepath.Join(repoDir, site[:i]))
		if err != nil {
			return false
		}
		ls := strings.Split(string(data), "\n")
		if ln < 1 || ln > len(ls) {
			return false
		}
		ok := false
		for _, rf := range racyFields {
			if filepath.Base(site[:i]) == rf.File && strings.Contains(ls[ln-1], rf.Expr) {
				ok = true
			}
		}
		if !ok {
			return false
		}
	}
	return true
}

// racePass builds and runs the race package and turns every distinct data-race
// report into a violation.
func racePass(p *prop, wd, tier string) ([]violation, int64, error) {
	if err := genHarnessMod(); err != nil {
		return nil, 0, err
	}
	// free-running bodies can hang for good on a leaked plain mutex (a bubble
	// does not see that as a deadlock): an explicit deadline instead of go
	// test's 10 minutes
	deadline := "150s"
	if tier == "thorough" {
		deadline = "600s"
	}
	cmd := exec.Command(goBin, "test", "-race", "-count=1", "-vet=off", "-v", "-timeout", deadline, "-run", "^TestRaceBodies$", "./"+p.RacePkg)
	cmd.Dir = filepath.Join(verifDir, "harness")
	cmd.Env = append(goEnv(), "VERIF_TIER="+tier, "VERIF_RACE_BODIES="+p.RaceBodies, "GOLOG_LOG_LEVEL=fatal", "GORACE=halt_on_error=0")
	out, runErr := cmd.CombinedOutput()
	logPath := filepath.Join(wd, "race-pass.log")
	os.WriteFile(logPath, out, 0o644)
	text := string(out)
	var rounds int64
	if i := strings.Index(text, "RACE-PASS rounds="); i >= 0 {
		fmt.Sscanf(text[i:], "RACE-PASS rounds=%d", &rounds)
	}
	if !strings.Contains(text, "DATA RACE") {
		if runErr != nil {
			return nil, rounds, fmt.Errorf("race package failed without a race report (%v); see %s", runErr, logPath)
		}
		if rounds == 0 {
			return nil, 0, fmt.Errorf("race package did not report any completed round; see %s", logPath)
		}
		return nil, rounds, nil
	}
	// one violation per distinct pair of repository source lines
	raceModelled = nil
	var modelled []string
	defer func() { raceModelled = modelled }()
	var out2 []violation
	seen := map[string]bool{}
	for _, rep := range strings.Split(text, "WARNING: DATA RACE")[1:] {
		// the innermost repository frame of each of the two accesses (a report
		// has two stacks: "Write at / Read at" and "Previous write / read at")
		var lines []string
		want := false
		for _, l := range strings.Split(rep, "\n") {
			l = strings.TrimSpace(l)
			if strings.HasPrefix(l, "Goroutine ") {
				break
			}
			if strings.Contains(l, " at 0x") && (strings.HasPrefix(l, "Write") || strings.HasPrefix(l, "Read") || strings.HasPrefix(l, "Previous") || strings.HasPrefix(l, "Atomic")) {
				want = true
				continue
			}
			if want && strings.HasPrefix(l, repoDir+"/") && !strings.Contains(l, "_test.go") {
				f := strings.Fields(l)[0]
				lines = append(lines, strings.TrimPrefix(f, repoDir+"/"))
				want = false
			}
		}
		sort.Strings(lines)
		key := strings.Join(lines, " vs ")
		if key == "" || seen[key] {
			continue
		}
		if modelledRace(lines) {
			// both accesses are on statements that the scheduled part explores
			// as scheduling points (instr.go: racyFields): not an alarm
			seen[key] = true
			modelled = append(modelled, key)
			continue
		}
		seen[key] = true
		excerpt := rep
		if len(excerpt) > 1500 {
			excerpt = excerpt[:1500]
		}
		d, _ := json.Marshal(map[string]any{"race_report": "WARNING: DATA RACE" + excerpt, "how_to_rerun": "cd /verif/harness && go1.26.8 test -race -run TestRaceBodies ./" + p.RacePkg})
		out2 = append(out2, violation{Signature: "race-detector-report:" + key, Case: "race-pass|" + key, Message: "the race detector reports a data race between " + key + " in the free-running pass (" + p.RacePkg + ")", Detail: d})
	}
	return out2, rounds, nil
}
