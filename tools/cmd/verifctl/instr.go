package main

// Overlay generator: instruments the packages under test from /repo's current
// working tree (nothing is written to /repo). See DESIGN.md 2.1.
//
//  1. import rewrite: "sync" -> verifshim/vsync, "sync/atomic" ->
//     verifshim/vatomic (local names kept);
//  2. a scheduling point before every statement that (shallowly) contains a
//     channel send, a channel receive, close(...), a go statement or a select;
//  3. go statements: the new goroutine starts with a scheduling point;
//  4. select statements with two or more communication cases become priority
//     selects (cases tried in an order obtained from the scheduler, default
//     source order, then the original blocking select);
//  5. virtual packages verifshim/{vsched,vsync,vatomic} and test-only exports.
//
// The instrumentation is text splicing guided by the AST, so line numbers of
// the original code are preserved.

import (
	"encoding/json"
	"fmt"
	"go/ast"
	"go/parser"
	"go/token"
	"os"
	"path/filepath"
	"sort"
	"strconv"
	"strings"
)

// announce/p2psender and announce/httpsender: what the receiver and the
// subscriber call to send; they use no synchronisation of their own today, and
// whatever they may come to use has to be seen by the scheduler (a goroutine
// waiting for an uninstrumented mutex hangs the execution instead of being
// reported).
var instrPackages = []string{"dagsync", "dagsync/ipnisync", "announce", "announce/p2psender", "announce/httpsender", "pcache"}

const shimBase = "github.com/ipni/go-libipni/verifshim/"

type edit struct {
	start, end int
	prio       int // order among edits at the same start: lower first
	gen        func() string
}

type fileInstr struct {
	fset  *token.FileSet
	src   []byte
	name  string
	edits []edit
	n     struct{ points, spawns, selects, skippedSelects, racy int }
}

func (fi *fileInstr) off(p token.Pos) int  { return fi.fset.Position(p).Offset }
func (fi *fileInstr) line(p token.Pos) int { return fi.fset.Position(p).Line }

// transform renders src[lo:hi] with the edits inside applied (recursively).
func (fi *fileInstr) transform(lo, hi int) string {
	var b strings.Builder
	cur := lo
	for _, e := range fi.edits {
		if e.start < lo || e.end > hi {
			continue
		}
		if e.start < cur {
			continue // inside a region already replaced; handled by that edit's gen
		}
		if e.start == lo && e.end == hi && hi > lo {
			// the range is itself an edit's region: only at top level call
		}
		b.Write(fi.src[cur:e.start])
		b.WriteString(e.gen())
		cur = e.end
	}
	b.Write(fi.src[cur:hi])
	return b.String()
}

// shallowChanOp reports whether the statement itself (not nested blocks or
// function literals) performs a channel operation, close, go or select.
func shallowChanOp(s ast.Stmt) (bool, string) {
	switch s.(type) {
	case *ast.SendStmt:
		return true, "send"
	case *ast.GoStmt:
		return true, "go"
	case *ast.SelectStmt:
		return true, "select"
	}
	found := ""
	var exprs []ast.Node
	switch x := s.(type) {
	case *ast.ExprStmt:
		exprs = append(exprs, x.X)
	case *ast.AssignStmt:
		for _, e := range x.Rhs {
			exprs = append(exprs, e)
		}
		for _, e := range x.Lhs {
			exprs = append(exprs, e)
		}
	case *ast.ReturnStmt:
		for _, e := range x.Results {
			exprs = append(exprs, e)
		}
	case *ast.IfStmt:
		if x.Init != nil {
			exprs = append(exprs, x.Init)
		}
		exprs = append(exprs, x.Cond)
	case *ast.SwitchStmt:
		if x.Init != nil {
			exprs = append(exprs, x.Init)
		}
		if x.Tag != nil {
			exprs = append(exprs, x.Tag)
		}
	case *ast.DeclStmt:
		exprs = append(exprs, x.Decl)
	case *ast.IncDecStmt:
		exprs = append(exprs, x.X)
	case *ast.DeferStmt:
		// the deferred call's arguments are evaluated now; its body later
		for _, a := range x.Call.Args {
			exprs = append(exprs, a)
		}
	case *ast.RangeStmt:
		exprs = append(exprs, x.X)
	}
	for _, e := range exprs {
		ast.Inspect(e, func(n ast.Node) bool {
			switch y := n.(type) {
			case *ast.FuncLit:
				return false
			case *ast.UnaryExpr:
				if y.Op == token.ARROW {
					found = "recv"
				}
			case *ast.CallExpr:
				if id, ok := y.Fun.(*ast.Ident); ok && id.Name == "close" && len(y.Args) == 1 {
					found = "close"
				}
			}
			return true
		})
	}
	return found != "", found
}

func hasLabel(stmts []ast.Stmt) bool {
	found := false
	for _, s := range stmts {
		ast.Inspect(s, func(n ast.Node) bool {
			if _, ok := n.(*ast.LabeledStmt); ok {
				found = true
			}
			if _, ok := n.(*ast.FuncLit); ok {
				return false
			}
			return true
		})
	}
	return found
}

func simpleArgs(args []ast.Expr) bool {
	for _, a := range args {
		switch x := a.(type) {
		case *ast.Ident, *ast.BasicLit:
		case *ast.SelectorExpr:
			if _, ok := x.X.(*ast.Ident); !ok {
				return false
			}
		default:
			return false
		}
	}
	return true
}

func (fi *fileInstr) label(p token.Pos, what string) string {
	return strconv.Quote(fmt.Sprintf("%s:%d %s", fi.name, fi.line(p), what))
}

// racyFields: plain (non-atomic, unlocked) fields of the library that the
// free-running race pass found to be accessed concurrently on the unchanged
// tree. They are not violations of any listed property by themselves; so that
// the scheduled checks do not have a blind spot there, every statement that
// touches one gets a scheduling point (the access is explored like a relaxed
// atomic: word-level atomicity is assumed, the order is not). The race pass
// accepts a race report only when both accesses are on such statements.
var racyFields = []struct{ File, Expr string }{
	// handler.syncer: read and written by makeSyncer, which SyncAdChain,
	// SyncEntries / the announce path call before taking the per-publisher sync lock
	{"subscriber.go", "h.syncer"},
}

// touchesRacyField reports whether the statement itself (for an if: its init
// and condition, not its body) mentions a racy field of this file.
func (fi *fileInstr) touchesRacyField(s ast.Stmt) (bool, string) {
	lo, hi := s.Pos(), s.End()
	switch x := s.(type) {
	case *ast.IfStmt:
		hi = x.Cond.End()
	case *ast.AssignStmt, *ast.ReturnStmt, *ast.ExprStmt, *ast.IncDecStmt:
	default:
		return false, ""
	}
	txt := string(fi.src[fi.off(lo):fi.off(hi)])
	if strings.Contains(txt, "func(") || strings.Contains(txt, "func (") {
		return false, ""
	}
	for _, rf := range racyFields {
		if rf.File == fi.name && strings.Contains(txt, rf.Expr) {
			return true, "racy " + rf.Expr
		}
	}
	return false, ""
}

func (fi *fileInstr) stmtList(list []ast.Stmt, labeled map[ast.Stmt]bool) {
	for _, s := range list {
		target := s
		if ls, ok := s.(*ast.LabeledStmt); ok {
			target = ls.Stmt
			labeled[target] = true
		}
		ok, what := shallowChanOp(target)
		if !ok {
			ok, what = fi.touchesRacyField(target)
			if ok {
				fi.n.racy++
			}
		}
		if ok {
			pos := fi.off(target.Pos())
			lbl := fi.label(target.Pos(), what)
			fi.edits = append(fi.edits, edit{start: pos, end: pos, prio: 0, gen: func() string { return "vsched.Point(" + lbl + "); " }})
			fi.n.points++
		}
	}
}

func (fi *fileInstr) walk(f *ast.File) {
	labeled := map[ast.Stmt]bool{}
	ast.Inspect(f, func(n ast.Node) bool {
		switch x := n.(type) {
		case *ast.BlockStmt:
			fi.stmtList(x.List, labeled)
		case *ast.CaseClause:
			fi.stmtList(x.Body, labeled)
		case *ast.CommClause:
			fi.stmtList(x.Body, labeled)
		case *ast.GoStmt:
			if fl, ok := x.Call.Fun.(*ast.FuncLit); ok {
				pos := fi.off(fl.Body.Lbrace) + 1
				lbl := fi.label(x.Pos(), "spawned")
				// a panic in a goroutine of the library must become an observation
				// (the property checks say "never a panic"), not the death of the
				// test process
				fi.edits = append(fi.edits, edit{start: pos, end: pos, prio: 0, gen: func() string {
					return " defer func() { if _vsR := recover(); _vsR != nil { vsched.ReportPanic(_vsR) } }(); vsched.Point(" + lbl + "); "
				}})
				fi.n.spawns++
			} else if simpleArgs(x.Call.Args) {
				cs, ce := fi.off(x.Call.Pos()), fi.off(x.Call.End())
				gs := fi.off(x.Pos())
				lbl := fi.label(x.Pos(), "spawned")
				fi.edits = append(fi.edits, edit{start: gs, end: ce, prio: 1, gen: func() string {
					return "go func() { defer func() { if _vsR := recover(); _vsR != nil { vsched.ReportPanic(_vsR) } }(); vsched.Point(" + lbl + "); " + fi.transform(cs, ce) + " }()"
				}})
				fi.n.spawns++
			}
		case *ast.SelectStmt:
			var comm []*ast.CommClause
			for _, c := range x.Body.List {
				cc := c.(*ast.CommClause)
				if cc.Comm != nil {
					comm = append(comm, cc)
				}
			}
			if len(comm) < 2 {
				return true
			}
			skip := labeled[x]
			for _, cc := range comm {
				if hasLabel(cc.Body) {
					skip = true
				}
			}
			if skip {
				fi.n.skippedSelects++
				return true
			}
			allTerminate := true
			for _, c := range x.Body.List {
				body := c.(*ast.CommClause).Body
				if len(body) == 0 {
					allTerminate = false
					continue
				}
				switch last := body[len(body)-1].(type) {
				case *ast.ReturnStmt:
				case *ast.ExprStmt:
					call, ok := last.X.(*ast.CallExpr)
					id, ok2 := (ast.Expr)(nil), false
					if ok {
						id, ok2 = call.Fun, true
					}
					if nm, ok3 := id.(*ast.Ident); !ok || !ok2 || !ok3 || nm.Name != "panic" {
						allTerminate = false
					}
				default:
					allTerminate = false
				}
			}
			ss, se := fi.off(x.Pos()), fi.off(x.End())
			lbl := fi.label(x.Pos(), "select")
			ncomm := len(comm)
			fi.edits = append(fi.edits, edit{start: ss, end: se, prio: 1, gen: func() string {
				var b strings.Builder
				fmt.Fprintf(&b, "{ _vsTaken := false; _vsOrd := vsched.SelectOrder(%s, %d); ", lbl, ncomm)
				for k := 0; k < ncomm; k++ {
					fmt.Fprintf(&b, "if !_vsTaken { switch _vsOrd[%d] { ", k)
					for i, cc := range comm {
						commTxt := fi.transform(fi.off(cc.Comm.Pos()), fi.off(cc.Comm.End()))
						bodyTxt := fi.transform(fi.off(cc.Colon)+1, fi.off(cc.End()))
						fmt.Fprintf(&b, "case %d: select { case %s: _vsTaken = true; %s\ndefault: }; ", i, commTxt, bodyTxt)
					}
					b.WriteString("} }; ")
				}
				if allTerminate {
					// every clause ends in return: nothing flows past a taken case, and the
					// block must end in the select to stay a terminating statement
					b.WriteString("_ = _vsTaken; ")
					b.WriteString(fi.transformInner(ss, se))
					b.WriteString(" }")
					return b.String()
				}
				b.WriteString("if !_vsTaken { ")
				// the original select, with the edits inside its clauses applied
				b.WriteString(fi.transformInner(ss, se))
				b.WriteString(" } }")
				return b.String()
			}})
			fi.n.selects++
		}
		return true
	})
}

// transformInner renders [lo,hi) applying only edits strictly inside it (not
// the edit that covers exactly [lo,hi)).
func (fi *fileInstr) transformInner(lo, hi int) string {
	var b strings.Builder
	cur := lo
	for _, e := range fi.edits {
		if e.start < lo || e.end > hi || (e.start == lo && e.end == hi) {
			continue
		}
		if e.start == lo && e.end == lo {
			continue // the point before the statement itself is emitted outside
		}
		if e.start < cur {
			continue
		}
		b.Write(fi.src[cur:e.start])
		b.WriteString(e.gen())
		cur = e.end
	}
	b.Write(fi.src[cur:hi])
	return b.String()
}

func instrumentFile(path, name string) (string, *fileInstr, error) {
	src, err := os.ReadFile(path)
	if err != nil {
		return "", nil, err
	}
	fset := token.NewFileSet()
	f, err := parser.ParseFile(fset, path, src, parser.ParseComments)
	if err != nil {
		return "", nil, err
	}
	fi := &fileInstr{fset: fset, src: src, name: name}
	// import rewrite
	needSched := false
	for _, im := range f.Imports {
		p, _ := strconv.Unquote(im.Path.Value)
		var repl, local string
		switch p {
		case "sync":
			repl, local = shimBase+"vsync", "sync"
		case "sync/atomic":
			repl, local = shimBase+"vatomic", "atomic"
		default:
			continue
		}
		ps, pe := fi.off(im.Path.Pos()), fi.off(im.Path.End())
		txt := strconv.Quote(repl)
		if im.Name == nil {
			txt = local + " " + txt
		}
		t := txt
		fi.edits = append(fi.edits, edit{start: ps, end: pe, prio: 1, gen: func() string { return t }})
	}
	fi.walk(f)
	if fi.n.points+fi.n.spawns+fi.n.selects > 0 {
		needSched = true
	}
	if needSched {
		// add the vsched import right after the package clause
		pos := fi.off(f.Name.End())
		fi.edits = append(fi.edits, edit{start: pos, end: pos, prio: 0, gen: func() string {
			return "; import vsched " + strconv.Quote(shimBase+"vsched")
		}})
	}
	sort.SliceStable(fi.edits, func(i, j int) bool {
		a, b := fi.edits[i], fi.edits[j]
		if a.start != b.start {
			return a.start < b.start
		}
		if a.prio != b.prio {
			return a.prio < b.prio
		}
		return a.end > b.end
	})
	out := fi.transform(0, len(src))
	// the result must parse
	if _, err := parser.ParseFile(token.NewFileSet(), path, out, 0); err != nil {
		return "", nil, fmt.Errorf("instrumented %s does not parse: %w", name, err)
	}
	return out, fi, nil
}

// genOverlay writes the instrumented files and the overlay JSON into dir and
// returns the path of the JSON.
func genOverlay(dir string, propID string) (string, error) {
	os.RemoveAll(dir)
	if err := os.MkdirAll(dir, 0o755); err != nil {
		return "", err
	}
	replace := map[string]string{}
	var stats []string
	total := struct{ points, spawns, selects, skipped, racy int }{}
	for _, pkg := range instrPackages {
		pdir := filepath.Join(repoDir, pkg)
		ents, err := os.ReadDir(pdir)
		if err != nil {
			return "", fmt.Errorf("package %s: %w", pkg, err)
		}
		for _, e := range ents {
			n := e.Name()
			if e.IsDir() || !strings.HasSuffix(n, ".go") || strings.HasSuffix(n, "_test.go") {
				continue
			}
			out, fi, err := instrumentFile(filepath.Join(pdir, n), n)
			if err != nil {
				return "", err
			}
			dst := filepath.Join(dir, strings.ReplaceAll(pkg, "/", "_"), n)
			os.MkdirAll(filepath.Dir(dst), 0o755)
			if err := os.WriteFile(dst, []byte(out), 0o644); err != nil {
				return "", err
			}
			replace[filepath.Join(pdir, n)] = dst
			total.points += fi.n.points
			total.spawns += fi.n.spawns
			total.selects += fi.n.selects
			total.skipped += fi.n.skippedSelects
			total.racy += fi.n.racy
		}
	}
	stats = append(stats, fmt.Sprintf("points=%d (of which at racy plain fields=%d) spawns=%d priority-selects=%d selects-left-uncontrolled=%d", total.points, total.racy, total.spawns, total.selects, total.skipped))
	// virtual shim packages
	for _, sp := range []string{"vsched", "vsync", "vatomic"} {
		sdir := filepath.Join(verifDir, "shim", sp)
		ents, err := os.ReadDir(sdir)
		if err != nil {
			return "", err
		}
		for _, e := range ents {
			if strings.HasSuffix(e.Name(), ".go") {
				replace[filepath.Join(repoDir, "verifshim", sp, e.Name())] = filepath.Join(sdir, e.Name())
			}
		}
	}
	// test-only exports of one property: shim/export/<PROP>/<pkg path>/*.go are
	// added to that package, for that property's build only (so a rename of an
	// unexported identifier cannot break the other properties' checks)
	edir := filepath.Join(verifDir, "shim", "export", propID)
	filepath.WalkDir(edir, func(path string, d os.DirEntry, err error) error {
		if err != nil || d.IsDir() || !strings.HasSuffix(path, ".go") {
			return nil
		}
		rel, _ := filepath.Rel(edir, path)
		replace[filepath.Join(repoDir, rel)] = path
		return nil
	})
	data, _ := json.MarshalIndent(map[string]any{"Replace": replace}, "", " ")
	jp := filepath.Join(dir, "overlay.json")
	if err := os.WriteFile(jp, data, 0o644); err != nil {
		return "", err
	}
	os.WriteFile(filepath.Join(dir, "stats.txt"), []byte(strings.Join(stats, "\n")+"\n"), 0o644)
	return jp, nil
}
