package main

import "errors"

// genOverlay is replaced by the real instrumentation generator.
func genOverlay(dir string) (string, error) { return "", errors.New("not implemented") }
