import json,os,re,subprocess
props={json.loads(l)['id']:json.loads(l) for l in open('/verif/properties.jsonl')}
R='p'
for pid,p in props.items():
    out='/tmp/seed/%s%s-out'%(pid,R); os.makedirs(out,exist_ok=True)
    open(out+'/ID.txt','w').write(pid+'\n')
    open(out+'/PROPERTY.txt','w').write(json.dumps(p,indent=1))
    # touched functions
    touched=set()
    for d in sorted(os.listdir('/verif/seeded')):
        if not d.startswith(pid): continue
        pf='/verif/seeded/%s/patch.diff'%d
        if not os.path.exists(pf): continue
        cur=None
        for l in open(pf):
            if l.startswith('+++ b/'): cur=l[6:].strip()
            m=re.match(r'@@ [^@]*@@ (.*)',l)
            if m and cur:
                h=m.group(1).strip()
                m2=re.search(r'func (\([^)]*\) )?([A-Za-z0-9_]+)',h)
                touched.add('%s: %s'%(cur,m2.group(2) if m2 else h[:40]))
    api=json.load(open('/tmp/surface/%s.json'%pid))
    t=[]
    t.append("Free choice of mechanism and file (any file the property's anchors name, or code they call in this repository), with one constraint on WHERE it shows:")
    t.append("the checker being evaluated is known to drive the library through SOME of its exported entry points, options and helper constructors and not through others (lists below, per package: 'used' / 'not used'; names are functions, options or Type.Method). Make the change show ONLY for callers that go through something on a 'not used' list (an entry point, an option, a constructor, a helper the library itself documents for that job, a deprecated wrapper, an alternative way to build the same object), in a situation where the property's statement still applies in full. Through everything on the 'used' lists, and in every test of the repository, the library must behave exactly as before.")
    t.append("Not every unused name is relevant to this property: pick one (or a pair) through which the property's quantifier is still in force (the statement says 'for any ...': an unusual but documented way of getting there is inside it). If, after reading the code, none of the unused names can carry a violation of THIS property, fall back to something else the used names cannot reach: an exported function of a neighbouring package of this repository that the anchored code calls or that builds its inputs (e.g. another constructor for the same options struct, an option with a rarely used value such as zero, negative or nil), and say so in NOTES.md.")
    for d,us,un in api:
        t.append("package %s\n  used:     %s\n  not used: %s"%(d,' '.join(us) or '(none)',' '.join(un) or '(none)'))
    t.append("Earlier changes already touched these functions; prefer other functions (a different function in the same file is fine):")
    for x in sorted(touched): t.append("  - "+x)
    t.append("The change must break the property's statement, observably, within its quantifier. It must be a violation of what the statement SAYS, not of good style: aliasing or mutation that no later legal call can observe does not count, and neither does how often a callback is consulted. Many obvious ideas have been tried already on this code base: look for something else.")
    open(out+'/TARGET.txt','w').write('\n'.join(t)+'\n')
print(open('/tmp/seed/C06p-out/TARGET.txt').read())
