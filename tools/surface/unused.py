import json,re,os,subprocess,sys
props=[json.loads(l) for l in open('/verif/properties.jsonl')]
def harness_files(pid):
    d='/verif/harness/'+pid.lower()
    fs=[os.path.join(d,f) for f in os.listdir(d) if f.endswith('.go')]
    src=''.join(open(f).read() for f in fs)
    for shared in ['syncfx','schedfx','fixture','memnet','subrace','c07race']:
        if 'verifharness/'+shared in src or (shared in('subrace',) and pid in('C08','C14','C15','C16')) or (shared=='c07race' and pid=='C07'):
            sd='/verif/harness/'+shared
            if os.path.isdir(sd):
                fs+= [os.path.join(sd,f) for f in os.listdir(sd) if f.endswith('.go')]
    return fs
def used_idents(pid):
    ids=set()
    for f in harness_files(pid):
        ids|=set(re.findall(r'\.([A-Z][A-Za-z0-9_]*)',open(f).read()))
    return ids
def exported(pkgdir):
    out=[]
    for f in sorted(os.listdir('/repo/'+pkgdir)):
        if not f.endswith('.go') or f.endswith('_test.go'): continue
        s=open('/repo/%s/%s'%(pkgdir,f)).read()
        for m in re.finditer(r'^func (\([a-z]+ \*?([A-Za-z0-9_]+)(?:\[[^\]]*\])?\) )?([A-Z][A-Za-z0-9_]*)\(',s,re.M):
            recv,name=m.group(2),m.group(3)
            if recv and not recv[0].isupper(): continue
            out.append(((recv+'.') if recv else '')+name)
    return out
for p in props:
    pid=p['id']
    pk=sorted({os.path.dirname(f) for f in p['anchors']['files']})
    used=used_idents(pid)
    lines=[]
    for d in pk:
        ex=exported(d)
        un=[e for e in ex if e.split('.')[-1] not in used]
        us=[e for e in ex if e.split('.')[-1] in used]
        lines.append((d,us,un))
    json.dump(lines,open('/tmp/surface/%s.json'%pid,'w'))
    print(pid, [(d,len(us),len(un)) for d,us,un in lines])
