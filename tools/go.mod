module veriftools

go 1.23
