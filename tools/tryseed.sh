#!/bin/bash
# tryseed.sh <ID> <patch.diff> [tier]: run the check against /repo + patch, never leave the patch behind.
# Default: apply to /repo, check, always revert. TRY_VIA=worktree: scratch worktree of /repo with the
# patch applied and a private copy of /verif (for use while something else is reading /repo).
ID=$1; P=$2; T=${3:-quick}
if [ "${TRY_VIA:-repo}" = worktree ]; then
  N=$(basename "$(dirname "$P")")-$$
  CR=/tmp/tryseed/$N-repo; CV=/tmp/tryseed/$N-verif; mkdir -p /tmp/tryseed
  git -C /repo worktree add -q "$CR" HEAD || exit 3
  trap 'git -C /repo worktree remove --force "$CR" 2>/dev/null; rm -rf "$CR" "$CV"; git -C /repo worktree prune' EXIT
  git -C "$CR" apply "$P" || { echo "patch does not apply"; exit 3; }
  mkdir -p "$CV"; rsync -a --exclude .git --exclude .work --exclude replays --exclude seeded /verif/ "$CV/"
  ( cd "$CV" && VERIF_DIR="$CV" VERIF_REPO="$CR" timeout ${TRY_TIMEOUT:-2400} bin/verifctl check $ID --tier $T ) > /tmp/try.$ID.out 2>&1; RC=$?
  cp "$CV/evidence/$ID.json" /tmp/try.$ID.evidence.json 2>/dev/null
  [ $RC = 2 ] && { rm -rf /tmp/try.$ID.shardlogs; mkdir -p /tmp/try.$ID.shardlogs; cp "$CV"/.work/*/shard-*.log /tmp/try.$ID.shardlogs/ 2>/dev/null; }
else
  git -C /repo status --short | grep -q . && { echo "/repo not clean"; exit 3; }
  git -C /repo apply "$P" || { echo "patch does not apply"; exit 3; }
  cd /verif && timeout ${TRY_TIMEOUT:-2400} bin/verifctl check $ID --tier $T > /tmp/try.$ID.out 2>&1; RC=$?
  git -C /repo checkout -q -- .
fi
echo "TRY $ID: exit $RC $(grep -o 'signature="[^"]*"' /tmp/try.$ID.out | sort -u | head -4 | tr '\n' ' ')"; grep MACHINERY /tmp/try.$ID.out | head -2
