#!/bin/bash
# tryseed.sh <ID> <patch.diff> [tier]: apply to /repo, run the check, always revert
ID=$1; P=$2; T=${3:-quick}
git -C /repo status --short | grep -q . && { echo "/repo not clean"; exit 3; }
git -C /repo apply "$P" || { echo "patch does not apply"; exit 3; }
cd /verif && bin/verifctl check $ID --tier $T > /tmp/try.$ID.out 2>&1; RC=$?
git -C /repo checkout -q -- .
echo "TRY $ID: exit $RC $(grep -o 'signature="[^"]*"' /tmp/try.$ID.out | sort -u | head -4 | tr '\n' ' ')"; grep MACHINERY /tmp/try.$ID.out | head -2
