// C08: one sync at a time per publisher; the latest announcement is never
// lost. Stateless model checking of the real subscriber (instrumented
// dagsync/announce/ipnisync) with gated in-memory publishers.
package c08

import (
	"context"
	"fmt"
	"os"
	"sort"
	"strings"
	"testing"
	"testing/synctest"
	"time"

	"github.com/ipfs/go-cid"
	"github.com/ipni/go-libipni/dagsync"
	"github.com/libp2p/go-libp2p/core/peer"

	"verifharness/fixture"
	"verifharness/sched"
	"verifharness/schedfx"
	"verifharness/syncfx"
	"verifharness/vp"
)

type final struct {
	w      *schedfx.World
	events []string
	latest []int
	errs   []string
}

// common end-of-execution collection (free-running)
func finish(e *sched.Exec, w *schedfx.World) func() {
	return func() {
		f := &final{w: w}
		for _, ev := range w.Lst.Poll() {
			f.events = append(f.events, w.EventStr(ev))
		}
		for i := range w.Pubs {
			f.latest = append(f.latest, w.Latest(i))
		}
		e.Data = f
		e.Guarded("cancel and drain of the listener", func() {
			evs, _ := w.Lst.StopCheck()
			for _, ev := range evs {
				f.events = append(f.events, w.EventStr(ev))
			}
		})
		w.CloseGuarded()
	}
}

func basicFindings(e *sched.Exec, prefix string) []sched.Finding {
	var out []sched.Finding
	for _, p := range e.Panics {
		out = append(out, sched.Finding{Sig: prefix + ":panic", Msg: firstLine(p)})
	}
	if len(e.Unfinished) > 0 || len(e.Deadlocked) > 0 {
		var l []string
		for n, at := range e.Unfinished {
			l = append(l, n+"@"+at)
		}
		sort.Strings(l)
		out = append(out, sched.Finding{Sig: prefix + ":blocked", Msg: fmt.Sprintf("threads %v never finish; parked without enabled predicate: %v", l, e.Deadlocked)})
	}
	if e.Leak != "" {
		out = append(out, sched.Finding{Sig: prefix + ":goroutines-remain", Msg: firstLine(e.Leak)})
	}
	return out
}

func firstLine(s string) string {
	if i := strings.IndexByte(s, '\n'); i >= 0 {
		return s[:i]
	}
	return s
}

// perPublisher checks the batch structure of one publisher's hook log against
// its events: the log is a concatenation of descending runs, run k matches
// successful event k (head, count); with exactlyOnce every block in (0..latest]
// is reported exactly once.
func perPublisher(prefix string, pi int, lv *schedfx.LogView, f *final, lastAnnounced int, explicitBatches bool) []sched.Finding {
	var out []sched.Finding
	hooks := lv.Hooks[pi]
	runs := schedfx.Runs(hooks)
	var okEvents, errEvents []string
	for _, ev := range f.events {
		if !strings.HasPrefix(ev, fmt.Sprintf("pub%d[", pi)) {
			continue
		}
		if strings.HasSuffix(ev, " err") {
			errEvents = append(errEvents, ev)
		} else {
			okEvents = append(okEvents, ev)
		}
	}
	// each successful event corresponds to one run, in order
	if !explicitBatches {
		if len(runs) != len(okEvents) {
			out = append(out, sched.Finding{Sig: prefix + ":hook-batches-do-not-match-events", Msg: fmt.Sprintf("pub%d hook log %v splits into %d batches but %d success events %v", pi, hooks, len(runs), len(okEvents), okEvents)})
			return out
		}
		for k, r := range runs {
			want := fmt.Sprintf("pub%d[%d] count=%d", pi, r[0], len(r))
			if okEvents[k] != want {
				out = append(out, sched.Finding{Sig: prefix + ":event-does-not-match-batch", Msg: fmt.Sprintf("pub%d batch %v but event %q", pi, r, okEvents[k])})
				return out
			}
		}
	}
	// exactly once
	seen := map[int]int{}
	for _, b := range hooks {
		seen[b]++
	}
	latest := f.latest[pi]
	for b, n := range seen {
		if n > 1 {
			out = append(out, sched.Finding{Sig: prefix + ":ad-reported-more-than-once", Msg: fmt.Sprintf("pub%d block[%d] reported %d times; hook log %v events %v", pi, b, n, hooks, f.events)})
			return out
		}
	}
	if latest >= 0 && len(errEvents) == 0 {
		for b := 1; b <= latest; b++ {
			if seen[b] != 1 {
				out = append(out, sched.Finding{Sig: prefix + ":ad-not-reported", Msg: fmt.Sprintf("pub%d block[%d] reported %d times although latest is %d; hook log %v", pi, b, seen[b], latest, hooks)})
				return out
			}
		}
	}
	// the latest-synced value moves only with a completed sync: it is the
	// warm-up advertisement or the head of a success notification (a failed
	// sync leaves it where it was)
	if latest > 0 {
		based := false
		for _, ev := range okEvents {
			if strings.HasPrefix(ev, fmt.Sprintf("pub%d[%d] ", pi, latest)) {
				based = true
			}
		}
		if !based {
			out = append(out, sched.Finding{Sig: prefix + ":latest-synced-moved-without-a-completed-sync", Msg: fmt.Sprintf("pub%d: latest synced is block[%d] but no success notification has that head; events %v hooks %v", pi, latest, f.events, hooks)})
			return out
		}
	}
	// the latest announcement is acted on
	if lastAnnounced >= 0 && latest != lastAnnounced {
		got := false
		for _, ev := range errEvents {
			if strings.HasPrefix(ev, fmt.Sprintf("pub%d[%d]", pi, lastAnnounced)) {
				got = true
			}
		}
		if !got {
			sig := ":latest-announcement-lost"
			if latest > lastAnnounced || latest < 0 {
				sig = ":latest-sync-wrong"
			}
			out = append(out, sched.Finding{Sig: prefix + sig, Msg: fmt.Sprintf("pub%d: last announced head is block[%d] but latest synced is %d and no error event for it was delivered; events %v hooks %v", pi, lastAnnounced, latest, f.events, hooks)})
		}
	}
	// requests of one publisher never overlap
	rp := lv.ReqPos[pi]
	for i := 1; i < len(rp); i++ {
		if rp[i][0] < rp[i-1][1] {
			out = append(out, sched.Finding{Sig: prefix + ":two-requests-in-flight-for-one-publisher", Msg: fmt.Sprintf("pub%d requests %s and %s overlap", pi, lv.ReqWhat[pi][i-1], lv.ReqWhat[pi][i])})
			break
		}
	}
	return out
}

// ---- S1 / S2: burst of announcements to one publisher
func burst(name string, failBlock int) *sched.Scenario {
	return burstOf(name, failBlock, []int{1, 2, 3})
}

// burstOf: one thread announces the given chain positions of one publisher in
// turn. Position 0 is the advertisement that is already the latest synced one
// (an indexer that restarts, or a publisher that re-announces its head, sends
// exactly that), which must neither produce a sync nor keep later
// announcements from being handled.
func burstOf(name string, failBlock int, heads []int, so ...dagsync.Option) *sched.Scenario {
	last := heads[len(heads)-1]
	return &sched.Scenario{
		Name: name,
		Setup: func(e *sched.Exec) ([]sched.Thread, func()) {
			w := schedfx.New(e, schedfx.Options{Pubs: 1, ChainLen: 4, Announce: true, SubOpts: so})
			if failBlock >= 0 {
				w.FailReq[fmt.Sprintf("0|%d|0", failBlock)] = true
			}
			p, ch := w.Pubs[0], w.Chains[0]
			threads := []sched.Thread{{Name: "A", Fn: func() {
				for _, h := range heads {
					e.Log("A announce pub0[%d]", h)
					if err := w.Sub.Announce(context.Background(), ch.Cids[h], p.AddrInfo()); err != nil {
						e.Log("A announce-error %v", err)
					}
				}
			}}}
			return threads, finish(e, w)
		},
		Check: func(e *sched.Exec) []sched.Finding {
			out := basicFindings(e, name)
			f, _ := e.Data.(*final)
			if f == nil || len(out) > 0 {
				return out
			}
			lv := schedfx.ParseLog(e.Obs())
			out = append(out, perPublisher(name, 0, lv, f, last, false)...)
			if failBlock < 0 {
				for _, ev := range f.events {
					if strings.HasSuffix(ev, " err") {
						out = append(out, sched.Finding{Sig: name + ":error-event-without-fault", Msg: fmt.Sprint(f.events)})
					}
				}
			}
			return out
		},
	}
}

// ---- S3: k publishers, concurrency limit
func multi(k, limit int) *sched.Scenario { return multiOf(k, limit, 2, false) }

// multiOf: k publishers, each announced `heads` times by its own thread, under
// a limit of concurrent announce-triggered syncs. With failFirst the first
// block request of publisher 0 fails: a failing sync has to give its slot back
// exactly once (not keep it, not give back somebody else's as well).
func multiOf(k, limit, heads int, failFirst bool) *sched.Scenario {
	name := fmt.Sprintf("S3-pubs%d-limit%d", k, limit)
	if failFirst {
		name = fmt.Sprintf("S7-pubs%d-limit%d-first-sync-of-pub0-fails", k, limit)
	}
	return &sched.Scenario{
		Name: name,
		Setup: func(e *sched.Exec) ([]sched.Thread, func()) {
			var so []dagsync.Option
			if limit > 0 {
				so = append(so, dagsync.MaxAsyncConcurrency(limit))
			}
			w := schedfx.New(e, schedfx.Options{Pubs: k, ChainLen: 3, Announce: true, SubOpts: so})
			if failFirst {
				w.FailReq["0|1|0"] = true
			}
			var threads []sched.Thread
			for pi := 0; pi < k; pi++ {
				pi := pi
				threads = append(threads, sched.Thread{Name: fmt.Sprintf("A%d", pi), Fn: func() {
					for h := 1; h <= heads; h++ {
						e.Log("A%d announce pub%d[%d]", pi, pi, h)
						if err := w.Sub.Announce(context.Background(), w.Chains[pi].Cids[h], w.Pubs[pi].AddrInfo()); err != nil {
							e.Log("A%d announce-error %v", pi, err)
						}
					}
				}})
			}
			return threads, finish(e, w)
		},
		Check: func(e *sched.Exec) []sched.Finding {
			out := basicFindings(e, name)
			f, _ := e.Data.(*final)
			if f == nil || len(out) > 0 {
				return out
			}
			lv := schedfx.ParseLog(e.Obs())
			type span struct{ pub, b, e int }
			var spans []span
			for pi := 0; pi < k; pi++ {
				out = append(out, perPublisher(name, pi, lv, f, heads, false)...)
				// sync spans: from the first request of a batch to its last hook
				hooks, hpos := lv.Hooks[pi], lv.HookPos[pi]
				idx := 0
				for _, r := range schedfx.Runs(hooks) {
					end := hpos[idx+len(r)-1]
					begin := end
					for qi, what := range lv.ReqWhat[pi] {
						if what == fmt.Sprintf("block[%d]", r[0]) && lv.ReqPos[pi][qi][0] < begin {
							begin = lv.ReqPos[pi][qi][0]
						}
					}
					spans = append(spans, span{pi, begin, end})
					idx += len(r)
				}
			}
			if limit > 0 {
				for i := range spans {
					n := 1
					for j := range spans {
						if i != j && spans[j].pub != spans[i].pub && spans[j].b <= spans[i].b && spans[i].b <= spans[j].e {
							n++
						}
					}
					if n > limit {
						out = append(out, sched.Finding{Sig: name + ":more-announce-syncs-than-limit", Msg: fmt.Sprintf("%d announce-triggered syncs of different publishers run at once (limit %d): spans %v", n, limit, spans)})
						break
					}
				}
			}
			return out
		},
	}
}

// ---- S4: announcements plus an explicit sync of the same publisher
func mixed() *sched.Scenario { return mixedOf("S4-announce+explicit") }

// ---- S12: the same with a subscriber that syncs in segments of one
// advertisement (SegmentDepthLimit(1)): a sync made of several traversals is
// still one sync
func mixedSegmented() *sched.Scenario {
	return mixedOf("S12-announce+explicit-segmented", dagsync.SegmentDepthLimit(1))
}

func mixedOf(name string, so ...dagsync.Option) *sched.Scenario {
	return &sched.Scenario{
		Name: name,
		Setup: func(e *sched.Exec) ([]sched.Thread, func()) {
			w := schedfx.New(e, schedfx.Options{Pubs: 1, ChainLen: 4, Announce: true, SubOpts: so})
			p, ch := w.Pubs[0], w.Chains[0]
			p.Publisher.SetRoot(ch.Cids[3])
			threads := []sched.Thread{
				{Name: "A", Fn: func() {
					for h := 1; h <= 3; h += 2 {
						e.Log("A announce pub0[%d]", h)
						if err := w.Sub.Announce(context.Background(), ch.Cids[h], p.AddrInfo()); err != nil {
							e.Log("A announce-error %v", err)
						}
					}
				}},
				{Name: "X", Fn: func() {
					e.Log("X explicit-sync begin")
					c, err := w.Sub.SyncAdChain(context.Background(), p.AddrInfo())
					_, bi := w.Locate(c)
					e.Log("X explicit-sync end block[%d] err=%v", bi, err)
				}},
			}
			return threads, finish(e, w)
		},
		Check: func(e *sched.Exec) []sched.Finding {
			out := basicFindings(e, name)
			f, _ := e.Data.(*final)
			if f == nil || len(out) > 0 {
				return out
			}
			lv := schedfx.ParseLog(e.Obs())
			out = append(out, perPublisher(name, 0, lv, f, 3, false)...)
			return out
		},
	}
}

// ---- S9: an entries sync of a publisher that has no handler (removed, as
// after idle expiry or RemoveHandler) overlapping an announcement, or an
// explicit sync, of the same publisher: still one sync at a time
func entriesOfHandlerlessPublisher(other string) *sched.Scenario {
	return entriesVsAds("S9-entries-sync-of-handlerless-publisher+"+other, other, true)
}

// ---- S13: an entries sync overlapping an announcement / an explicit sync of
// the same publisher on a subscriber that syncs advertisement chains in
// segments of one (SegmentDepthLimit(1)): the two advertisements are two
// traversals of ONE sync, and the entries sync does not get in between
func entriesVsSegmentedAds(other string) *sched.Scenario {
	return entriesVsAds("S13-entries-sync+segmented-"+other, other, false, dagsync.SegmentDepthLimit(1))
}

// ---- S9k: as S9, on a subscriber configured with WithLastKnownSync (the
// callback knows only the oldest advertisement): advertisement 1 is synced for
// real first, then the handler is removed. The latest-synced value is what
// the subscriber itself recorded, so the sync that follows covers
// advertisement 2 alone.
func entriesOfHandlerlessPublisherLastKnown(other string) *sched.Scenario {
	return entriesVsAdsLK("S9k-entries-sync-of-handlerless-publisher-with-last-known-sync+"+other, other, true, true)
}

func entriesVsAds(name, other string, removeHandler bool, so ...dagsync.Option) *sched.Scenario {
	return entriesVsAdsLK(name, other, removeHandler, false, so...)
}

// ---- S14: the one-chunk entry point (SyncOneEntry) overlapping an
// announcement / an explicit sync of the same publisher: it is a sync of that
// publisher like any other
func oneEntryVsAds(other string) *sched.Scenario {
	oneEntrySync = true
	sc := entriesVsAdsLK("S14-one-entry-sync+"+other, other, false, false)
	oneEntrySync = false
	return sc
}

// oneEntrySync is read when a scenario is built.
var oneEntrySync bool

// withLastKnown: the subscriber gets WithLastKnownSync(oldest advertisement)
// (the callback needs the chain, which exists only inside Setup) and a real
// sync up to advertisement 1 precedes the explored part.
func entriesVsAdsLK(name, other string, removeHandler, withLastKnown bool, so ...dagsync.Option) *sched.Scenario {
	oneEntry := oneEntrySync
	wantEntries := 2
	if oneEntry {
		wantEntries = 1
	}
	wantAds := 2
	if withLastKnown {
		wantAds = 1
	}
	return &sched.Scenario{
		Name: name,
		Setup: func(e *sched.Exec) ([]sched.Thread, func()) {
			var oldest cid.Cid
			if withLastKnown {
				so = []dagsync.Option{dagsync.WithLastKnownSync(func(peer.ID) (cid.Cid, bool) { return oldest, oldest.Defined() })}
			}
			w := schedfx.New(e, schedfx.Options{Pubs: 1, ChainLen: 3, Announce: true, SubOpts: so})
			p, ch := w.Pubs[0], w.Chains[0]
			oldest = ch.Cids[0]
			ech := syncfx.BuildEntryChain(p.Src, 2, syncfx.DefaultProto, "pub0-entries")
			if withLastKnown {
				// a real sync up to advertisement 1, free-running, before the
				// explored part (its hook call and requests are not observed)
				p.Publisher.SetRoot(ch.Cids[1])
				if _, err := w.Sub.SyncAdChain(context.Background(), p.AddrInfo()); err != nil {
					panic(fmt.Sprintf("set-up sync failed: %v", err))
				}
				synctest.Wait()
				w.Lst.Poll()
				e.Log("set-up sync done")
			}
			p.Publisher.SetRoot(ch.Cids[2])
			if removeHandler {
				w.Sub.RemoveHandler(p.Ident.ID)
			}
			threads := []sched.Thread{
				{Name: "E", Fn: func() {
					e.Log("E entries-sync begin")
					var err error
					if oneEntry {
						err = w.Sub.SyncOneEntry(context.Background(), p.AddrInfo(), ech.Head())
					} else {
						err = w.Sub.SyncEntries(context.Background(), p.AddrInfo(), ech.Head())
					}
					e.Log("E entries-sync end err=%v", err)
				}},
				{Name: "A", Fn: func() {
					if other == "announce" {
						e.Log("A announce pub0[2]")
						if err := w.Sub.Announce(context.Background(), ch.Cids[2], p.AddrInfo()); err != nil {
							e.Log("A announce-error %v", err)
						}
						return
					}
					e.Log("A explicit-sync begin")
					_, err := w.Sub.SyncAdChain(context.Background(), p.AddrInfo())
					e.Log("A explicit-sync end err=%v", err)
				}},
			}
			return threads, finish(e, w)
		},
		Check: func(e *sched.Exec) []sched.Finding {
			out := basicFindings(e, name)
			f, _ := e.Data.(*final)
			if f == nil || len(out) > 0 {
				return out
			}
			// (1) no two block requests of the publisher in flight at once (the
			// head query of an explicit sync comes before that sync takes its
			// turn, as in S4, and discovery is the transport's own business)
			inflight := ""
			var kinds []string // per hook call: "ad" or "entry"
			for _, l := range e.Obs() {
				fs := strings.Fields(l)
				switch {
				case l == "set-up sync done":
					// what the set-up sync did is not part of the observation
					inflight, kinds = "", nil
				case len(fs) == 3 && fs[0] == "pub0" && fs[1] == "req-begin" && strings.HasPrefix(fs[2], "block"):
					if inflight != "" {
						out = append(out, sched.Finding{Sig: name + ":two-requests-in-flight-for-one-publisher", Msg: fmt.Sprintf("request %s begins while %s is in flight", fs[2], inflight)})
						return out
					}
					inflight = fs[2]
				case len(fs) == 3 && fs[0] == "pub0" && fs[1] == "req-end" && fs[2] == inflight:
					inflight = ""
				case len(fs) == 4 && fs[0] == "hook":
					if fs[2] == "pub0" {
						kinds = append(kinds, "ad")
					} else {
						kinds = append(kinds, "entry")
					}
				case strings.HasPrefix(l, "E entries-sync end") && !strings.HasSuffix(l, "err=<nil>"):
					out = append(out, sched.Finding{Sig: name + ":entries-sync-failed", Msg: l})
				}
			}
			// (2) hook calls of the two syncs do not interleave
			switches := 0
			for i := 1; i < len(kinds); i++ {
				if kinds[i] != kinds[i-1] {
					switches++
				}
			}
			if switches > 1 {
				out = append(out, sched.Finding{Sig: name + ":hook-calls-of-two-syncs-interleave", Msg: fmt.Sprint(kinds)})
			}
			// the latest-synced value (block 0, from the set-up) survives the
			// removal of the handler, so the ad sync covers blocks 2 and 1
			if len(kinds) != wantEntries+wantAds {
				out = append(out, sched.Finding{Sig: name + ":wrong-number-of-hook-calls", Msg: fmt.Sprintf("%v (want %d entry chunk(s) and %d advertisement(s))", kinds, wantEntries, wantAds)})
			}
			if f.latest[0] != 2 {
				out = append(out, sched.Finding{Sig: name + ":latest-not-last-announced", Msg: fmt.Sprintf("latest synced is block[%d], want block[2]; events %v", f.latest[0], f.events)})
			}
			return out
		},
	}
}

// ---- S10: an allow filter that rejects one peer: that peer announces the
// publisher's new head first (rejected), then the publisher announces it
// itself (two threads, any order): the head is synced
func rejectedThenAllowed() *sched.Scenario {
	name := "S10-head-announced-by-a-rejected-peer-and-by-the-publisher"
	denied := fixture.Key("ed25519", 77).ID
	return &sched.Scenario{
		Name: name,
		Setup: func(e *sched.Exec) ([]sched.Thread, func()) {
			w := schedfx.New(e, schedfx.Options{Pubs: 1, ChainLen: 3, Announce: true, AllowPeer: func(p peer.ID) bool { return p != denied }})
			p, ch := w.Pubs[0], w.Chains[0]
			threads := []sched.Thread{
				{Name: "B", Fn: func() {
					e.Log("B announce pub0[2] as a rejected peer")
					if err := w.Sub.Announce(context.Background(), ch.Cids[2], peer.AddrInfo{ID: denied, Addrs: p.AddrInfo().Addrs}); err != nil {
						e.Log("B announce-error %v", err)
					}
				}},
				{Name: "A", Fn: func() {
					e.Log("A announce pub0[2]")
					if err := w.Sub.Announce(context.Background(), ch.Cids[2], p.AddrInfo()); err != nil {
						e.Log("A announce-error %v", err)
					}
				}},
			}
			return threads, finish(e, w)
		},
		Check: func(e *sched.Exec) []sched.Finding {
			out := basicFindings(e, name)
			f, _ := e.Data.(*final)
			if f == nil || len(out) > 0 {
				return out
			}
			lv := schedfx.ParseLog(e.Obs())
			out = append(out, perPublisher(name, 0, lv, f, 2, false)...)
			return out
		},
	}
}

// ---- S11: a publisher that was quiet for longer than the idle-handler
// time-to-live (its handler has been cleaned up) announces again: what was
// synced before the silence is still the stop point
func announceAfterIdleCleanup() *sched.Scenario {
	name := "S11-announcement-after-the-idle-handler-was-cleaned-up"
	return &sched.Scenario{
		Name: name,
		Setup: func(e *sched.Exec) ([]sched.Thread, func()) {
			w := schedfx.New(e, schedfx.Options{Pubs: 1, ChainLen: 3, Announce: true, SubOpts: []dagsync.Option{dagsync.IdleHandlerTTL(time.Minute)}})
			p, ch := w.Pubs[0], w.Chains[0]
			time.Sleep(5 * time.Minute) // virtual: the cleaner has removed the idle handler
			threads := []sched.Thread{
				{Name: "A", Fn: func() {
					e.Log("A latest-before=%d", w.Latest(0))
					e.Log("A announce pub0[2]")
					if err := w.Sub.Announce(context.Background(), ch.Cids[2], p.AddrInfo()); err != nil {
						e.Log("A announce-error %v", err)
					}
				}},
			}
			return threads, finish(e, w)
		},
		Check: func(e *sched.Exec) []sched.Finding {
			out := basicFindings(e, name)
			f, _ := e.Data.(*final)
			if f == nil || len(out) > 0 {
				return out
			}
			lv := schedfx.ParseLog(e.Obs())
			for _, l := range e.Obs() {
				if strings.HasPrefix(l, "A latest-before=") && l != "A latest-before=0" {
					out = append(out, sched.Finding{Sig: name + ":latest-synced-forgotten-while-idle", Msg: l + " (block[0] was synced before the silence)"})
					return out
				}
			}
			if fmt.Sprint(lv.Hooks[0]) != "[2 1]" {
				out = append(out, sched.Finding{Sig: name + ":ad-reported-more-than-once", Msg: fmt.Sprintf("hook log %v, want [2 1] (block[0] was reported before the silence)", lv.Hooks[0])})
			}
			out = append(out, perPublisher(name, 0, lv, f, 2, false)...)
			return out
		},
	}
}

// ---- S5: two explicit syncs with different scoped hooks
func scoped() *sched.Scenario {
	name := "S5-scoped-hooks"
	return &sched.Scenario{
		Name: name,
		Setup: func(e *sched.Exec) ([]sched.Thread, func()) {
			w := schedfx.New(e, schedfx.Options{Pubs: 1, ChainLen: 4})
			p, ch := w.Pubs[0], w.Chains[0]
			mk := func(tn string, head int) sched.Thread {
				return sched.Thread{Name: tn, Fn: func() {
					e.Log("%s explicit-sync begin", tn)
					_, err := w.Sub.SyncAdChain(context.Background(), p.AddrInfo(), dagsync.WithHeadAdCid(ch.Cids[head]), dagsync.ScopedBlockHook(w.Hook("scoped"+tn)))
					e.Log("%s explicit-sync end err=%v", tn, err)
				}}
			}
			return []sched.Thread{mk("X", 2), mk("Y", 3)}, finish(e, w)
		},
		Check: func(e *sched.Exec) []sched.Finding {
			out := basicFindings(e, name)
			f, _ := e.Data.(*final)
			if f == nil || len(out) > 0 {
				return out
			}
			lv := schedfx.ParseLog(e.Obs())
			tags, hooks := lv.HookTags[0], lv.Hooks[0]
			// latest synced is block 0 (warm-up), so each explicit sync covers its head down to block 1
			want := map[string][]int{"scopedX": {2, 1}, "scopedY": {3, 2, 1}}
			got := map[string][]int{}
			switches := 0
			for i, tg := range tags {
				got[tg] = append(got[tg], hooks[i])
				if i > 0 && tags[i-1] != tg {
					switches++
				}
			}
			for tg, w := range want {
				if fmt.Sprint(got[tg]) != fmt.Sprint(w) {
					out = append(out, sched.Finding{Sig: name + ":scoped-hook-got-wrong-blocks", Msg: fmt.Sprintf("hook %s received %v, its sync covers %v (all hook calls: %v %v)", tg, got[tg], w, tags, hooks)})
				}
			}
			for tg := range got {
				if _, ok := want[tg]; !ok {
					out = append(out, sched.Finding{Sig: name + ":general-hook-called-during-scoped-sync", Msg: fmt.Sprintf("hook %s was called: %v", tg, got[tg])})
				}
			}
			if switches > 1 {
				out = append(out, sched.Finding{Sig: name + ":hook-calls-of-two-syncs-interleave", Msg: fmt.Sprintf("hook calls interleave: %v", tags)})
			}
			rp := lv.ReqPos[0]
			for i := 1; i < len(rp); i++ {
				if rp[i][0] < rp[i-1][1] {
					out = append(out, sched.Finding{Sig: name + ":two-requests-in-flight-for-one-publisher", Msg: fmt.Sprintf("requests %s and %s overlap", lv.ReqWhat[0][i-1], lv.ReqWhat[0][i])})
					break
				}
			}
			return out
		},
	}
}

func TestCheck(t *testing.T) {
	r := vp.New("C08", "model_checking",
		"scenarios over the real subscriber built with the instrumentation overlay (gated in-memory publishers, chains of 3-4 signed ads, first ad pre-synced): S1 burst of 3 announcements to one publisher; S2 the same with a failing block request; S3 k publishers x 2 announcements with MaxAsyncConcurrency unset/1/2; S4 announcements plus an explicit sync (queried head) of the same publisher; S12 the same on a subscriber that syncs in segments of one advertisement (SegmentDepthLimit(1)); S13 an entries sync overlapping an announcement / explicit sync of the same publisher on such a subscriber; S5 two explicit syncs of one publisher with different scoped hooks; S8 the burst of S1 under MaxAsyncConcurrency(2), i.e. with free slots; S9 an entries sync of a publisher whose handler was removed overlapping an announcement / an explicit sync of that publisher; S9k the same after a real sync on a subscriber configured with WithLastKnownSync (a callback that knows only the oldest advertisement); S14 a SyncOneEntry overlapping an announcement of the same publisher; S10 an allow filter rejecting one peer, which announces the publisher's new head before / after the publisher does; S11 an announcement after a silence longer than the idle-handler time-to-live (virtual time). All interleavings of harness threads, library goroutines (watcher, per-announcement handler, distributor), publisher requests and hook calls at the scheduling points (every lock, atomic, channel operation, select, spawn, request, hook call, observation) up to the preemption bound. states = distinct decision states; transitions = scheduling steps; traces = executions of the real code.",
		"cooperative scheduling at synchronization operations; select statements try cases in source order; bursts of 3 announcements, at most 3 publishers",
		"discovery requests are made in a free-running warm-up sync before the explored part",
	)
	defer func() {
		if err := r.Finish(); err != nil {
			t.Fatal(err)
		}
	}()
	thorough := vp.Thorough()
	bound := 2
	// S8: the burst of S1 under a limit of concurrent announce-triggered syncs
	// that leaves slots free (one publisher, limit 2): announcements of one
	// publisher are handled one after the other whatever the limit is
	scs := []*sched.Scenario{burstOf("S6b-reannounce-synced-head-then-one-new", -1, []int{0, 1}), burstOf("S6-reannounce-synced-head-then-new", -1, []int{0, 1, 2}), multiOf(3, 1, 1, true), burst("S1-burst", -1), burstOf("S8-burst-limit2", -1, []int{1, 2, 3}, dagsync.MaxAsyncConcurrency(2)), multi(2, 0), multi(2, 1), mixed(), mixedSegmented(), entriesVsSegmentedAds("announce"), entriesVsSegmentedAds("explicit"), scoped(), entriesOfHandlerlessPublisher("announce"), entriesOfHandlerlessPublisher("explicit"), entriesOfHandlerlessPublisherLastKnown("announce"), oneEntryVsAds("announce"), rejectedThenAllowed(), announceAfterIdleCleanup(), burst("S2-burst-failing-request", 2)}
	if thorough {
		scs = append(scs, multi(2, 2), multi(3, 1), multi(3, 2))
	}
	r.Bounds(map[string]any{"preemption_bound": bound, "scenarios": len(scs)})
	// every scenario gets an equal share of what is left of the internal budget,
	// so that a large scenario cannot starve the others; each reports the
	// preemption bound it completed
	budget := 0.0
	if v := os.Getenv("VERIF_BUDGET_S"); v != "" {
		fmt.Sscanf(v, "%g", &budget)
	}
	start := time.Now()
	for i, sc := range scs {
		b := bound
		if thorough && (strings.HasPrefix(sc.Name, "S1") || strings.HasPrefix(sc.Name, "S4") || strings.HasPrefix(sc.Name, "S5")) {
			b = 3
		}
		x := &sched.Explorer{T: t, R: r, Sc: sc, Bound: b}
		if budget > 0 && !r.Replaying() {
			left := budget*0.95 - time.Since(start).Seconds()
			share := left / float64(len(scs)-i)
			if share < 1 {
				share = 1
			}
			x.Deadline = time.Now().Add(time.Duration(share * float64(time.Second)))
		}
		done := x.Explore()
		if !r.Replaying() && done < b {
			r.NotExhaustive(fmt.Sprintf("%s: time share used up after completing preemption bound %d of %d", sc.Name, done, b))
		}
	}
	t.Logf("violations: %d", r.Violations())
	_ = syncfx.DefaultProto
}
