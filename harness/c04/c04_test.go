// C04: a failed sync changes nothing durable and does not impair later syncs.
// Fault enumeration: every fault kind at every request position of a sync,
// singly and in pairs, across reach modes, sync kinds and segmentation,
// against the real subscriber / sync client / publisher stack in a bubble.
package c04

import (
	"context"
	"fmt"
	"sort"
	"strings"
	"testing"
	"testing/synctest"
	"time"

	"github.com/ipfs/go-cid"
	cidlink "github.com/ipld/go-ipld-prime/linking/cid"
	"github.com/ipni/go-libipni/announce"
	"github.com/ipni/go-libipni/dagsync"
	"github.com/libp2p/go-libp2p"
	pubsub "github.com/libp2p/go-libp2p-pubsub"
	"github.com/libp2p/go-libp2p/core/peer"
	"github.com/multiformats/go-multiaddr"

	"verifharness/fixture"
	"verifharness/syncfx"
	"verifharness/vp"
)

func firstLine(s string) string {
	if i := strings.IndexByte(s, '\n'); i >= 0 {
		return s[:i]
	}
	return s
}

type mode struct {
	Discovery bool
	TwoAddrs  bool
	Kind      string // queried, explicit, announce
	Seg       int64
	Presync   bool
	L         int
	// Mount: the (plain-HTTP) publisher is served under this URL path prefix
	// of its host and named by an address with an http-path component
	Mount string
	// Retry: the subscriber uses the retrying HTTP client (one retry): a fault
	// that a retry overcomes is masked, everything else is as without it
	Retry bool
	// Resend: the subscriber has a libp2p host and a gossipsub topic, and its
	// receiver republishes direct announcements on it (announce.WithResend);
	// its own republication comes back on the topic and has to be ignored.
	Resend bool
	// MaxAsync: the subscriber limits announce-triggered syncs to one at a time
	// (MaxAsyncConcurrency(1))
	MaxAsync bool
}

// entriesKind: the sync is made through one of the entries entry points
// (SyncEntries, SyncHAMTEntries, SyncOneEntry).
func (m mode) entriesKind() bool {
	return m.Kind == "entries" || m.Kind == "hamt-entries" || m.Kind == "one-entry"
}

func (m mode) String() string {
	s := fmt.Sprintf("disc=%v,addrs2=%v,%s,seg=%d,presync=%v,L=%d", m.Discovery, m.TwoAddrs, m.Kind, m.Seg, m.Presync, m.L)
	if m.Mount != "" {
		s += ",mounted-at=/" + m.Mount
	}
	if m.Retry {
		s += ",retrying-client"
	}
	if m.Resend {
		s += ",pubsub-topic-and-resend"
	}
	if m.MaxAsync {
		s += ",max-async-1"
	}
	return s
}

// pos is a request position: kind, chain index of the block (-1 otherwise),
// occurrence within the attempt.
type pos struct {
	Kind string
	Blk  int
	N    int
}

func (p pos) String() string {
	if p.Kind == "block" {
		return fmt.Sprintf("block[%d]#%d", p.Blk, p.N)
	}
	return fmt.Sprintf("%s#%d", p.Kind, p.N)
}

type fault struct {
	At   pos
	Kind string // status400.., close, short-body, corrupt, substitute, empty, stall, cancel-caller, hook-fail, hook-fail-and-stop, hook-cancels-caller
}

func (f fault) String() string { return f.At.String() + "!" + f.Kind }

var faultKinds = []string{"status400", "status403", "status404", "status500", "status503", "close", "short-body", "corrupt", "substitute", "empty", "stall", "cancel-caller"}

// attempt result
type result struct {
	err      error
	failed   bool
	events   []dagsync.SyncFinished
	latest   int // chain index, -1 none, -2 foreign
	hooks    []int
	reqs     []pos
	reqHosts []string
	audit    []cid.Cid
	stored   []int
	panicked string
}

type runner struct {
	m      mode
	w      *syncfx.World
	p      *syncfx.Pub
	ch     *syncfx.Chain
	lst    *syncfx.Listener
	id     *fixture.Identity
	ctxErr error
	// stopPubsub shuts down the host and topic of a Resend mode
	stopPubsub func()
}

func newRunner(m mode) *runner {
	w := syncfx.NewWorld()
	id := fixture.Key("ed25519", 0)
	var p *syncfx.Pub
	if m.Mount != "" {
		p = w.AddMountedPub(id, m.Mount)
	} else {
		p = w.AddPub(id, m.Discovery)
	}
	if m.TwoAddrs {
		p.AddHost("pub0b.test:80")
	}
	ch := syncfx.BuildAdChain(p.Src, id, m.L, syncfx.DefaultProto, "c04")
	if m.entriesKind() {
		// the entries entry points sync a chain of entry chunks, named by the
		// CID of its first chunk (no head query, no latest-synced value, no
		// notification)
		ch = syncfx.BuildEntryChain(p.Src, m.L, syncfx.DefaultProto, "c04-entries")
	}
	opts := []dagsync.Option{dagsync.SegmentDepthLimit(m.Seg)}
	if m.Retry {
		opts = append(opts, dagsync.RetryableHTTPClient(1, time.Millisecond, 2*time.Millisecond))
	}
	if m.MaxAsync {
		opts = append(opts, dagsync.MaxAsyncConcurrency(1))
	}
	stopPubsub := func() {}
	switch {
	case m.Kind == "announce" && m.Resend:
		h, err := libp2p.New(libp2p.NoListenAddrs, libp2p.Identity(fixture.Key("ed25519", 95).Priv))
		if err != nil {
			panic(err)
		}
		psCtx, psCancel := context.WithCancel(context.Background())
		ps, err := pubsub.NewGossipSub(psCtx, h)
		if err != nil {
			panic(err)
		}
		topic, err := ps.Join("/indexer/ingest/c04")
		if err != nil {
			panic(err)
		}
		w.Host = h
		stopPubsub = func() {
			topic.Close()
			psCancel()
			h.Close()
			// gossipsub's background loops notice their cancelled context only
			// when they wake: let virtual time pass
			time.Sleep(30 * time.Minute)
		}
		opts = append(opts, dagsync.RecvAnnounce("", announce.WithTopic(topic), announce.WithResend(true), announce.WithAllowPeer(func(peer.ID) bool { return true })))
	case m.Kind == "announce":
		opts = append(opts, dagsync.RecvAnnounce("", announce.WithAllowPeer(func(peer.ID) bool { return true })))
	}
	w.NewSubscriber(opts...)
	rn := &runner{m: m, w: w, p: p, ch: ch, id: id, stopPubsub: stopPubsub}
	rn.lst = w.Listen()
	return rn
}

func (rn *runner) close() {
	rn.lst.Stop()
	rn.w.Close()
	rn.stopPubsub()
}

func (rn *runner) idx(c cid.Cid) int {
	if i := rn.ch.Index(c); i >= 0 {
		return i
	}
	return -2
}

// attempt runs one sync of head index h with the given faults.
func (rn *runner) attempt(h int, faults []fault) (res result) {
	w, p, ch := rn.w, rn.p, rn.ch
	p.ResetLog()
	w.ResetHooks()
	w.FailHookAt, w.CancelHookAt, w.FailHookStop = -1, -1, false
	badAddr := false
	byPos := map[pos]string{}
	for _, f := range faults {
		if f.Kind == "hook-fail" || f.Kind == "hook-fail-and-stop" || f.Kind == "lib-hook-callback-fails" {
			w.FailHookAt = f.At.N
			w.FailHookStop = f.Kind == "hook-fail-and-stop"
			if f.Kind == "lib-hook-callback-fails" {
				// from here on (this attempt and the retry) the continuation is
				// decided by the library's MakeGeneralBlockHook
				w.LibHook = true
			}
			continue
		}
		if f.Kind == "hook-cancels-caller" {
			w.CancelHookAt = f.At.N
			continue
		}
		if f.Kind == "unusable-address" {
			badAddr = true
			continue
		}
		byPos[f.At] = f.Kind
	}
	p.Script = func(rq *syncfx.Req) *syncfx.Fault {
		k, ok := byPos[pos{rq.Kind, rn.ch.Index(rq.Cid), rq.N}]
		if !ok {
			return nil
		}
		switch {
		case strings.HasPrefix(k, "status"):
			var st int
			fmt.Sscanf(k, "status%d", &st)
			return &syncfx.Fault{Kind: "status", Status: st}
		case k == "corrupt":
			return &syncfx.Fault{Kind: "mutate", Label: "corrupt", Mutate: func(b []byte) []byte {
				if len(b) > 0 {
					b[len(b)/2] ^= 0x20
				}
				return b
			}}
		case k == "substitute":
			// another valid block of the chain (for non-block requests: a block body)
			other := ch.Cids[0]
			if rq.Kind == "block" && rq.Cid.Equals(other) && len(ch.Cids) > 1 {
				other = ch.Cids[1]
			}
			b, _ := p.Src.Get(other)
			return &syncfx.Fault{Kind: "body", Body: b, Label: "substitute"}
		case k == "empty":
			return &syncfx.Fault{Kind: "body", Body: []byte{}, Label: "empty"}
		default:
			return &syncfx.Fault{Kind: k}
		}
	}
	p.Publisher.SetRoot(ch.Cids[h])
	ctx, cancel := w.Ctx()
	defer cancel()
	info := p.AddrInfo()
	if badAddr {
		// an address that counts as an HTTP address but cannot be turned into a
		// URL: the sync fails before any request, when the client is created
		info = peer.AddrInfo{ID: info.ID, Addrs: []multiaddr.Multiaddr{multiaddr.StringCast("/tcp/80/http")}}
	}
	pn, pm := vp.Guard(func() {
		switch rn.m.Kind {
		case "announce":
			res.err = w.Sub.Announce(ctx, ch.Cids[h], info)
			if res.err == nil {
				// wait for the one event of this sync, up to a virtual horizon
				select {
				case ev, ok := <-rn.lst.C:
					if ok {
						res.events = append(res.events, ev)
					}
				case <-time.After(30 * time.Minute):
				}
			}
		case "explicit":
			_, res.err = w.Sub.SyncAdChain(ctx, info, dagsync.WithHeadAdCid(ch.Cids[h]))
		case "entries":
			res.err = w.Sub.SyncEntries(ctx, info, ch.Cids[h])
		case "hamt-entries":
			res.err = w.Sub.SyncHAMTEntries(ctx, info, ch.Cids[h])
		case "one-entry":
			res.err = w.Sub.SyncOneEntry(ctx, info, ch.Cids[h])
		default:
			_, res.err = w.Sub.SyncAdChain(ctx, info)
		}
		synctest.Wait()
	})
	if pn {
		res.panicked = pm
		return
	}
	res.events = append(res.events, rn.lst.Poll()...)
	res.latest = -1
	if l := w.Sub.GetLatestSync(rn.id.ID); l != nil {
		res.latest = rn.idx(l.(cidlink.Link).Cid)
	}
	for _, hk := range w.HookLog() {
		res.hooks = append(res.hooks, rn.idx(hk.Cid))
	}
	for _, rq := range p.Requests() {
		res.reqs = append(res.reqs, pos{rq.Kind, rn.ch.Index(rq.Cid), rq.N})
		res.reqHosts = append(res.reqHosts, rq.Host)
	}
	res.audit = w.Dst.Audit()
	for _, c := range w.Dst.Keys() {
		res.stored = append(res.stored, rn.idx(c))
	}
	sort.Ints(res.stored)
	if rn.m.Kind == "announce" {
		res.failed = res.err != nil
		for _, ev := range res.events {
			if ev.Err != nil {
				res.failed = true
			}
		}
		if len(res.events) == 0 && res.err == nil {
			// neither success nor failure was reported
			res.failed = res.latest != h
		}
	} else {
		res.failed = res.err != nil
	}
	return
}

func ints(l []int) string { return strings.Trim(fmt.Sprint(l), "[]") }

func TestCheck(t *testing.T) {
	r := vp.New("C04", "fault_enumeration",
		"modes: {libp2p-HTTP discovery, plain HTTP, plain HTTP served under a URL path prefix and named by an http-path address} x {plain / retrying HTTP client (RetryableHTTPClient, one retry)} x {announcements also to a subscriber with a gossipsub topic whose receiver republishes them (WithResend)} x {1, 2 addresses} x {explicit sync with queried head, with explicit head, announce-triggered; entries chains through SyncEntries, SyncHAMTEntries and SyncOneEntry} x {unsegmented, segment size 1, 2} x {nothing synced before, part of the chain synced before} on a chain of L advertisements. For each mode a fault-free reference run fixes the request positions; then every fault kind (HTTP 400/403/404/500/503, connection closed, declared length longer than body, corrupt body, substituted body, empty body, stalled response, caller cancellation during a request, hook failure per block in segmented mode (FailSync alone, FailSync followed by SetNextSyncCid(cid.Undef), and an error returned by the callback of the library's MakeGeneralBlockHook), caller cancellation from inside each block-hook call i.e. between requests and between segments, an address for which no client can be created) at every position, singly, in pairs over a reduced kind set (quick: 404 / 403 / 500 / connection closed / unusable address) and over the larger kind set (thorough), within one attempt and across attempt and retry, each followed by a fault-free retry on the same subscriber. Non-trivial: every faulted run. Distinct = distinct (mode, fault script).",
		"stalled responses and time-outs run in virtual time inside a synctest bubble; the horizon for 'no event will come' is 30 virtual minutes",
		"a fault that the client masks (address fail-over, legacy path fallback) must leave all observations equal to the fault-free reference",
		"the stream-reset retry branch needs a libp2p stream transport and is not driven",
	)
	defer func() {
		if err := r.Finish(); err != nil {
			t.Fatal(err)
		}
	}()
	thorough := vp.Thorough()
	L := 2
	if thorough {
		L = 3
	}
	var modes []mode
	for _, disc := range []bool{true, false} {
		for _, two := range []bool{false, true} {
			for _, kind := range []string{"queried", "explicit", "announce"} {
				for _, seg := range []int64{-1, 1, 2} {
					for _, pre := range []bool{false, true} {
						if !thorough && two && (seg == 2 || pre) {
							continue
						}
						modes = append(modes, mode{Discovery: disc, TwoAddrs: two, Kind: kind, Seg: seg, Presync: pre, L: L})
					}
				}
			}
		}
	}
	// the retrying HTTP client (one retry), both transports
	for _, disc := range []bool{true, false} {
		for _, kind := range []string{"queried", "announce"} {
			modes = append(modes, mode{Discovery: disc, Kind: kind, Seg: -1, L: L, Retry: true})
		}
	}
	// announce-triggered syncs on a subscriber that runs one of them at a time
	for _, disc := range []bool{true, false} {
		modes = append(modes, mode{Discovery: disc, Kind: "announce", Seg: -1, L: L, MaxAsync: true})
	}
	// the entries entry points: a chain of entry chunks synced from its first
	// chunk (all chunks, all links, one chunk)
	for _, disc := range []bool{true, false} {
		for _, kind := range []string{"entries", "hamt-entries", "one-entry"} {
			for _, seg := range []int64{-1, 1} {
				if kind != "entries" && seg > 0 {
					// only SyncEntries syncs in segments; the all-links and
					// the one-chunk entry points never do (they pass -1), so
					// there is no segment at whose end a hook failure could
					// take effect
					continue
				}
				modes = append(modes, mode{Discovery: disc, Kind: kind, Seg: seg, L: L + 1})
			}
		}
	}
	// announcements handed to a subscriber whose receiver republishes them on
	// a pubsub topic (and hears its own republication)
	for _, disc := range []bool{true, false} {
		for _, seg := range []int64{-1, 1} {
			modes = append(modes, mode{Discovery: disc, Kind: "announce", Seg: seg, L: L, Resend: true})
		}
	}
	// a plain-HTTP publisher served under a URL path prefix
	for _, kind := range []string{"queried", "explicit", "announce"} {
		for _, seg := range []int64{-1, 1} {
			modes = append(modes, mode{Kind: kind, Seg: seg, L: L, Mount: "pfx/deeper"})
		}
	}
	r.Bounds(map[string]any{"modes": len(modes), "chain_length": L, "fault_kinds": len(faultKinds) + 1, "pairs": thorough})
	for _, m := range modes {
		runMode(t, r, m, thorough)
		if r.OverBudget() {
			return
		}
	}
	t.Logf("violations: %d", r.Violations())
}

// reference: fault-free run of the mode.
type reference struct {
	first result // the sync under test, fault-free
}

func prepare(rn *runner) {
	if rn.m.Presync {
		// sync the oldest advertisement first (healthy), fixing a latest-synced value
		res := rn.attempt(0, nil)
		if res.failed || res.panicked != "" {
			panic(fmt.Sprintf("presync failed: %v %s", res.err, res.panicked))
		}
	}
}

func runMode(t *testing.T, r *vp.Recorder, m mode, thorough bool) {
	head := m.L - 1
	var ref result
	leak := syncfx.Bubble(t, func(t *testing.T) {
		rn := newRunner(m)
		defer rn.close()
		prepare(rn)
		ref = rn.attempt(head, nil)
	})
	mkey := "mode|" + m.String()
	if ref.failed || ref.panicked != "" || leak != "" {
		if r.Mine(mkey) {
			r.Eval(mkey, true)
			r.Violation("reference-run-failed", mkey, fmt.Sprintf("fault-free sync failed in mode %s: %v %s %s", m, ref.err, firstLine(ref.panicked), firstLine(leak)), nil)
		}
		return
	}
	if r.Mine(mkey) {
		r.Eval(mkey, false)
		r.Sample(map[string]any{"mode": m.String(), "reference_requests": fmt.Sprint(ref.reqs), "reference_hooks": ints(ref.hooks)})
	}
	// fault positions: the requests of the reference run (+ hook calls in segmented mode)
	var singles []fault
	for _, p := range ref.reqs {
		for _, k := range faultKinds {
			if k == "cancel-caller" && m.Kind == "announce" {
				continue
			}
			singles = append(singles, fault{p, k})
		}
	}
	if m.Seg > 0 {
		for i := range ref.hooks {
			singles = append(singles, fault{pos{"hook", -1, i}, "hook-fail"})
			// the same failure, after which the hook also says "no next
			// segment" the documented way (SetNextSyncCid(cid.Undef))
			singles = append(singles, fault{pos{"hook", -1, i}, "hook-fail-and-stop"})
			// the failure is an error returned by the callback of the library's
			// general hook for segmented sync (MakeGeneralBlockHook)
			singles = append(singles, fault{pos{"hook", -1, i}, "lib-hook-callback-fails"})
		}
	}
	// the caller (or the announcement) names an address no client can be made for
	singles = append(singles, fault{pos{"client", -1, 0}, "unusable-address"})
	if m.Kind != "announce" {
		// the caller cancels while a block hook runs, i.e. between requests (and,
		// in segmented mode, between segments): the sync fails, or it had already
		// got everything and equals the fault-free run
		for i := range ref.hooks {
			singles = append(singles, fault{pos{"hook", -1, i}, "hook-cancels-caller"})
		}
	}
	for _, f := range singles {
		oneScript(t, r, m, ref, []fault{f}, nil)
	}
	// quick tier: pairs over a reduced kind set (an error status the client may
	// answer with a fallback or a failover, a broken connection, an unusable
	// address), within one attempt and across attempt and retry
	reduced := func(k string) bool {
		switch k {
		case "status404", "status403", "status500", "close", "unusable-address":
			return true
		}
		return false
	}
	if !thorough {
		for i := 0; i < len(singles); i++ {
			if !reduced(singles[i].Kind) {
				continue
			}
			for j := 0; j < len(singles); j++ {
				if !reduced(singles[j].Kind) {
					continue
				}
				if j > i && singles[i].At != singles[j].At {
					oneScript(t, r, m, ref, []fault{singles[i], singles[j]}, nil)
				}
				oneScript(t, r, m, ref, []fault{singles[i]}, []fault{singles[j]})
			}
		}
		return
	}
	for i := 0; i < len(singles); i++ {
		for j := i + 1; j < len(singles); j++ {
			if singles[i].At == singles[j].At {
				continue
			}
			// pairs: keep the product tractable: second fault from a reduced kind set
			switch singles[j].Kind {
			case "status404", "close", "corrupt", "stall", "hook-fail", "hook-cancels-caller":
			default:
				continue
			}
			oneScript(t, r, m, ref, []fault{singles[i], singles[j]}, nil)
		}
		// one fault in the first attempt and one in the retry
		for j := 0; j < len(singles); j++ {
			switch singles[j].Kind {
			case "status404", "status403", "close", "corrupt":
			default:
				continue
			}
			oneScript(t, r, m, ref, []fault{singles[i]}, []fault{singles[j]})
		}
	}
}

func fstr(fs []fault) string {
	var l []string
	for _, f := range fs {
		l = append(l, f.String())
	}
	return strings.Join(l, "+")
}

// sigClass: the signature class of a violation: reach mode, sync kind and the
// kinds of the faults involved (not their positions).
func sigClass(m mode, a, b []fault) string {
	reach := "plain-http"
	if m.Discovery {
		reach = "libp2p-http"
	}
	var ks []string
	for _, f := range append(append([]fault{}, a...), b...) {
		what := f.At.Kind
		ks = append(ks, what+"!"+f.Kind)
	}
	return fmt.Sprintf("%s:%s:%s", reach, m.Kind, strings.Join(ks, "+"))
}

func oneScript(t *testing.T, r *vp.Recorder, m mode, ref result, s1, s2 []fault) {
	key := fmt.Sprintf("script|%s|%s|%s", m, fstr(s1), fstr(s2))
	if !r.Mine(key) {
		return
	}
	r.Eval(key, true)
	head := m.L - 1
	var viol []string // signature, message pairs
	report := func(sig, msg string) { viol = append(viol, sig, msg) }
	leak := syncfx.Bubble(t, func(t *testing.T) {
		rn := newRunner(m)
		defer rn.close()
		prepare(rn)
		before := -1
		if l := rn.w.Sub.GetLatestSync(rn.id.ID); l != nil {
			before = rn.idx(l.(cidlink.Link).Cid)
		}
		storedBefore := map[int]bool{}
		for _, c := range rn.w.Dst.Keys() {
			storedBefore[rn.idx(c)] = true
		}
		reported := map[int]bool{}
		alreadySynced := false // an earlier attempt synced the head (non-explicit kinds): nothing is left to do
		var injected []fault   // the faults of the attempt being judged
		checkAttempt := func(name string, res result, faulted bool) (ok bool) {
			if res.panicked != "" {
				report("panic", name+": "+firstLine(res.panicked))
				return false
			}
			if len(res.audit) != 0 {
				report("store-corrupt", fmt.Sprintf("%s: %d stored blocks do not verify", name, len(res.audit)))
				return false
			}
			for _, h := range res.hooks {
				reported[h] = true
			}
			if res.failed {
				if !faulted {
					return true // judged by the caller (retry must succeed)
				}
				r.Outcome("failed")
				if res.latest != before {
					report("latest-changed-by-failed-sync", fmt.Sprintf("%s failed (%v) but latest synced moved from %d to %d", name, res.err, before, res.latest))
					return false
				}
				nOK, nErr := 0, 0
				for _, ev := range res.events {
					if ev.Err == nil {
						nOK++
					} else {
						nErr++
					}
				}
				if nOK != 0 {
					report("success-event-for-failed-sync", fmt.Sprintf("%s failed but %d success notification(s) were emitted", name, nOK))
					return false
				}
				if m.Kind == "announce" && nErr != 1 {
					report("announce-failure-not-one-error-event", fmt.Sprintf("%s: announce-triggered sync failed with %d error notifications (want exactly 1)", name, nErr))
					return false
				}
				if m.Kind != "announce" && nErr != 0 {
					report("error-event-for-explicit-sync", fmt.Sprintf("%s: %d error notifications for an explicit sync", name, nErr))
					return false
				}
				return true
			}
			// a failure signalled by the block hook is never masked: once the
			// failing hook call has happened the sync has to report an error
			for _, f := range injected {
				if (f.Kind == "hook-fail" || f.Kind == "hook-fail-and-stop" || f.Kind == "lib-hook-callback-fails") && len(res.hooks) > f.At.N {
					report("sync-succeeded-although-its-block-hook-failed-it", fmt.Sprintf("%s: hook call %d signalled a failure (FailSync), %d hook calls happened, and the sync reported success", name, f.At.N, len(res.hooks)))
					return false
				}
			}
			// reported success: everything must equal the reference
			r.Outcome("masked-or-ok")
			if alreadySynced {
				for _, ev := range res.events {
					if ev.Err != nil {
						report("error-event-on-retry-of-synced-head", fmt.Sprint(ev.Err))
						return false
					}
				}
				return true
			}
			if ints(res.hooks) != ints(ref.hooks) || res.latest != ref.latest || len(res.events) != len(ref.events) || ints(res.stored) != ints(ref.stored) {
				report("successful-sync-differs-from-reference", fmt.Sprintf("%s reported success but hooks [%s] latest %d events %d stored [%s] differ from the fault-free run: hooks [%s] latest %d events %d stored [%s]", name, ints(res.hooks), res.latest, len(res.events), ints(res.stored), ints(ref.hooks), ref.latest, len(ref.events), ints(ref.stored)))
				return false
			}
			for _, ev := range res.events {
				if ev.Err != nil || ev.Count != len(ref.hooks) {
					report("event-content", fmt.Sprintf("%s: event count %d err %v", name, ev.Count, ev.Err))
					return false
				}
			}
			return true
		}
		res1 := rn.attempt(head, s1)
		injected = s1
		if !checkAttempt("faulted sync", res1, true) {
			return
		}
		done := !res1.failed
		before = res1.latest // the state the next attempt starts from
		alreadySynced = done && m.Kind != "explicit" && !m.entriesKind()
		if len(s2) != 0 {
			res2 := rn.attempt(head, s2)
			injected = s2
			if !checkAttempt("faulted retry", res2, true) {
				return
			}
			done = done || !res2.failed
		}
		// fault-free retry on the same subscriber
		storedNow := map[int]bool{}
		for _, c := range rn.w.Dst.Keys() {
			storedNow[rn.idx(c)] = true
		}
		resN := rn.attempt(head, nil)
		if resN.panicked != "" {
			report("panic", "retry: "+firstLine(resN.panicked))
			return
		}
		if done && m.Kind != "explicit" && !m.entriesKind() {
			// a faulted attempt was masked and already synced the head: the
			// retry has nothing left to do; only the final state counts
			if len(resN.audit) != 0 {
				report("store-corrupt", "after retry")
				return
			}
			for _, ev := range resN.events {
				if ev.Err != nil {
					report("error-event-on-retry-of-synced-head", fmt.Sprint(ev.Err))
					return
				}
			}
		} else {
			if resN.failed {
				r.Outcome("retry-failed")
				report("retry-failed", fmt.Sprintf("fault-free retry after [%s][%s] failed: %v (requests %v)", fstr(s1), fstr(s2), resN.err, resN.reqs))
				return
			}
			injected = nil
			if !checkAttempt("fault-free retry", resN, false) {
				return
			}
		}
		if resN.latest != ref.latest {
			report("final-latest-differs", fmt.Sprintf("after retry latest synced is %d, fault-free run ends with %d", resN.latest, ref.latest))
			return
		}
		have := map[int]bool{}
		for _, s := range resN.stored {
			have[s] = true
		}
		for _, s := range ref.stored {
			if !have[s] {
				report("final-store-missing-block", fmt.Sprintf("block %d is missing from the store after the retry", s))
				return
			}
		}
		for _, h := range ref.hooks {
			if !reported[h] {
				report("block-never-reported", fmt.Sprintf("block %d was never handed to the block hook across the attempts", h))
				return
			}
		}
		for _, q := range resN.reqs {
			if q.Kind == "block" && storedNow[q.Blk] {
				report("verified-block-requested-again", fmt.Sprintf("retry requested block %d although it was already stored and verified", q.Blk))
				return
			}
		}
		if len(resN.audit) != 0 {
			report("store-corrupt", "after retry")
		}
		r.Outcome("retry-ok")
	})
	if leak != "" {
		r.Count("bubble_leaks", 1)
		r.Note("goroutines left in bubble for %s: %s", key, firstLine(leak))
	}
	for i := 0; i+1 < len(viol); i += 2 {
		r.Violation(viol[i]+":"+sigClass(m, s1, s2), key, fmt.Sprintf("mode %s, faults [%s] then [%s]: %s", m, fstr(s1), fstr(s2), viol[i+1]), nil)
	}
}
