// C10: announce messages survive encoding, what senders put on the wire is
// what receivers decode, and decoding is total. Bounded-exhaustive enumeration;
// the CBOR decoder runs in an isolated worker with allocation metering.
package c10

import (
	"bytes"
	"context"
	"encoding/json"
	"fmt"
	"io"
	"net/http"
	"net/url"
	"strings"
	"sync"
	"testing"
	"testing/iotest"
	"time"

	"github.com/ipfs/go-cid"
	"github.com/ipni/go-libipni/announce"
	"github.com/ipni/go-libipni/announce/httpsender"
	"github.com/ipni/go-libipni/announce/message"
	"github.com/ipni/go-libipni/announce/p2psender"
	"github.com/libp2p/go-libp2p"
	pubsub "github.com/libp2p/go-libp2p-pubsub"
	"github.com/libp2p/go-libp2p/core/peer"
	"github.com/multiformats/go-multiaddr"
	"github.com/multiformats/go-multihash"
	cbg "github.com/whyrusleeping/cbor-gen"

	"verifharness/fixture"
	"verifharness/memnet"
	"verifharness/vp"
)

func firstLine(s string) string {
	if i := strings.IndexByte(s, '\n'); i >= 0 {
		return s[:i]
	}
	return s
}

func cids() []cid.Cid {
	var out []cid.Cid
	h256 := fixture.Mh("ad", multihash.SHA2_256, -1)
	out = append(out, cid.NewCidV0(h256))
	for _, codec := range []uint64{cid.Raw, cid.DagCBOR, 0x0129 /* dag-json */} {
		for _, mh := range []multihash.Multihash{h256, fixture.Mh("ad", multihash.SHA2_512, -1), fixture.Mh("ad", multihash.IDENTITY, -1)} {
			out = append(out, cid.NewCidV1(codec, mh))
		}
	}
	return out
}

var unknownProtoAddr = append(multiaddr.StringCast("/ip4/1.2.3.4/tcp/80").Bytes(), 0xb9, 0xf7, 0x03, 0x01, 0x02) // code 0xfbb9: not registered

func addrAlphabet() [][]byte {
	return [][]byte{
		multiaddr.StringCast("/ip4/1.2.3.4/tcp/3104/http").Bytes(),
		multiaddr.StringCast("/dns4/ads.example.com/tcp/443/https/http-path/ipni").Bytes(),
		unknownProtoAddr,
		{},
		fixture.Bytes(300, 9),
	}
}

func msgEqual(a, b *message.Message) (bool, string) {
	if !a.Cid.Equals(b.Cid) {
		return false, "cid"
	}
	if len(a.Addrs) != len(b.Addrs) {
		return false, "addrs-count"
	}
	for i := range a.Addrs {
		if !bytes.Equal(a.Addrs[i], b.Addrs[i]) {
			return false, "addr"
		}
	}
	if !bytes.Equal(a.ExtraData, b.ExtraData) {
		return false, "extra-data"
	}
	if a.OrigPeer != b.OrigPeer {
		return false, "orig-peer"
	}
	return true, ""
}

func allocBound(n int) uint64 { return uint64(n) + 2*cbg.ByteArrayMaxLen + 256<<10 }

var canaryMsg = message.Message{Cid: cids()[3], Addrs: [][]byte{[]byte("canary-address-1"), []byte("canary-address-two")}, ExtraData: []byte("canary-extra"), OrigPeer: fixture.Key("ed25519", 11).ID.String()}

// canaryDecode round-trips a fixed valid message and says what differs.
func canaryDecode() string {
	var buf bytes.Buffer
	if err := canaryMsg.MarshalCBOR(&buf); err != nil {
		return "encoding the valid message failed: " + err.Error()
	}
	var back message.Message
	if err := back.UnmarshalCBOR(bytes.NewReader(buf.Bytes())); err != nil {
		return "decoding the valid message failed: " + err.Error()
	}
	if ok, why := msgEqual(&canaryMsg, &back); !ok {
		return "the valid message comes back with a different " + why
	}
	return ""
}

// TestChild is the isolated CBOR decoder worker.
func TestChild(t *testing.T) {
	vp.ServeChild(func(kind byte, data []byte) vp.Reply {
		var rep vp.Reply
		var m message.Message
		var err error
		var p bool
		var pm string
		rep.Alloc = vp.BoundedAlloc(allocBound(len(data)), func() {
			m = message.Message{}
			p, pm = vp.Guard(func() { err = m.UnmarshalCBOR(bytes.NewReader(data)) })
		})
		if p {
			rep.Panicked, rep.PanicMsg = true, firstLine(pm)
			return rep
		}
		if err != nil {
			rep.Err = err.Error()
			// a rejected input leaves nothing behind: a valid message decoded
			// right after it (same process, same package state) is itself
			if why := canaryDecode(); why != "" {
				rep.Flag, rep.Info = "valid-message-decodes-differently-after-a-rejected-input", why
			}
			return rep
		}
		rep.OK = true
		// re-encode, decode again, compare
		var buf bytes.Buffer
		if p, pm := vp.Guard(func() { err = m.MarshalCBOR(&buf) }); p {
			rep.Flag, rep.Info = "reencode-panic", firstLine(pm)
			return rep
		}
		if err != nil {
			rep.Flag, rep.Info = "reencode-error", err.Error()
			return rep
		}
		var m2 message.Message
		if p, pm := vp.Guard(func() { err = m2.UnmarshalCBOR(bytes.NewReader(buf.Bytes())) }); p {
			rep.Flag, rep.Info = "redecode-panic", firstLine(pm)
			return rep
		}
		if err != nil {
			rep.Flag, rep.Info = "redecode-error", err.Error()
			return rep
		}
		if ok, why := msgEqual(&m, &m2); !ok {
			rep.Flag, rep.Info = "reencode-differs:"+why, "decoded message does not survive its own re-encoding"
			return rep
		}
		if p, pm := vp.Guard(func() { _, _ = m.GetAddrs() }); p {
			rep.Flag, rep.Info = "getaddrs-panic", firstLine(pm)
		}
		return rep
	})
}

type decMeta struct {
	kind, key  string
	data       []byte
	nontrivial bool
}

type decoder struct {
	r     *vp.Recorder
	iso   *vp.Isolate
	batch vp.Batch
	meta  []decMeta
}

func (d *decoder) add(kind string, data []byte, nontrivial bool) {
	var key string
	if len(data) > 200 {
		key = fmt.Sprintf("dec|%s|len=%d|h=%x", kind, len(data), vp.Hash64(string(data)))
	} else {
		key = fmt.Sprintf("dec|%x", data)
	}
	if !d.r.Mine(key) {
		return
	}
	data = append([]byte(nil), data...)
	d.meta = append(d.meta, decMeta{kind, key, data, nontrivial})
	if d.batch.Add(0, data) || len(data) > 1<<20 {
		d.flush()
	}
}

func trunc(b []byte) []byte {
	if len(b) > 40 {
		return b[:40]
	}
	return b
}

func (d *decoder) flush() {
	if d.batch.Len() == 0 {
		return
	}
	replies, err := d.iso.Run(&d.batch)
	if err != nil {
		panic(err)
	}
	r := d.r
	for i, rep := range replies {
		m := d.meta[i]
		r.Eval(m.key, m.nontrivial)
		switch {
		case rep.Died:
			r.Outcome("worker-died")
			r.Violation("decode:fatal:"+m.kind, m.key, fmt.Sprintf("decoding %d bytes (%x...) killed the process: %s", len(m.data), trunc(m.data), firstLine(rep.DiedLog)), nil)
			continue
		case rep.Panicked:
			r.Outcome("panic")
			r.Violation("decode:panic:"+m.kind, m.key, fmt.Sprintf("decoding %d bytes (%x...) panicked: %s", len(m.data), trunc(m.data), rep.PanicMsg), nil)
		case !rep.OK:
			r.Outcome("error")
			if rep.Flag != "" {
				r.Violation("decode:"+rep.Flag+":"+m.kind, m.key, fmt.Sprintf("input %x...: %s", trunc(m.data), rep.Info), nil)
			}
		default:
			r.Outcome("accepted")
			if rep.Flag != "" {
				r.Violation("decode:"+rep.Flag+":"+m.kind, m.key, fmt.Sprintf("input %x...: %s", trunc(m.data), rep.Info), nil)
			}
		}
		if b := allocBound(len(m.data)); rep.Alloc > b {
			r.Violation("decode:alloc:"+m.kind, m.key, fmt.Sprintf("decoding %d bytes (%x...) allocated %d bytes, bound %d", len(m.data), trunc(m.data), rep.Alloc, b), nil)
		}
	}
	d.meta = d.meta[:0]
}

func encodeCBOR(m *message.Message) []byte {
	var buf bytes.Buffer
	if err := m.MarshalCBOR(&buf); err != nil {
		panic(err)
	}
	return buf.Bytes()
}

func hdr(maj byte, n uint64) []byte {
	var buf bytes.Buffer
	if err := cbg.WriteMajorTypeHeader(&buf, maj, n); err != nil {
		panic(err)
	}
	return buf.Bytes()
}

func TestCheck(t *testing.T) {
	r := vp.New("C10", "exploration",
		"messages: {CIDv0, CIDv1 x 3 codecs x 3 hash functions} x {every list of 0..3 addresses over a 5-symbol alphabet incl. unknown-protocol, empty and 300-byte strings} x {extra data nil/empty/1/24/256 bytes} x {orig peer absent/present}, CBOR and JSON round trips, the CBOR decoder also fed through readers that deliver one byte / half / 7 bytes per Read or the error together with the last data; HTTP sender (CBOR and JSON) and pubsub sender for every address list of <=3 over {3 valid, 1 unknown-protocol}, the HTTP sender also with extra data whose only, first or last byte is each of the 256 byte values (lists of <=1 address), with an original-peer field and with extra data carried by the message instead of the sender option, one message value sent through a sender with extra data of its own and then through a plain one, and one sender used for sequences of JSON and CBOR announcements (the declared content type is checked on every request), and the pubsub sender that makes its own topic from a host and a topic name, with and without extra data of its own and of the message, read by a second host joined to the topic, and the receiver's own republications of bursts of 2..4 direct announcements (WithResend), read from a second subscription after all were sent, and announcements taken from a receiver (address filtering off and on) re-read after later ones were handled; CBOR decoder: for each corpus encoding every single-byte substitution, every truncation, every CBOR header token at every offset (replacing 0 or 1 byte) singly and a reduced token set in adjacent pairs, lengths at and just above each cap, all byte strings of length <=2; after every rejected input the worker decodes a fixed valid message and compares it. Non-trivial: messages with at least one address or extra data; decoder inputs other than the corpus.",
		"equality treats nil and empty byte fields alike",
		"allocation bound: input length + 2 x ByteArrayMaxLen + 256 KiB",
		"decoder inputs run in a worker subprocess with a 6 GiB address-space limit",
	)
	defer func() {
		if err := r.Finish(); err != nil {
			t.Fatal(err)
		}
	}()
	thorough := vp.Thorough()
	if _, err := multiaddr.NewMultiaddrBytes(unknownProtoAddr); err == nil || !strings.Contains(err.Error(), "no protocol with code") {
		t.Fatalf("harness assumption broken: unknown-protocol address gives %v", err)
	}

	// 1. round trips
	alpha := addrAlphabet()
	var lists [][]int
	var gen func(cur []int)
	gen = func(cur []int) {
		lists = append(lists, append([]int(nil), cur...))
		if len(cur) == 3 {
			return
		}
		for i := range alpha {
			gen(append(cur, i))
		}
	}
	gen(nil)
	extras := [][]byte{nil, {}, {7}, fixture.Bytes(24, 1), fixture.Bytes(256, 2)}
	origs := []string{"", fixture.Key("ed25519", 0).ID.String()}
	var corpus [][]byte
	for ci, c := range cids() {
		for _, l := range lists {
			if !thorough && ci > 2 && len(l) == 3 {
				continue
			}
			for ei, ex := range extras {
				for oi, op := range origs {
					key := fmt.Sprintf("rt|cid%d|%v|extra%d|orig%d", ci, l, ei, oi)
					isCorpus := (ci == 0 || ci == 5) && ((len(l) == 0 && ei == 0) || (fmt.Sprint(l) == "[0 1]" && ei == 3) || (fmt.Sprint(l) == "[2]" && ei == 2))
					mine := r.Mine(key)
					if !mine && !isCorpus {
						continue
					}
					m := message.Message{Cid: c, ExtraData: ex, OrigPeer: op}
					for _, i := range l {
						m.Addrs = append(m.Addrs, alpha[i])
					}
					if isCorpus {
						corpus = append(corpus, encodeCBOR(&m))
					}
					if !mine {
						continue
					}
					r.Eval(key, len(l) > 0 || len(ex) > 0)
					checkRoundTrip(r, key, &m)
				}
			}
		}
	}
	// unknown protocols are skipped, not fatal
	for _, l := range lists {
		key := fmt.Sprintf("getaddrs|%v", l)
		if !r.Mine(key) {
			continue
		}
		okList := true
		want := 0
		for _, i := range l {
			if i >= 3 {
				okList = false
			}
			if i < 2 {
				want++
			}
		}
		if !okList {
			continue
		}
		r.Eval(key, len(l) > 0)
		m := message.Message{}
		for _, i := range l {
			m.Addrs = append(m.Addrs, alpha[i])
		}
		got, err := m.GetAddrs()
		if err != nil || len(got) != want {
			r.Violation("GetAddrs:unknown-protocol-not-skipped", key, fmt.Sprintf("GetAddrs on %v: %d addresses, err %v; want %d, nil", l, len(got), err, want), nil)
		}
	}

	// 2. senders
	checkAfterRejectedEncodes(r)
	checkSenders(r)

	// 3. CBOR decoder totality
	dec := &decoder{r: r, iso: &vp.Isolate{}}
	defer dec.iso.Close()
	r.Bounds(map[string]any{"corpus": len(corpus), "address_lists": len(lists)})
	var tokens, fewTokens [][]byte
	for maj := byte(0); maj < 8; maj++ {
		for _, n := range []uint64{0, 1, 3, 4, 5, 23, 24, 255, 256, 8192, 8193, 65535, 65536, 2 << 20, 2<<20 + 1, 1<<32 - 1, 1 << 32, 1<<63 - 1, 1 << 63, 1<<64 - 1} {
			tokens = append(tokens, hdr(maj, n))
		}
		tokens = append(tokens, []byte{maj<<5 | 31}, []byte{maj<<5 | 28})
		fewTokens = append(fewTokens, hdr(maj, 0), hdr(maj, 4), hdr(maj, 8193), hdr(maj, 1<<64-1))
	}
	tokens = append(tokens, cbg.CborNull, []byte{0xd8, 0x2a}, []byte{0xf5})
	for _, b := range corpus {
		dec.add("corpus", b, false)
		for cut := 0; cut < len(b); cut++ {
			dec.add("truncation", b[:cut], true)
		}
		for i := range b {
			for v := 0; v < 256; v++ {
				if byte(v) != b[i] {
					m := append([]byte(nil), b...)
					m[i] = byte(v)
					dec.add("byte-substitution", m, true)
				}
			}
		}
		for i := 0; i <= len(b); i++ {
			for _, w := range []int{0, 1} {
				if i+w > len(b) {
					continue
				}
				for _, tok := range tokens {
					var m []byte
					m = append(append(append(m, b[:i]...), tok...), b[i+w:]...)
					dec.add("cbor-token", m, true)
				}
				if thorough || len(b) < 80 {
					for _, t1 := range fewTokens {
						for _, t2 := range fewTokens {
							var m []byte
							m = append(append(append(append(m, b[:i]...), t1...), t2...), b[i+w:]...)
							dec.add("cbor-token-pair", m, true)
						}
					}
				}
			}
		}
	}
	// lengths at and just above the caps, with the promised number of bytes present or absent
	c0 := cids()[1]
	prefix := func(nfields uint64) []byte {
		var buf bytes.Buffer
		buf.Write(hdr(cbg.MajArray, nfields))
		if err := cbg.WriteCid(&buf, c0); err != nil {
			panic(err)
		}
		return buf.Bytes()
	}
	for _, n := range []uint64{cbg.MaxLength - 1, cbg.MaxLength, cbg.MaxLength + 1} {
		// n empty addresses
		b := append(prefix(3), hdr(cbg.MajArray, n)...)
		for i := uint64(0); i < n; i++ {
			b = append(b, hdr(cbg.MajByteString, 0)...)
		}
		b = append(b, hdr(cbg.MajByteString, 0)...)
		dec.add("cap-addrs-count", b, true)
		dec.add("cap-addrs-count", append(prefix(3), hdr(cbg.MajArray, n)...), true)
		// orig peer of n bytes
		b = append(prefix(4), hdr(cbg.MajArray, 0)...)
		b = append(b, hdr(cbg.MajByteString, 0)...)
		b = append(b, hdr(cbg.MajTextString, n)...)
		dec.add("cap-orig-peer", append(append([]byte(nil), b...), bytes.Repeat([]byte{'a'}, int(n))...), true)
		dec.add("cap-orig-peer", b, true)
	}
	for _, n := range []uint64{cbg.ByteArrayMaxLen - 1, cbg.ByteArrayMaxLen, cbg.ByteArrayMaxLen + 1} {
		b := append(prefix(3), hdr(cbg.MajArray, 1)...)
		b = append(b, hdr(cbg.MajByteString, n)...)
		dec.add("cap-address-length", b, true)
		full := append(append([]byte(nil), b...), make([]byte, n)...)
		full = append(full, hdr(cbg.MajByteString, 0)...)
		dec.add("cap-address-length", full, true)
		b = append(prefix(3), hdr(cbg.MajArray, 0)...)
		b = append(b, hdr(cbg.MajByteString, n)...)
		dec.add("cap-extra-data", b, true)
		dec.add("cap-extra-data", append(append([]byte(nil), b...), make([]byte, n)...), true)
	}
	// many addresses each declaring the maximum length, none present
	{
		b := append(prefix(3), hdr(cbg.MajArray, 8)...)
		b = append(b, hdr(cbg.MajByteString, cbg.ByteArrayMaxLen)...)
		dec.add("cap-address-length", b, true)
	}
	dec.add("short", []byte{}, true)
	for a := 0; a < 256; a++ {
		dec.add("short", []byte{byte(a)}, true)
		for b := 0; b < 256; b++ {
			dec.add("short", []byte{byte(a), byte(b)}, true)
		}
	}
	dec.flush()
	r.Count("worker_deaths", int64(dec.iso.Deaths))
	t.Logf("violations: %d", r.Violations())
}

// checkAfterRejectedEncodes: an encode that the encoder refuses (undefined
// CID, a field over its cap) leaves nothing behind: the same valid message
// encodes to the same bytes as before, in CBOR and JSON, and still round-trips.
func checkAfterRejectedEncodes(r *vp.Recorder) {
	valid := message.Message{Cid: cids()[2], Addrs: [][]byte{[]byte("addr-one"), []byte("addr-two")}, ExtraData: []byte("extra"), OrigPeer: fixture.Key("ed25519", 7).ID.String()}
	enc := func(m *message.Message) (cb, js []byte, cerr, jerr error, panicked string) {
		var buf bytes.Buffer
		if pn, pm := vp.Guard(func() { cerr = m.MarshalCBOR(&buf); js, jerr = json.Marshal(m) }); pn {
			return nil, nil, nil, nil, firstLine(pm)
		}
		return buf.Bytes(), js, cerr, jerr, ""
	}
	baseC, baseJ, e1, e2, pn := enc(&valid)
	if pn != "" || e1 != nil || e2 != nil {
		r.Violation("cbor:encode-error", "after-rejected|baseline", fmt.Sprint(pn, e1, e2), nil)
		return
	}
	big := func(n int) []byte { return bytes.Repeat([]byte{'x'}, n) }
	rejected := []struct {
		name string
		m    message.Message
	}{
		{"undefined-cid", message.Message{Addrs: [][]byte{[]byte("a")}}},
		{"orig-peer-over-cap", message.Message{Cid: cids()[1], OrigPeer: string(big(cbg.MaxLength + 1))}},
		{"address-over-cap", message.Message{Cid: cids()[1], Addrs: [][]byte{[]byte("ok"), big(cbg.ByteArrayMaxLen + 1)}}},
		{"extra-data-over-cap", message.Message{Cid: cids()[1], Addrs: [][]byte{[]byte("ok")}, ExtraData: big(cbg.ByteArrayMaxLen + 1)}},
		{"too-many-addresses", message.Message{Cid: cids()[1], Addrs: make([][]byte, cbg.MaxLength+1)}},
	}
	for _, rj := range rejected {
		for rep := 1; rep <= 2; rep++ {
			key := fmt.Sprintf("after-rejected|%s|%d", rj.name, rep)
			if !r.Mine(key) {
				continue
			}
			r.Eval(key, true)
			_, _, cerr, _, pn := enc(&rj.m)
			if pn != "" {
				r.Violation("cbor:encode-panic", key, pn, nil)
				continue
			}
			if cerr == nil {
				r.Outcome("encoder-accepted-" + rj.name)
			}
			cb, js, e1, e2, pn := enc(&valid)
			if pn != "" || e1 != nil || e2 != nil {
				r.Violation("encode:valid-message-fails-after-a-rejected-one", key, fmt.Sprint(pn, e1, e2), nil)
				continue
			}
			if !bytes.Equal(cb, baseC) || !bytes.Equal(js, baseJ) {
				r.Violation("encode:valid-message-encodes-differently-after-a-rejected-one", key, fmt.Sprintf("after an encode rejected for %s, the same valid message encodes to %x... (%d bytes) instead of %x... (%d bytes)", rj.name, trunc(cb), len(cb), trunc(baseC), len(baseC)), nil)
				continue
			}
			checkRoundTrip(r, key, &valid)
		}
	}
}

// chunkReader hands out at most n bytes per Read.
type chunkReader struct {
	b []byte
	n int
}

func (c *chunkReader) Read(p []byte) (int, error) {
	if len(c.b) == 0 {
		return 0, io.EOF
	}
	k := min(c.n, len(p), len(c.b))
	copy(p, c.b[:k])
	c.b = c.b[k:]
	return k, nil
}

func checkRoundTrip(r *vp.Recorder, key string, m *message.Message) {
	var buf bytes.Buffer
	var err error
	if pn, pm := vp.Guard(func() { err = m.MarshalCBOR(&buf) }); pn {
		r.Violation("cbor:encode-panic", key, firstLine(pm), nil)
		return
	}
	if err != nil {
		r.Violation("cbor:encode-error", key, err.Error(), nil)
		return
	}
	var back message.Message
	if pn, pm := vp.Guard(func() { err = back.UnmarshalCBOR(bytes.NewReader(buf.Bytes())) }); pn {
		r.Violation("cbor:decode-panic", key, firstLine(pm), nil)
		return
	}
	if err != nil {
		r.Violation("cbor:decode-error", key, fmt.Sprintf("decoding the CBOR encoding failed: %v", err), nil)
		return
	}
	if ok, why := msgEqual(m, &back); !ok {
		r.Violation("cbor:roundtrip-differs:"+why, key, fmt.Sprintf("CBOR round trip changed %s", why), nil)
		return
	}
	// the same bytes arriving the way a network hands them over: one byte at
	// a time, in halves, in chunks of 7, and with the error delivered together
	// with the last data (all legal io.Reader behaviour)
	for _, rd := range []struct {
		name string
		mk   func([]byte) io.Reader
	}{
		{"one-byte-reads", func(b []byte) io.Reader { return iotest.OneByteReader(bytes.NewReader(b)) }},
		{"half-reads", func(b []byte) io.Reader { return iotest.HalfReader(bytes.NewReader(b)) }},
		{"chunks-of-7", func(b []byte) io.Reader { return &chunkReader{b: b, n: 7} }},
		{"data-with-eof", func(b []byte) io.Reader { return iotest.DataErrReader(bytes.NewReader(b)) }},
	} {
		var viaReader message.Message
		if pn, pm := vp.Guard(func() { err = viaReader.UnmarshalCBOR(rd.mk(buf.Bytes())) }); pn {
			r.Violation("cbor:decode-panic", key, rd.name+": "+firstLine(pm), nil)
			return
		}
		if err != nil {
			r.Violation("cbor:decode-error:"+rd.name, key, fmt.Sprintf("decoding the CBOR encoding from a reader with %s failed: %v", rd.name, err), nil)
			return
		}
		if ok, why := msgEqual(m, &viaReader); !ok {
			r.Violation("cbor:roundtrip-differs:"+rd.name+":"+why, key, fmt.Sprintf("CBOR round trip through a reader with %s changed %s", rd.name, why), nil)
			return
		}
	}
	// JSON
	js, err := json.Marshal(m)
	if err != nil {
		r.Violation("json:encode-error", key, err.Error(), nil)
		return
	}
	var jb message.Message
	if pn, pm := vp.Guard(func() { err = json.Unmarshal(js, &jb) }); pn {
		r.Violation("json:decode-panic", key, firstLine(pm), nil)
		return
	}
	if err != nil {
		r.Violation("json:decode-error", key, err.Error(), nil)
		return
	}
	if ok, why := msgEqual(m, &jb); !ok {
		r.Violation("json:roundtrip-differs:"+why, key, fmt.Sprintf("JSON round trip changed %s (json %s)", why, js), nil)
		return
	}
	r.Outcome("roundtrip-ok")
	if len(m.Addrs) == 2 && m.OrigPeer != "" && len(m.ExtraData) == 24 {
		r.Sample(map[string]any{"cid": m.Cid.String(), "cbor_hex_prefix": fmt.Sprintf("%x", trunc(buf.Bytes())), "json_prefix": string(trunc(js))})
	}
}

// checkSenders drives the real HTTP sender against an in-memory server that
// decodes the body the way a receiver does, and the pubsub sender on a
// single-host topic.
func checkSenders(r *vp.Recorder) {
	valid := []multiaddr.Multiaddr{
		multiaddr.StringCast("/ip4/1.2.3.4/tcp/3104/http"),
		multiaddr.StringCast("/dns4/ads.example.com/tcp/443/https"),
		multiaddr.StringCast("/ip6/2001:db8::1/tcp/9/tls/http/http-path/a%2Fb"),
	}
	pub := fixture.Key("ed25519", 7)
	// addresses that already carry a peer ID component: a relay circuit, another
	// peer's ID at the end, the publisher's own ID at the end. "Appended to each
	// address" has no exception for them.
	relay, otherPeer := fixture.Key("ed25519", 8), fixture.Key("secp256k1", 9)
	valid = append(valid,
		multiaddr.StringCast("/ip4/192.0.2.7/tcp/4001/p2p/"+relay.ID.String()+"/p2p-circuit"),
		multiaddr.StringCast("/ip4/192.0.2.8/tcp/4001/p2p/"+otherPeer.ID.String()),
		multiaddr.StringCast("/dns4/ads.example.com/tcp/443/https/p2p/"+pub.ID.String()),
	)
	nValid := len(valid)
	n := memnet.New()
	var mu sync.Mutex
	var gotBody []byte
	var gotCT string
	stop := n.Serve("indexer.test:80", http.HandlerFunc(func(w http.ResponseWriter, req *http.Request) {
		b, _ := io.ReadAll(req.Body)
		mu.Lock()
		gotBody, gotCT = b, req.Header.Get("Content-Type")
		mu.Unlock()
		w.WriteHeader(http.StatusNoContent)
	}))
	defer stop()
	u, _ := url.Parse("http://indexer.test:80/announce")
	c := cids()[4]

	var lists [][]int
	var gen func(cur []int)
	gen = func(cur []int) {
		lists = append(lists, append([]int(nil), cur...))
		if len(cur) == 3 {
			return
		}
		for i := 0; i <= nValid; i++ {
			gen(append(cur, i))
		}
	}
	gen(nil)
	for _, l := range lists {
		for _, mode := range []string{"cbor", "json"} {
			extras := [][]byte{nil, []byte("extra-data")}
			if len(l) <= 1 {
				// extra data is an opaque byte string: every byte value as its
				// only, its first and its last byte (the body that goes on the
				// wire ends with it when there is no original-peer field)
				for b := 0; b < 256; b++ {
					extras = append(extras, []byte{byte(b)}, []byte{'x', 'd', byte(b)}, []byte{byte(b), 'x', 'd'})
				}
			}
			// the message's own fields besides the addresses: an original-peer
			// field (a relayed announcement) and extra data carried by the
			// message itself instead of the sender's option
			origPeer := fixture.Key("ed25519", 9).ID.String()
			type variant struct {
				extra    []byte
				orig     string
				ownExtra bool
			}
			var variants []variant
			for _, extra := range extras {
				variants = append(variants, variant{extra: extra})
			}
			variants = append(variants, variant{orig: origPeer}, variant{extra: []byte("extra-data"), orig: origPeer}, variant{extra: []byte("own-extra"), ownExtra: true}, variant{extra: []byte("own-extra"), ownExtra: true, orig: origPeer})
			for _, v := range variants {
				extra := v.extra
				key := fmt.Sprintf("httpsend|%s|%v|extra=%d", mode, l, len(extra))
				if len(extra) > 0 && len(extra) <= 3 {
					key = fmt.Sprintf("httpsend|%s|%v|extra=x%x", mode, l, extra)
				}
				if v.orig != "" {
					key += "|orig-peer"
				}
				if v.ownExtra {
					key += "|extra-in-message"
				}
				if !r.Mine(key) {
					continue
				}
				r.Eval(key, len(l) > 0)
				opts := []httpsender.Option{httpsender.WithClient(n.Client())}
				if extra != nil && !v.ownExtra {
					opts = append(opts, httpsender.WithExtraData(extra))
				}
				s, err := httpsender.New([]*url.URL{u}, pub.ID, opts...)
				if err != nil {
					r.Violation("httpsender:new-error", key, err.Error(), nil)
					continue
				}
				msg := message.Message{Cid: c, OrigPeer: v.orig}
				if v.ownExtra {
					msg.ExtraData = extra
				}
				var want []string
				for _, i := range l {
					if i < nValid {
						msg.Addrs = append(msg.Addrs, valid[i].Bytes())
						want = append(want, valid[i].String())
					} else {
						msg.Addrs = append(msg.Addrs, unknownProtoAddr)
					}
				}
				ctx, cancel := context.WithTimeout(context.Background(), 30*time.Second)
				var serr error
				pn, pm := vp.Guard(func() {
					if mode == "cbor" {
						serr = s.Send(ctx, msg)
					} else {
						serr = s.SendJson(ctx, msg)
					}
				})
				cancel()
				s.Close()
				if pn {
					r.Violation("httpsender:panic", key, firstLine(pm), nil)
					continue
				}
				if serr != nil {
					r.Violation("httpsender:send-error", key, serr.Error(), nil)
					continue
				}
				mu.Lock()
				body, ct := gotBody, gotCT
				mu.Unlock()
				var got message.Message
				if mode == "cbor" {
					err = got.UnmarshalCBOR(bytes.NewReader(body))
				} else {
					err = json.Unmarshal(body, &got)
				}
				if err != nil {
					r.Violation("httpsender:receiver-cannot-decode:"+mode, key, fmt.Sprintf("receiver cannot decode the %s body (content type %q): %v", mode, ct, err), nil)
					continue
				}
				// a receiver picks its decoder by the declared content type
				if wantCT := map[string]string{"cbor": "application/octet-stream", "json": "application/json"}[mode]; ct != wantCT {
					r.Violation("httpsender:content-type:"+mode, key, fmt.Sprintf("a %s announcement was sent with Content-Type %q, want %q", mode, ct, wantCT), nil)
					continue
				}
				addrs, err := got.GetAddrs()
				if err != nil {
					r.Violation("httpsender:receiver-getaddrs", key, err.Error(), nil)
					continue
				}
				// decode the way a receiver does: split the /p2p/<publisher> suffix off
				ais, err := peer.AddrInfosFromP2pAddrs(addrs...)
				if err != nil {
					r.Violation("httpsender:receiver-addrinfo", key, err.Error(), nil)
					continue
				}
				var gl []string
				okID := true
				for _, ai := range ais {
					if ai.ID != pub.ID {
						okID = false
					}
					for _, a := range ai.Addrs {
						gl = append(gl, a.String())
					}
				}
				if len(ais) > 1 || (len(want) > 0 && len(ais) != 1) {
					okID = false
				}
				if !got.Cid.Equals(c) || !okID || strings.Join(gl, " ") != strings.Join(want, " ") || !bytes.Equal(got.ExtraData, extra) || got.OrigPeer != v.orig {
					r.Violation("httpsender:wire-differs:"+mode, key, fmt.Sprintf("receiver decoded cid=%s publisher-ok=%v addrs=%v extra=%q orig=%q; want cid=%s addrs=%v extra=%q orig=%q", got.Cid, okID, gl, got.ExtraData, got.OrigPeer, c, want, extra, v.orig), nil)
					continue
				}
				r.Outcome("httpsend-ok")
			}
		}
	}

	// the same message value handed to two senders in turn: one configured
	// with extra data of its own (which it puts on the wire in place of the
	// message's), then a plain one. The message belongs to the caller: what the
	// second sender puts on the wire is the message as the caller built it.
	for _, mode := range []string{"cbor", "json"} {
		for _, first := range []string{"http", "http-json"} {
			key := fmt.Sprintf("httpsend-twice|%s-then-%s", first, mode)
			if !r.Mine(key) {
				continue
			}
			r.Eval(key, true)
			own := append(make([]byte, 0, 64), []byte("t01234-provider")...)
			msg := message.Message{Cid: c, ExtraData: own, Addrs: [][]byte{valid[0].Bytes()}}
			snapshot := message.Message{Cid: c, ExtraData: append([]byte(nil), own...), Addrs: [][]byte{append([]byte(nil), valid[0].Bytes()...)}}
			withExtra, err1 := httpsender.New([]*url.URL{u}, pub.ID, httpsender.WithClient(n.Client()), httpsender.WithExtraData([]byte("XY")))
			plain, err2 := httpsender.New([]*url.URL{u}, pub.ID, httpsender.WithClient(n.Client()))
			if err1 != nil || err2 != nil {
				r.Violation("httpsender:new-error", key, fmt.Sprint(err1, err2), nil)
				continue
			}
			ctx, cancel := context.WithTimeout(context.Background(), 30*time.Second)
			var serr1, serr2 error
			pn, pm := vp.Guard(func() {
				if first == "http" {
					serr1 = withExtra.Send(ctx, msg)
				} else {
					serr1 = withExtra.SendJson(ctx, msg)
				}
				if mode == "cbor" {
					serr2 = plain.Send(ctx, msg)
				} else {
					serr2 = plain.SendJson(ctx, msg)
				}
			})
			cancel()
			withExtra.Close()
			plain.Close()
			if pn || serr1 != nil || serr2 != nil {
				r.Violation("httpsender:send-error", key, fmt.Sprint(firstLine(pm), serr1, serr2), nil)
				continue
			}
			mu.Lock()
			body := gotBody
			mu.Unlock()
			var got message.Message
			var derr error
			if mode == "cbor" {
				derr = got.UnmarshalCBOR(bytes.NewReader(body))
			} else {
				derr = json.Unmarshal(body, &got)
			}
			if derr != nil {
				r.Violation("httpsender:receiver-cannot-decode:"+mode, key, derr.Error(), nil)
				continue
			}
			if !bytes.Equal(got.ExtraData, snapshot.ExtraData) {
				r.Violation("httpsender:second-send-of-a-message-differs:"+mode, key, fmt.Sprintf("a message with extra data %q was sent through a sender with its own extra data and then through a plain sender: the second request carries extra data %q", snapshot.ExtraData, got.ExtraData), nil)
				continue
			}
			if !bytes.Equal(msg.ExtraData, snapshot.ExtraData) || !bytes.Equal(msg.Addrs[0], snapshot.Addrs[0]) {
				r.Violation("httpsender:message-of-the-caller-modified", key, fmt.Sprintf("after two sends the caller's message has extra data %q (was %q)", msg.ExtraData, snapshot.ExtraData), nil)
				continue
			}
			r.Outcome("httpsend-twice-ok")
		}
	}

	// one sender used for several announcements in every order of the two
	// encodings: each request declares the encoding it carries
	for _, seqo := range []string{"json,cbor", "cbor,json", "json,json,cbor", "json,cbor,json,cbor", "json|user-agent", "cbor,json|user-agent", "json,cbor|user-agent+extra"} {
		key := "httpsend-one-sender|" + seqo
		if !r.Mine(key) {
			continue
		}
		r.Eval(key, true)
		// after "|": further options the sender is built with (they say nothing
		// about the encoding: each request still declares what it carries)
		seq, withOpts, _ := strings.Cut(seqo, "|")
		sopts := []httpsender.Option{httpsender.WithClient(n.Client())}
		if strings.Contains(withOpts, "user-agent") {
			sopts = append(sopts, httpsender.WithUserAgent("verif-announcer/1.0"))
		}
		if strings.Contains(withOpts, "extra") {
			sopts = append(sopts, httpsender.WithExtraData([]byte("xx")))
		}
		one, err := httpsender.New([]*url.URL{u}, pub.ID, sopts...)
		if err != nil {
			r.Violation("httpsender:new-error", key, err.Error(), nil)
			continue
		}
		for i, mode := range strings.Split(seq, ",") {
			msg := message.Message{Cid: c, Addrs: [][]byte{valid[0].Bytes()}}
			ctx, cancel := context.WithTimeout(context.Background(), 30*time.Second)
			var serr error
			pn, pm := vp.Guard(func() {
				if mode == "cbor" {
					serr = one.Send(ctx, msg)
				} else {
					serr = one.SendJson(ctx, msg)
				}
			})
			cancel()
			if pn || serr != nil {
				r.Violation("httpsender:send-error", key, fmt.Sprint(firstLine(pm), serr), nil)
				break
			}
			mu.Lock()
			body, ct := gotBody, gotCT
			mu.Unlock()
			var got message.Message
			var derr error
			wantCT := "application/json"
			if mode == "cbor" {
				derr = got.UnmarshalCBOR(bytes.NewReader(body))
				wantCT = "application/octet-stream"
			} else {
				derr = json.Unmarshal(body, &got)
			}
			if derr != nil || ct != wantCT || !got.Cid.Equals(c) {
				r.Violation("httpsender:content-type-or-body-after-earlier-sends:"+mode, key, fmt.Sprintf("announcement %d (%s) of the sequence %s on one sender: Content-Type %q (want %q), decode error %v", i+1, mode, seq, ct, wantCT, derr), nil)
				break
			}
		}
		one.Close()
		r.Outcome("httpsend-one-sender-ok")
	}

	ownTopicSender(r, pub, c)
	receiverRepublications(r, pub)
	receiverHeldAnnouncements(r, pub)

	// pubsub sender on a single-host topic
	key := "p2psend"
	if !r.Mine(key) {
		return
	}
	r.Eval(key, true)
	h, err := libp2p.New(libp2p.NoListenAddrs, libp2p.Identity(pub.Priv))
	if err != nil {
		r.Note("libp2p host unavailable: %v", err)
		return
	}
	defer h.Close()
	ps, err := pubsub.NewGossipSub(context.Background(), h)
	if err != nil {
		r.Note("gossipsub unavailable: %v", err)
		return
	}
	topic, err := ps.Join("/indexer/ingest/verif")
	if err != nil {
		r.Note("join: %v", err)
		return
	}
	sub, err := topic.Subscribe()
	if err != nil {
		r.Note("subscribe: %v", err)
		return
	}
	sender, err := p2psender.New(nil, "", p2psender.WithTopic(topic), p2psender.WithExtraData([]byte("xd")))
	if err != nil {
		r.Violation("p2psender:new-error", key, err.Error(), nil)
		return
	}
	for _, l := range lists[:20] {
		msg := message.Message{Cid: c, OrigPeer: pub.ID.String()}
		for _, i := range l {
			if i < 3 {
				msg.Addrs = append(msg.Addrs, valid[i].Bytes())
			} else {
				msg.Addrs = append(msg.Addrs, unknownProtoAddr)
			}
		}
		ctx, cancel := context.WithTimeout(context.Background(), 20*time.Second)
		if err := sender.Send(ctx, msg); err != nil {
			cancel()
			r.Violation("p2psender:send-error", key, err.Error(), nil)
			return
		}
		pm, err := sub.Next(ctx)
		cancel()
		if err != nil {
			r.Note("pubsub delivery to self failed: %v", err)
			return
		}
		var got message.Message
		if err := got.UnmarshalCBOR(bytes.NewReader(pm.Data)); err != nil {
			r.Violation("p2psender:receiver-cannot-decode", key, err.Error(), nil)
			return
		}
		want := msg
		want.ExtraData = []byte("xd")
		if ok, why := msgEqual(&want, &got); !ok {
			r.Violation("p2psender:wire-differs:"+why, key, "pubsub message differs from what was sent in "+why, nil)
			return
		}
		r.Outcome("p2psend-ok")
	}
	// bursts: several messages sent back to back through one sender before any
	// of them is read; every delivery must still be the message that was sent
	// (what is handed to pubsub must not be touched again by the sender)
	for burst := 2; burst <= 4; burst++ {
		bkey := fmt.Sprintf("p2psend|burst%d", burst)
		r.Eval(bkey, true)
		var sent []message.Message
		ctx, cancel := context.WithTimeout(context.Background(), 30*time.Second)
		for i := 0; i < burst; i++ {
			msg := message.Message{Cid: cids()[(i+1)%len(cids())], OrigPeer: pub.ID.String()}
			for j := 0; j <= i; j++ {
				msg.Addrs = append(msg.Addrs, valid[(i+j)%3].Bytes())
			}
			if err := sender.Send(ctx, msg); err != nil {
				cancel()
				r.Violation("p2psender:send-error", bkey, err.Error(), nil)
				return
			}
			msg.ExtraData = []byte("xd")
			sent = append(sent, msg)
		}
		for i := 0; i < burst; i++ {
			pm, err := sub.Next(ctx)
			if err != nil {
				cancel()
				r.Note("pubsub delivery to self failed: %v", err)
				return
			}
			var got message.Message
			if err := got.UnmarshalCBOR(bytes.NewReader(pm.Data)); err != nil {
				r.Violation("p2psender:burst:receiver-cannot-decode", bkey, fmt.Sprintf("message %d of a burst of %d: %v", i, burst, err), nil)
				break
			}
			if ok, why := msgEqual(&sent[i], &got); !ok {
				r.Violation("p2psender:burst:wire-differs:"+why, bkey, fmt.Sprintf("message %d of a burst of %d differs from what was sent in %s", i, burst, why), nil)
				break
			}
		}
		cancel()
		r.Outcome("p2psend-burst-ok")
	}
	var _ peer.ID
}

// receiverRepublications: the receiver is a sender too: with WithResend(true)
// every direct announcement goes out on its topic. Bursts of 2..4 direct
// announcements (each taken out with Next before the following one), and only
// then are the messages read from a second subscription on the topic: each is
// the announcement it was sent for (CID, addresses, original publisher), also
// after later ones have been sent.
func receiverRepublications(r *vp.Recorder, pub *fixture.Identity) {
	for burst := 2; burst <= 4; burst++ {
		key := fmt.Sprintf("receiver-republications|burst%d", burst)
		if !r.Mine(key) {
			continue
		}
		r.Eval(key, true)
		func() {
			h, err := libp2p.New(libp2p.NoListenAddrs)
			if err != nil {
				r.Note("republications: host unavailable: %v", err)
				return
			}
			defer h.Close()
			ctx, cancel := context.WithTimeout(context.Background(), 40*time.Second)
			defer cancel()
			ps, err := pubsub.NewGossipSub(ctx, h)
			if err != nil {
				r.Note("republications: gossipsub unavailable: %v", err)
				return
			}
			topic, err := ps.Join("/indexer/ingest/verif-resend")
			if err != nil {
				r.Note("republications: join: %v", err)
				return
			}
			sub, err := topic.Subscribe()
			if err != nil {
				r.Note("republications: subscribe: %v", err)
				return
			}
			rc, err := announce.NewReceiver(h, "", announce.WithTopic(topic), announce.WithResend(true), announce.WithAllowPeer(func(peer.ID) bool { return true }))
			if err != nil {
				r.Violation("receiver-republications:new-error", key, err.Error(), nil)
				return
			}
			defer rc.Close()
			all := cids()
			var want []message.Message
			for i := 0; i < burst; i++ {
				c := all[(i+2)%len(all)]
				var addrs []multiaddr.Multiaddr
				for j := 0; j <= i%3; j++ {
					addrs = append(addrs, multiaddr.StringCast(fmt.Sprintf("/ip4/203.0.113.%d/tcp/%d/http", i+1, 3000+j)))
				}
				if err := rc.Direct(ctx, c, peer.AddrInfo{ID: pub.ID, Addrs: addrs}); err != nil {
					r.Violation("receiver-republications:direct-error", key, err.Error(), nil)
					return
				}
				if _, err := rc.Next(ctx); err != nil {
					r.Violation("receiver-republications:next-error", key, err.Error(), nil)
					return
				}
				m := message.Message{Cid: c, OrigPeer: pub.ID.String()}
				m.SetAddrs(addrs)
				want = append(want, m)
			}
			for i := 0; i < burst; i++ {
				pm, err := sub.Next(ctx)
				if err != nil {
					r.Note("republications: delivery to the second subscription failed: %v", err)
					return
				}
				var got message.Message
				if err := got.UnmarshalCBOR(bytes.NewReader(pm.Data)); err != nil {
					r.Violation("receiver-republications:receiver-cannot-decode", key, fmt.Sprintf("republication %d of %d: %v", i, burst, err), nil)
					return
				}
				if ok, why := msgEqual(&want[i], &got); !ok {
					r.Violation("receiver-republications:wire-differs:"+why, key, fmt.Sprintf("republication %d of %d direct announcements, read after all were sent, differs from the announcement it was sent for in %s: got CID %s, announced %s", i, burst, why, got.Cid, want[i].Cid), nil)
					return
				}
			}
			r.Outcome("receiver-republications-ok")
		}()
	}
}

// receiverHeldAnnouncements: what a receiver hands to its consumer is the
// consumer's: an announcement taken with Next reads the same after the
// receiver has handled further announcements. Receivers with address
// filtering off and on (public addresses only, so that nothing is removed),
// bursts of 2..4 direct announcements with address lists of differing and of
// equal lengths.
func receiverHeldAnnouncements(r *vp.Recorder, pub *fixture.Identity) {
	for _, filter := range []bool{false, true} {
		for burst := 2; burst <= 4; burst++ {
			for _, shape := range []string{"longer-first", "shorter-first", "equal"} {
				key := fmt.Sprintf("receiver-held-announcements|filter-ips=%v|burst%d|%s", filter, burst, shape)
				if !r.Mine(key) {
					continue
				}
				r.Eval(key, true)
				rc, err := announce.NewReceiver(nil, "", announce.WithFilterIPs(filter), announce.WithAllowPeer(func(peer.ID) bool { return true }))
				if err != nil {
					r.Violation("receiver-held:new-error", key, err.Error(), nil)
					continue
				}
				ctx, cancel := context.WithTimeout(context.Background(), 20*time.Second)
				all := cids()
				var held []announce.Announce
				var want [][]string
				ok := true
				for i := 0; i < burst && ok; i++ {
					n := 2
					switch shape {
					case "longer-first":
						n = burst - i
					case "shorter-first":
						n = i + 1
					}
					var addrs []multiaddr.Multiaddr
					var ws []string
					for j := 0; j < n; j++ {
						a := multiaddr.StringCast(fmt.Sprintf("/ip4/8.8.%d.%d/tcp/%d/http", i+1, j+1, 3000+i))
						addrs = append(addrs, a)
						ws = append(ws, a.String())
					}
					if err := rc.Direct(ctx, all[(i+1)%len(all)], peer.AddrInfo{ID: pub.ID, Addrs: addrs}); err != nil {
						r.Violation("receiver-held:direct-error", key, err.Error(), nil)
						ok = false
						break
					}
					a, err := rc.Next(ctx)
					if err != nil {
						r.Violation("receiver-held:next-error", key, err.Error(), nil)
						ok = false
						break
					}
					held = append(held, a)
					want = append(want, ws)
				}
				cancel()
				rc.Close()
				if !ok {
					continue
				}
				bad := false
				for i, a := range held {
					var got []string
					for _, m := range a.Addrs {
						got = append(got, m.String())
					}
					if fmt.Sprint(got) != fmt.Sprint(want[i]) || !a.Cid.Equals(all[(i+1)%len(all)]) {
						r.Violation("receiver-held:announcement-changed-after-later-ones-were-handled", key, fmt.Sprintf("announcement %d of %d (address filtering %v), read after all had been handled: addresses %v, announced %v", i, burst, filter, got, want[i]), nil)
						bad = true
						break
					}
				}
				if !bad {
					r.Outcome("receiver-held-ok")
				}
			}
		}
	}
}

// ownTopicSender: the pubsub sender that makes its own topic from a host and a
// topic name (p2psender.New(host, name, ...)), with and without extra data of
// its own, read by a second host that joined the same topic. The two hosts
// talk over loopback TCP; until the sender's pubsub has learnt of the reader's
// subscription nothing is delivered, so announcements of distinct CIDs are sent
// until the first one arrives (no verdict when none does within the limit); the
// verdict is about the content of what arrives, never about when.
func ownTopicSender(r *vp.Recorder, pub *fixture.Identity, c cid.Cid) {
	const topicName = "/indexer/ingest/verif-own"
	for _, senderExtra := range []string{"", "sx"} {
		for _, msgExtra := range []string{"", "mx"} {
			key := fmt.Sprintf("p2psend|own-topic|sender-extra=%q|message-extra=%q", senderExtra, msgExtra)
			if !r.Mine(key) {
				continue
			}
			r.Eval(key, senderExtra != "" || msgExtra != "")
			func() {
				hs, err := libp2p.New(libp2p.ListenAddrStrings("/ip4/127.0.0.1/tcp/0"), libp2p.Identity(pub.Priv))
				if err != nil {
					r.Note("own-topic: sender host unavailable: %v", err)
					return
				}
				defer hs.Close()
				hr, err := libp2p.New(libp2p.ListenAddrStrings("/ip4/127.0.0.1/tcp/0"))
				if err != nil {
					r.Note("own-topic: reader host unavailable: %v", err)
					return
				}
				defer hr.Close()
				var sopts []p2psender.Option
				if senderExtra != "" {
					sopts = append(sopts, p2psender.WithExtraData([]byte(senderExtra)))
				}
				sender, err := p2psender.New(hs, topicName, sopts...)
				if err != nil {
					r.Violation("p2psender:own-topic:new-error", key, err.Error(), nil)
					return
				}
				defer sender.Close()
				ctx, cancel := context.WithTimeout(context.Background(), 40*time.Second)
				defer cancel()
				ps, err := pubsub.NewGossipSub(ctx, hr)
				if err != nil {
					r.Note("own-topic: gossipsub unavailable: %v", err)
					return
				}
				topic, err := ps.Join(topicName)
				if err != nil {
					r.Note("own-topic: join: %v", err)
					return
				}
				sub, err := topic.Subscribe()
				if err != nil {
					r.Note("own-topic: subscribe: %v", err)
					return
				}
				if err := hr.Connect(ctx, peer.AddrInfo{ID: hs.ID(), Addrs: hs.Addrs()}); err != nil {
					r.Note("own-topic: the two hosts cannot connect: %v", err)
					return
				}
				sent := map[string]message.Message{}
				all := cids()
				for attempt := 0; attempt < 150; attempt++ {
					msg := message.Message{Cid: all[attempt%len(all)], OrigPeer: pub.ID.String(), Addrs: [][]byte{multiaddr.StringCast(fmt.Sprintf("/ip4/10.0.%d.%d/tcp/9", attempt/250, attempt%250+1)).Bytes()}}
					if msgExtra != "" {
						msg.ExtraData = []byte(msgExtra)
					}
					if err := sender.Send(ctx, msg); err != nil {
						r.Violation("p2psender:own-topic:send-error", key, err.Error(), nil)
						return
					}
					sent[string(msg.Addrs[0])] = msg
					rctx, rcancel := context.WithTimeout(ctx, 200*time.Millisecond)
					pm, err := sub.Next(rctx)
					rcancel()
					if err != nil {
						continue
					}
					var got message.Message
					if err := got.UnmarshalCBOR(bytes.NewReader(pm.Data)); err != nil {
						r.Violation("p2psender:own-topic:receiver-cannot-decode", key, err.Error(), nil)
						return
					}
					if len(got.Addrs) != 1 {
						r.Violation("p2psender:own-topic:wire-differs:addrs", key, fmt.Sprintf("%d addresses decoded, 1 sent", len(got.Addrs)), nil)
						return
					}
					want, ok := sent[string(got.Addrs[0])]
					if !ok {
						r.Violation("p2psender:own-topic:wire-differs:addrs", key, "the decoded address is none that was sent", nil)
						return
					}
					// the sender's own extra data, when it has any, is what goes out
					if senderExtra != "" {
						want.ExtraData = []byte(senderExtra)
					}
					if ok, why := msgEqual(&want, &got); !ok {
						r.Violation("p2psender:own-topic:wire-differs:"+why, key, fmt.Sprintf("sender made by New(host, topic name) with extra data %q, message with extra data %q: the reader on the topic decoded extra data %q (difference in %s)", senderExtra, msgExtra, got.ExtraData, why), nil)
						return
					}
					r.Outcome("p2psend-own-topic-ok")
					r.Count("own_topic_attempts_until_first_delivery", int64(attempt+1))
					return
				}
				r.Note("own-topic: nothing was delivered to the reader within the limit for %s; no verdict", key)
				r.Outcome("p2psend-own-topic-no-delivery")
			}()
		}
	}
}
