// Package syncfx is the shared fixture for the properties about the sync
// path: real signed advertisement chains in a publisher store, the real
// ipnisync.Publisher behind an in-memory HTTP server that logs requests and
// injects scripted faults, and a real dagsync.Subscriber with a logging
// destination store and block hook.
package syncfx

import (
	"bytes"
	"context"
	"errors"
	"fmt"
	"io"
	"net/http"
	"net/http/httptest"
	"net/url"
	"strings"
	"sync"
	"sync/atomic"
	"testing"
	"testing/synctest"
	"time"

	"github.com/ipfs/go-cid"
	"github.com/ipld/go-ipld-prime"
	"github.com/ipld/go-ipld-prime/codec/dagjson"
	"github.com/ipld/go-ipld-prime/fluent"
	cidlink "github.com/ipld/go-ipld-prime/linking/cid"
	"github.com/ipld/go-ipld-prime/node/basicnode"
	"github.com/ipni/go-libipni/dagsync"
	"github.com/ipni/go-libipni/dagsync/ipnisync"
	"github.com/ipni/go-libipni/ingest/schema"
	"github.com/libp2p/go-libp2p/core/host"
	"github.com/libp2p/go-libp2p/core/network"
	"github.com/libp2p/go-libp2p/core/peer"
	"github.com/multiformats/go-multiaddr"
	"github.com/multiformats/go-multihash"

	"verifharness/fixture"
	"verifharness/memnet"
)

// ---------------------------------------------------------------- store

// Store is an in-memory block store that logs writes.
type Store struct {
	mu     sync.Mutex
	m      map[string][]byte
	Writes []cid.Cid
	// Gate, when set, is called before every write commit and read.
	OnWrite func(c cid.Cid)
}

func NewStore() *Store { return &Store{m: map[string][]byte{}} }

func (s *Store) Get(c cid.Cid) ([]byte, bool) {
	s.mu.Lock()
	defer s.mu.Unlock()
	b, ok := s.m[c.KeyString()]
	return b, ok
}

func (s *Store) Put(c cid.Cid, b []byte) {
	s.mu.Lock()
	s.m[c.KeyString()] = b
	s.Writes = append(s.Writes, c)
	s.mu.Unlock()
}

func (s *Store) Delete(c cid.Cid) {
	s.mu.Lock()
	delete(s.m, c.KeyString())
	s.mu.Unlock()
}

func (s *Store) Has(c cid.Cid) bool { _, ok := s.Get(c); return ok }

// Keys returns the CIDs stored.
func (s *Store) Keys() []cid.Cid {
	s.mu.Lock()
	defer s.mu.Unlock()
	var out []cid.Cid
	for k := range s.m {
		c, err := cid.Cast([]byte(k))
		if err != nil {
			panic(err)
		}
		out = append(out, c)
	}
	return out
}

// WriteCount returns how many commits happened.
func (s *Store) WriteCount() int {
	s.mu.Lock()
	defer s.mu.Unlock()
	return len(s.Writes)
}

// Audit returns the CIDs whose stored bytes do not hash to the key.
func (s *Store) Audit() []cid.Cid {
	s.mu.Lock()
	defer s.mu.Unlock()
	var bad []cid.Cid
	for k, v := range s.m {
		c, err := cid.Cast([]byte(k))
		if err != nil {
			panic(err)
		}
		if !Verifies(c, v) {
			bad = append(bad, c)
		}
	}
	return bad
}

// Verifies reports whether data hashes, with the CID's own multihash code and
// length, to the CID's digest.
func Verifies(c cid.Cid, data []byte) bool {
	p := c.Prefix()
	sum, err := multihash.Sum(data, p.MhType, p.MhLength)
	if err != nil {
		return false
	}
	return bytes.Equal(sum, c.Hash())
}

// LinkSystem returns a link system over the store.
func (s *Store) LinkSystem() ipld.LinkSystem {
	lsys := cidlink.DefaultLinkSystem()
	lsys.StorageReadOpener = func(_ ipld.LinkContext, l ipld.Link) (io.Reader, error) {
		c := l.(cidlink.Link).Cid
		b, ok := s.Get(c)
		if !ok {
			return nil, ipld.ErrNotExists{}
		}
		return bytes.NewReader(b), nil
	}
	lsys.StorageWriteOpener = func(_ ipld.LinkContext) (io.Writer, ipld.BlockWriteCommitter, error) {
		var buf bytes.Buffer
		return &buf, func(l ipld.Link) error {
			c := l.(cidlink.Link).Cid
			if s.OnWrite != nil {
				s.OnWrite(c)
			}
			s.Put(c, append([]byte(nil), buf.Bytes()...))
			return nil
		}, nil
	}
	return lsys
}

// ---------------------------------------------------------------- chains

// Chain is a linked list of blocks; Cids[0] is the oldest (no link back),
// Cids[len-1] the head.
type Chain struct {
	Cids []cid.Cid
}

func (c *Chain) Head() cid.Cid { return c.Cids[len(c.Cids)-1] }

// Index returns the position of a CID in the chain or -1.
func (c *Chain) Index(x cid.Cid) int {
	for i, k := range c.Cids {
		if k.Equals(x) {
			return i
		}
	}
	return -1
}

// DefaultProto is the link prototype of the ingestion protocol.
var DefaultProto = schema.Linkproto

// Proto returns a dag-json CIDv1 link prototype with the given multihash.
func Proto(mhType uint64, mhLen int) cidlink.LinkPrototype {
	return cidlink.LinkPrototype{Prefix: cid.Prefix{Version: 1, Codec: cid.DagJSON, MhType: mhType, MhLength: mhLen}}
}

// BuildAdChain stores n real signed advertisements linked by PreviousID.
// label makes chains of different publishers / runs distinct.
func BuildAdChain(st *Store, id *fixture.Identity, n int, lp cidlink.LinkPrototype, label string) *Chain {
	lsys := st.LinkSystem()
	ch := &Chain{}
	var prev ipld.Link
	for i := 0; i < n; i++ {
		ad := schema.Advertisement{
			Provider:  id.ID.String(),
			Addresses: []string{"/ip4/127.0.0.1/tcp/9999"},
			Entries:   schema.NoEntries,
			ContextID: []byte(fmt.Sprintf("%s-ctx-%d", label, i)),
			Metadata:  []byte{0x80, 0x12},
		}
		if prev != nil {
			ad.PreviousID = prev
		}
		if err := ad.Sign(id.Priv); err != nil {
			panic(err)
		}
		node, err := ad.ToNode()
		if err != nil {
			panic(err)
		}
		l, err := lsys.Store(ipld.LinkContext{}, lp, node)
		if err != nil {
			panic(err)
		}
		prev = l
		ch.Cids = append(ch.Cids, l.(cidlink.Link).Cid)
	}
	return ch
}

// BuildEntryChain stores n real entry chunks linked by Next; Cids[n-1] is the
// first chunk (the one an advertisement would link to).
func BuildEntryChain(st *Store, n int, lp cidlink.LinkPrototype, label string) *Chain {
	lsys := st.LinkSystem()
	ch := &Chain{}
	var next ipld.Link
	for i := 0; i < n; i++ {
		ec := schema.EntryChunk{Entries: []multihash.Multihash{fixture.Mh(fmt.Sprintf("%s-mh-%d-a", label, i), multihash.SHA2_256, -1), fixture.Mh(fmt.Sprintf("%s-mh-%d-b", label, i), multihash.SHA2_256, -1)}}
		if next != nil {
			ec.Next = next
		}
		node, err := ec.ToNode()
		if err != nil {
			panic(err)
		}
		l, err := lsys.Store(ipld.LinkContext{}, lp, node)
		if err != nil {
			panic(err)
		}
		next = l
		ch.Cids = append(ch.Cids, l.(cidlink.Link).Cid)
	}
	return ch
}

// BuildMapChain stores n generic map blocks {"Next": link, "Val": i} (for
// link prototypes / selectors that real advertisements cannot exercise).
func BuildMapChain(st *Store, n int, lp cidlink.LinkPrototype, label string) *Chain {
	lsys := st.LinkSystem()
	ch := &Chain{}
	var next ipld.Link
	for i := 0; i < n; i++ {
		node := fluent.MustBuildMap(basicnode.Prototype.Map, 2, func(na fluent.MapAssembler) {
			if next != nil {
				na.AssembleEntry("Next").AssignLink(next)
			}
			na.AssembleEntry("Val").AssignString(fmt.Sprintf("%s-%d", label, i))
		})
		l, err := lsys.Store(ipld.LinkContext{}, lp, node)
		if err != nil {
			panic(err)
		}
		next = l
		ch.Cids = append(ch.Cids, l.(cidlink.Link).Cid)
	}
	return ch
}

// BuildMapTree stores a DAG with fan-out: a spine of n generic map blocks
// {"A": leaf, "Next": older spine block, "Val": ..., "Z": leaf}. A selector
// that explores all links of a node (the subscriber's non-strict one) loads,
// for every spine block, a link before and a link after the link to the rest
// of the spine, so every block has links that are loaded after it. Cids holds,
// per spine position i, the blocks [leafA_i, leafZ_i, spine_i]; the head is
// the last spine block.
func BuildMapTree(st *Store, n int, lp cidlink.LinkPrototype, label string) *Chain {
	lsys := st.LinkSystem()
	ch := &Chain{}
	store := func(node ipld.Node) ipld.Link {
		l, err := lsys.Store(ipld.LinkContext{}, lp, node)
		if err != nil {
			panic(err)
		}
		ch.Cids = append(ch.Cids, l.(cidlink.Link).Cid)
		return l
	}
	leaf := func(name string, i int) ipld.Link {
		return store(fluent.MustBuildMap(basicnode.Prototype.Map, 1, func(na fluent.MapAssembler) {
			na.AssembleEntry("Val").AssignString(fmt.Sprintf("%s-leaf-%s-%d", label, name, i))
		}))
	}
	var next ipld.Link
	for i := 0; i < n; i++ {
		a, z := leaf("a", i), leaf("z", i)
		next = store(fluent.MustBuildMap(basicnode.Prototype.Map, 4, func(na fluent.MapAssembler) {
			na.AssembleEntry("A").AssignLink(a)
			if next != nil {
				na.AssembleEntry("Next").AssignLink(next)
			}
			na.AssembleEntry("Val").AssignString(fmt.Sprintf("%s-%d", label, i))
			na.AssembleEntry("Z").AssignLink(z)
		}))
	}
	return ch
}

// BuildPaddedMapChain is BuildMapChain with every block padded (a longer
// "Val" string) to exactly size bytes of DAG-JSON.
func BuildPaddedMapChain(st *Store, n int, lp cidlink.LinkPrototype, label string, size int) *Chain {
	lsys := st.LinkSystem()
	ch := &Chain{}
	var next ipld.Link
	for i := 0; i < n; i++ {
		mk := func(pad int) ipld.Node {
			return fluent.MustBuildMap(basicnode.Prototype.Map, 2, func(na fluent.MapAssembler) {
				if next != nil {
					na.AssembleEntry("Next").AssignLink(next)
				}
				na.AssembleEntry("Val").AssignString(fmt.Sprintf("%s-%d-", label, i) + strings.Repeat("p", pad))
			})
		}
		var buf bytes.Buffer
		if err := dagjson.Encode(mk(0), &buf); err != nil {
			panic(err)
		}
		if buf.Len() > size {
			panic(fmt.Sprintf("block needs %d bytes, asked for %d", buf.Len(), size))
		}
		l, err := lsys.Store(ipld.LinkContext{}, lp, mk(size-buf.Len()))
		if err != nil {
			panic(err)
		}
		c := l.(cidlink.Link).Cid
		if data, _ := st.Get(c); len(data) != size {
			panic(fmt.Sprintf("padded block has %d bytes, want %d", len(data), size))
		}
		next = l
		ch.Cids = append(ch.Cids, c)
	}
	return ch
}

// LinkOf returns the chain link (PreviousID or Next) of a stored dag-json
// block, or cid.Undef.
func LinkOf(data []byte) cid.Cid {
	nb := basicnode.Prototype.Any.NewBuilder()
	if err := dagjson.Decode(nb, bytes.NewReader(data)); err != nil {
		return cid.Undef
	}
	n := nb.Build()
	for _, f := range []string{"PreviousID", "Next"} {
		v, err := n.LookupByString(f)
		if err != nil {
			continue
		}
		l, err := v.AsLink()
		if err != nil {
			continue
		}
		return l.(cidlink.Link).Cid
	}
	return cid.Undef
}

// ---------------------------------------------------------------- publisher

// Req describes one request that reached a publisher server.
type Req struct {
	Host     string // host the request was sent to
	Seq      int    // arrival order at this publisher
	Kind     string // wk, wk-legacy, head, block, other
	Cid      cid.Cid
	Path     string
	Prefixed bool // request path carries the /ipni/v1/ad prefix
	Mounted  bool // request path carries the publisher's mount prefix
	N        int  // occurrence number of this (kind, cid), from 0
	Status   int
	Fault    string
	Schema   string // value of the CID schema type hint header
}

func (r Req) String() string {
	s := r.Kind
	if r.Kind == "block" {
		s += ":" + r.Cid.String()[len(r.Cid.String())-6:]
	}
	if !r.Prefixed && (r.Kind == "head" || r.Kind == "block") {
		s += "(nopath)"
	}
	s += fmt.Sprintf("#%d=%d", r.N, r.Status)
	if r.Fault != "" {
		s += "!" + r.Fault
	}
	return s
}

// Fault is what the server does instead of answering normally.
type Fault struct {
	Kind string // status, close, short-body, body, declared, declared-stall, mutate, stall, cancel-caller
	// Status for Kind "status"; Body for Kind "body".
	Status int
	Body   []byte
	// Mutate, for Kind "mutate": applied to the genuine body.
	Mutate func([]byte) []byte
	Label  string
}

func (f *Fault) String() string {
	if f == nil {
		return ""
	}
	if f.Label != "" {
		return f.Label
	}
	if f.Kind == "status" {
		return fmt.Sprintf("status%d", f.Status)
	}
	return f.Kind
}

// Pub is a publisher: identity, source store, the real ipnisync.Publisher as
// the handler of an in-memory HTTP server.
type Pub struct {
	W         *World
	Ident     *fixture.Identity
	Host      string
	Src       *Store
	Publisher *ipnisync.Publisher
	// Discovery: serve the libp2p well-known protocol map (the publisher is
	// then used through libp2p-HTTP); otherwise well-known answers 404 and the
	// client falls back to plain HTTP.
	Discovery bool
	// ExtraHosts are further host:port names served by the same handler.
	ExtraHosts []string
	// Mount: URL path prefix (without slashes at the ends) under which the
	// publisher is served; "" = at the root of its host.
	Mount string
	// Script decides the fault for a request (nil = none).
	Script func(r *Req) *Fault
	// Gate, when set, is called for every request before it is answered
	// (scheduling point for the model checker).
	Gate func(r *Req)
	// After, when set, is called when the request has been answered.
	After func(r *Req)

	mu     sync.Mutex
	Log    []Req
	counts map[string]int
	stop   func()
}

// AddHost makes the publisher reachable under a second host name (same
// handler, same log).
func (p *Pub) AddHost(hostport string) {
	stop := p.W.Net.Serve(hostport, p)
	old := p.stop
	p.stop = func() { stop(); old() }
	p.ExtraHosts = append(p.ExtraHosts, hostport)
}

// Addr returns the publisher's HTTP multiaddr.
func (p *Pub) Addr() multiaddr.Multiaddr {
	host := strings.Split(p.Host, ":")
	return multiaddr.StringCast(fmt.Sprintf("/dns4/%s/tcp/%s/http", host[0], host[1]) + p.mountSuffix())
}

func (p *Pub) mountSuffix() string {
	if p.Mount == "" {
		return ""
	}
	return "/http-path/" + url.PathEscape(p.Mount)
}

// AddrInfo returns the peer.AddrInfo a caller would pass to the subscriber.
func (p *Pub) AddrInfo() peer.AddrInfo {
	ai := peer.AddrInfo{ID: p.Ident.ID, Addrs: []multiaddr.Multiaddr{p.Addr()}}
	for _, h := range p.ExtraHosts {
		hp := strings.Split(h, ":")
		ai.Addrs = append(ai.Addrs, multiaddr.StringCast(fmt.Sprintf("/dns4/%s/tcp/%s/http", hp[0], hp[1])+p.mountSuffix()))
	}
	return ai
}

// Requests returns a copy of the request log.
func (p *Pub) Requests() []Req {
	p.mu.Lock()
	defer p.mu.Unlock()
	return append([]Req(nil), p.Log...)
}

// ResetLog clears the request log and occurrence counters.
func (p *Pub) ResetLog() {
	p.mu.Lock()
	p.Log = nil
	p.counts = map[string]int{}
	p.mu.Unlock()
}

const wkBody = `{"/ipni/v1/ad":{"path":"/ipni/v1/ad/"}}`

func (p *Pub) ServeHTTP(w http.ResponseWriter, r *http.Request) {
	var reqDone *Req
	defer func() {
		if p.After != nil && reqDone != nil {
			p.After(reqDone)
		}
	}()
	req := Req{Host: r.Host, Path: r.URL.Path, Schema: r.Header.Get(ipnisync.CidSchemaHeader)}
	pth := r.URL.Path
	switch {
	case pth == "/.well-known/libp2p/protocols":
		req.Kind = "wk"
	case pth == "/.well-known/libp2p":
		req.Kind = "wk-legacy"
	default:
		if p.Mount != "" && strings.HasPrefix(pth, "/"+p.Mount+"/") {
			req.Mounted = true
			pth = strings.TrimPrefix(pth, "/"+p.Mount)
		}
		rest := pth
		if strings.HasPrefix(pth, "/ipni/v1/ad/") {
			req.Prefixed = true
			rest = strings.TrimPrefix(pth, "/ipni/v1/ad")
		}
		name := strings.TrimPrefix(rest, "/")
		if name == "head" {
			req.Kind = "head"
		} else if c, err := cid.Parse(name); err == nil {
			req.Kind = "block"
			req.Cid = c
		} else {
			req.Kind = "other"
		}
	}
	p.mu.Lock()
	ck := req.Kind + "|" + req.Cid.String()
	req.N = p.counts[ck]
	p.counts[ck]++
	req.Seq = len(p.Log)
	p.Log = append(p.Log, req)
	idx := len(p.Log) - 1
	script := p.Script
	gate := p.Gate
	p.mu.Unlock()

	reqDone = &req
	if gate != nil {
		gate(&req)
	}
	var fault *Fault
	if script != nil {
		fault = script(&req)
	}
	// genuine answer
	rec := httptest.NewRecorder()
	switch req.Kind {
	case "wk", "wk-legacy":
		if p.Discovery {
			rec.Header().Set("Content-Type", "application/json")
			rec.WriteString(wkBody)
		} else {
			http.Error(rec, "not found", http.StatusNotFound)
		}
	default:
		p.Publisher.ServeHTTP(rec, r)
	}
	status := rec.Code
	body := rec.Body.Bytes()
	done := func(st int) {
		p.mu.Lock()
		// the log may have been reset while this request was in flight
		if idx < len(p.Log) && p.Log[idx].Seq == req.Seq && p.Log[idx].Path == req.Path {
			p.Log[idx].Status = st
			p.Log[idx].Fault = fault.String()
		}
		p.mu.Unlock()
	}
	if fault == nil {
		done(status)
		copyHeader(w, rec)
		w.WriteHeader(status)
		w.Write(body)
		return
	}
	switch fault.Kind {
	case "status":
		done(fault.Status)
		http.Error(w, "injected fault", fault.Status)
	case "close":
		done(-1)
		hijackClose(w, nil)
	case "short-body":
		done(-2)
		hdr := fmt.Sprintf("HTTP/1.1 200 OK\r\nContent-Length: %d\r\nContent-Type: application/json\r\n\r\n", len(body)+16)
		hijackClose(w, append([]byte(hdr), body...))
	case "body":
		done(200)
		w.WriteHeader(200)
		w.Write(fault.Body)
	case "declared":
		// 200 with a declared Content-Length of fault.Status bytes but only
		// fault.Body sent, then the connection is closed
		done(-5)
		hdr := fmt.Sprintf("HTTP/1.1 200 OK\r\nContent-Length: %d\r\nContent-Type: application/json\r\n\r\n", fault.Status)
		hijackClose(w, append([]byte(hdr), fault.Body...))
	case "reset":
		// 200 with a declared Content-Length of fault.Status bytes, fault.Body
		// sent, and then the connection is reset: the client's read of the
		// body fails with the error a libp2p stream reports when its peer
		// resets it (network.ErrReset), not with an unexpected EOF
		done(-7)
		hdr := fmt.Sprintf("HTTP/1.1 200 OK\r\nContent-Length: %d\r\nContent-Type: application/json\r\n\r\n", fault.Status)
		hj, ok := w.(http.Hijacker)
		if !ok {
			panic("response writer cannot be hijacked")
		}
		conn, _, err := hj.Hijack()
		if err != nil {
			return
		}
		if fr, ok := conn.(interface{ FailPeerReads(error) }); ok {
			fr.FailPeerReads(network.ErrReset)
		} else {
			panic("connection cannot be reset (not a memnet connection)")
		}
		conn.Write(append([]byte(hdr), fault.Body...))
		conn.Close()
	case "declared-stall":
		// 200 with a declared Content-Length of fault.Status bytes, fault.Body
		// sent, and then nothing more: the response stays open until the
		// client gives up (its own time-out, or the caller's context)
		done(-6)
		w.Header().Set("Content-Length", fmt.Sprint(fault.Status))
		w.Header().Set("Content-Type", "application/json")
		w.WriteHeader(200)
		w.Write(fault.Body)
		if f, ok := w.(http.Flusher); ok {
			f.Flush()
		}
		<-r.Context().Done()
	case "mutate":
		done(200)
		w.WriteHeader(200)
		w.Write(fault.Mutate(append([]byte(nil), body...)))
	case "stall":
		done(-3)
		<-r.Context().Done()
	case "cancel-caller":
		done(-4)
		if p.W != nil && p.W.CancelCaller != nil {
			p.W.CancelCaller()
		}
		<-r.Context().Done()
	default:
		panic("unknown fault kind " + fault.Kind)
	}
}

func copyHeader(w http.ResponseWriter, rec *httptest.ResponseRecorder) {
	for k, v := range rec.Header() {
		for _, x := range v {
			w.Header().Add(k, x)
		}
	}
}

func hijackClose(w http.ResponseWriter, data []byte) {
	hj, ok := w.(http.Hijacker)
	if !ok {
		panic("response writer cannot be hijacked")
	}
	conn, _, err := hj.Hijack()
	if err != nil {
		return
	}
	if data != nil {
		conn.Write(data)
	}
	conn.Close()
}

// ---------------------------------------------------------------- world

// HookCall is one block-hook invocation.
type HookCall struct {
	Peer peer.ID
	Cid  cid.Cid
	Tag  string // which hook (general / scoped label)
}

// World wires publishers and one subscriber over an in-memory network.
type World struct {
	Net     *memnet.Net
	Dst     *Store
	Sub     *dagsync.Subscriber
	Pubs    []*Pub
	restore func()

	mu    sync.Mutex
	Hooks []HookCall
	// HookGate is called inside every hook call (scheduling point).
	HookGate func(h HookCall)
	// FailHookAt >= 0 makes the general hook call FailSync at that call index.
	FailHookAt int
	// CancelHookAt >= 0 makes the hook cancel the caller's context (CancelCaller)
	// at that call index and then carry on normally: a cancellation that arrives
	// while no request is in flight.
	CancelHookAt int
	// CancelCaller cancels the context of the sync call in flight.
	CancelCaller func()
	// Host, when set before NewSubscriber, is the libp2p host the subscriber is
	// created with (nil: no host, the HTTP-only configuration).
	Host host.Host
	// FailHookStop: the failing hook call also calls SetNextSyncCid(cid.Undef)
	// after FailSync.
	FailHookStop bool
	// NoNextCid makes the hook not call SetNextSyncCid.
	NoNextCid bool
	// LibHook: the logging hook leaves the choice of the next segment's start
	// to the library's MakeGeneralBlockHook instead of calling SetNextSyncCid
	// itself. Set before the first sync.
	LibHook bool
}

// NewWorld creates the network and installs it as http.DefaultTransport.
func NewWorld() *World {
	w := &World{Net: memnet.New(), Dst: NewStore(), FailHookAt: -1, CancelHookAt: -1}
	w.restore = w.Net.InstallDefault()
	return w
}

// AddPub creates a publisher with its own store and server.
func (w *World) AddPub(id *fixture.Identity, discovery bool, opts ...ipnisync.Option) *Pub {
	p := &Pub{W: w, Ident: id, Host: fmt.Sprintf("pub%d.test:80", len(w.Pubs)), Src: NewStore(), Discovery: discovery, counts: map[string]int{}}
	all := append([]ipnisync.Option{ipnisync.WithStartServer(false), ipnisync.WithHTTPListenAddrs("http://" + p.Host)}, opts...)
	pub, err := ipnisync.NewPublisher(p.Src.LinkSystem(), id.Priv, all...)
	if err != nil {
		panic(err)
	}
	p.Publisher = pub
	p.stop = w.Net.Serve(p.Host, p)
	w.Pubs = append(w.Pubs, p)
	return p
}

// AddMountedPub adds a plain-HTTP publisher (no discovery) that is served
// under a URL path prefix of its host ("http://host/<mount>/ipni/v1/ad/..."),
// as when the Publisher is a handler of somebody else's server; its address
// carries the prefix as an http-path component.
func (w *World) AddMountedPub(id *fixture.Identity, mount string, opts ...ipnisync.Option) *Pub {
	p := w.AddPub(id, false, append([]ipnisync.Option{ipnisync.WithHandlerPath(mount)}, opts...)...)
	p.Mount = strings.Trim(mount, "/")
	return p
}

// Hook returns a block hook that logs the call under tag and, for segmented
// syncs, sets the next CID from the block just stored.
func (w *World) Hook(tag string) dagsync.BlockHookFunc {
	return func(p peer.ID, c cid.Cid, act dagsync.SegmentSyncActions) {
		w.mu.Lock()
		idx := len(w.Hooks)
		h := HookCall{p, c, tag}
		w.Hooks = append(w.Hooks, h)
		fail := w.FailHookAt == idx
		cancelCaller := w.CancelCaller
		if w.CancelHookAt != idx {
			cancelCaller = nil
		}
		gate := w.HookGate
		noNext := w.NoNextCid
		w.mu.Unlock()
		if gate != nil {
			gate(h)
		}
		if cancelCaller != nil {
			cancelCaller()
		}
		if fail && w.LibHook {
			// the failure is the callback's error, signalled by the library's
			// own hook for segmented sync
			dagsync.MakeGeneralBlockHook(func(cid.Cid) (cid.Cid, error) {
				return cid.Undef, errors.New("hook failure injected")
			})(p, c, act)
			return
		}
		if fail {
			act.FailSync(errors.New("hook failure injected"))
			if w.FailHookStop {
				// "fail and stop": the documented way to say that there is no
				// next segment, said after the failure was signalled
				act.SetNextSyncCid(cid.Undef)
			}
			return
		}
		if noNext {
			return
		}
		if w.LibHook {
			// the continuation is decided by the library's own hook for
			// segmented sync, given the same "previous block" function
			dagsync.MakeGeneralBlockHook(func(c cid.Cid) (cid.Cid, error) {
				if data, ok := w.Dst.Get(c); ok {
					return LinkOf(data), nil
				}
				return cid.Undef, nil
			})(p, c, act)
			return
		}
		if data, ok := w.Dst.Get(c); ok {
			act.SetNextSyncCid(LinkOf(data))
		} else {
			act.SetNextSyncCid(cid.Undef)
		}
	}
}

// HookLog returns a copy of the hook calls so far.
func (w *World) HookLog() []HookCall {
	w.mu.Lock()
	defer w.mu.Unlock()
	return append([]HookCall(nil), w.Hooks...)
}

// ResetHooks clears the hook log.
func (w *World) ResetHooks() {
	w.mu.Lock()
	w.Hooks = nil
	w.mu.Unlock()
}

// NewSubscriber creates the subscriber (nil libp2p host) with the logging
// general hook.
func (w *World) NewSubscriber(opts ...dagsync.Option) *dagsync.Subscriber {
	all := append([]dagsync.Option{dagsync.BlockHook(w.Hook("general"))}, opts...)
	var h host.Host // a nil interface, not a typed nil, when there is no host
	if w.Host != nil {
		h = w.Host
	}
	s, err := dagsync.NewSubscriber(h, w.Dst.LinkSystem(), all...)
	if err != nil {
		panic(err)
	}
	w.Sub = s
	return s
}

// CloseHung is set when the subscriber's Close did not return within an hour
// of virtual time during World.Close.
var CloseHung atomic.Int64

// Close shuts everything down. It must never hang: a Subscriber.Close that
// does not return (a goroutine of the library died with a wait-group count
// outstanding, a lock was left held) is counted in CloseHung, and the periodic
// sweeper of the subscriber's own address book is then stopped directly, since
// while a ticker runs in the bubble virtual time never rests and the bubble can
// never end. Call inside a bubble.
func (w *World) Close() {
	if w.Sub != nil {
		done := make(chan struct{})
		go func() {
			defer close(done)
			defer func() { recover() }()
			w.Sub.Close()
		}()
		t := time.NewTimer(time.Hour)
		select {
		case <-done:
			t.Stop()
		case <-t.C:
			CloseHung.Add(1)
			func() {
				defer func() { recover() }()
				if ps := w.Sub.HttpPeerStore(); ps != nil {
					ps.Close()
				}
			}()
		}
	}
	w.CloseRest()
}

// CloseRest shuts down everything but the subscriber (publishers, network).
func (w *World) CloseRest() {
	for _, p := range w.Pubs {
		p.stop()
	}
	w.restore()
}

// Ctx returns a cancellable context registered as the caller's context.
func (w *World) Ctx() (context.Context, context.CancelFunc) {
	ctx, cancel := context.WithCancel(context.Background())
	w.CancelCaller = cancel
	return ctx, cancel
}

// Bubble runs f in a synctest bubble. If the bubble ends with goroutines still
// blocked (a leak), synctest panics on the calling goroutine; the panic text is
// returned instead of taking the test binary down, so that the harness can
// classify it. Any other panic is re-raised.
func Bubble(t *testing.T, f func(t *testing.T)) (leak string) {
	defer func() {
		if e := recover(); e != nil {
			s := fmt.Sprint(e)
			if strings.Contains(s, "blocked goroutines remain") || strings.Contains(s, "deadlock") {
				leak = s
				return
			}
			panic(e)
		}
	}()
	synctest.Test(t, f)
	return ""
}

// Listener wraps an OnSyncFinished registration: Stop cancels it and drains
// the channel until it is closed, so that no queue goroutine is left behind.
type Listener struct {
	C      <-chan dagsync.SyncFinished
	cancel context.CancelFunc
}

// Listen registers a listener on the subscriber.
func (w *World) Listen() *Listener {
	c, cancel := w.Sub.OnSyncFinished()
	return &Listener{C: c, cancel: cancel}
}

// Poll returns the events available now without blocking.
func (l *Listener) Poll() []dagsync.SyncFinished {
	var out []dagsync.SyncFinished
	for {
		select {
		case ev, ok := <-l.C:
			if !ok {
				return out
			}
			out = append(out, ev)
		default:
			return out
		}
	}
}

// Stop cancels the registration and drains the channel until closed.
func (l *Listener) Stop() []dagsync.SyncFinished {
	l.cancel()
	var out []dagsync.SyncFinished
	for ev := range l.C {
		out = append(out, ev)
	}
	return out
}

// StopCheck cancels the registration, waits for quiescence (call inside a
// bubble) and drains without blocking. closed reports whether the channel was
// closed; unlike Stop it cannot hang when the library fails to close it.
func (l *Listener) StopCheck() (events []dagsync.SyncFinished, closed bool) {
	l.cancel()
	for {
		// the queue goroutine behind the channel needs to run after every
		// receive before it can deliver the next event or close the channel
		synctest.Wait()
		select {
		case ev, ok := <-l.C:
			if !ok {
				return events, true
			}
			events = append(events, ev)
		default:
			return events, false
		}
	}
}

// StopCheckNoWait cancels and drains what is available right now without
// waiting for quiescence (for use from scheduled harness threads, which must
// not call synctest.Wait).
func (l *Listener) StopCheckNoWait() (events []dagsync.SyncFinished, closed bool) {
	l.cancel()
	for {
		select {
		case ev, ok := <-l.C:
			if !ok {
				return events, true
			}
			events = append(events, ev)
		default:
			return events, false
		}
	}
}
