// C09: the receiver delivers an announcement iff it is allowed and not
// recently seen. Engine H: every operation sequence up to a depth against a
// reference model (allow predicate, then an LRU set with refresh-on-hit and
// explicit removal), on three layers: the LRU object itself (test-only export
// added by the overlay), the real receiver at its real capacity after a fill
// prefix, and the content of deliveries incl. address filtering.
package c09

import (
	"bytes"
	"context"
	"fmt"
	"net"
	"runtime"
	"strings"
	"sync"
	"testing"
	"testing/synctest"
	"time"

	"github.com/ipfs/go-cid"
	"github.com/ipni/go-libipni/announce"
	"github.com/ipni/go-libipni/announce/message"
	"github.com/ipni/go-libipni/announce/p2psender"
	"github.com/libp2p/go-libp2p"
	pubsub "github.com/libp2p/go-libp2p-pubsub"
	"github.com/libp2p/go-libp2p/core/peer"
	"github.com/multiformats/go-multiaddr"

	"verifharness/fixture"
	"verifharness/vp"
)

// ---- reference model: LRU set
type lruModel struct {
	cap   int
	items []string // front = most recent
}

func (m *lruModel) idx(s string) int {
	for i, x := range m.items {
		if x == s {
			return i
		}
	}
	return -1
}

func (m *lruModel) update(s string) bool {
	if i := m.idx(s); i >= 0 {
		m.items = append(m.items[:i], m.items[i+1:]...)
		m.items = append([]string{s}, m.items...)
		return true
	}
	if len(m.items) == m.cap {
		m.items = m.items[:len(m.items)-1]
	}
	m.items = append([]string{s}, m.items...)
	return false
}

func (m *lruModel) remove(s string) bool {
	if i := m.idx(s); i >= 0 {
		m.items = append(m.items[:i], m.items[i+1:]...)
		return true
	}
	return false
}

// ---- layer 1: the LRU object
func layer1(r *vp.Recorder, depth int) {
	for capacity := 1; capacity <= 3; capacity++ {
		nsym := capacity + 2
		type lop struct {
			kind string
			s    int
		}
		var ops []lop
		for s := 0; s < nsym; s++ {
			ops = append(ops, lop{"update", s}, lop{"remove", s})
		}
		name := func(seq []lop) string {
			var l []string
			for _, o := range seq {
				l = append(l, fmt.Sprintf("%s(%d)", o.kind, o.s))
			}
			return strings.Join(l, ";")
		}
		var rec func(seq []lop)
		rec = func(seq []lop) {
			if len(seq) == depth {
				key := fmt.Sprintf("lru|cap%d|%s", capacity, name(seq))
				if !r.Mine(key) {
					return
				}
				r.Eval(key, true)
				r.Trace(1)
				r.Transition(int64(len(seq)))
				r.State(key)
				impl := announce.VerifNewLRU(capacity)
				m := &lruModel{cap: capacity}
				for i, o := range seq {
					sym := fmt.Sprintf("s%d", o.s)
					var got, want bool
					if o.kind == "update" {
						got, want = impl.Update(sym), m.update(sym)
					} else {
						got, want = impl.Remove(sym), m.remove(sym)
					}
					if got != want || impl.Len() != len(m.items) {
						what := "eviction-or-recency"
						if o.kind == "remove" {
							what = "remove"
						}
						r.Violation("lru:"+what, key, fmt.Sprintf("capacity %d, after %s: %s(%s) returned %v and len %d, model says %v and len %d (model order %v)", capacity, name(seq[:i+1]), o.kind, sym, got, impl.Len(), want, len(m.items), m.items), nil)
						r.Outcome("lru-mismatch")
						return
					}
				}
				r.Outcome("lru-agrees")
				return
			}
			for _, o := range ops {
				rec(append(seq[:len(seq):len(seq)], o))
			}
		}
		rec(nil)
	}
}

// ---- layer 2: the real receiver at its real capacity
var (
	allowed = fixture.Key("ed25519", 0).ID
	denied  = fixture.Key("ed25519", 1).ID
)

// cidN: CID number n. Numbers from variantBase on are the same digest as
// n-variantBase under another codec: a different CID, hence a different entry
// of the duplicate filter.
const variantBase = 1000000

func cidN(n int) cid.Cid {
	if n >= variantBase {
		return cid.NewCidV1(cid.DagCBOR, fixture.Cid(fmt.Sprintf("c09-%d", n-variantBase), cid.DagJSON).Hash())
	}
	return fixture.Cid(fmt.Sprintf("c09-%d", n), cid.DagJSON)
}

// deliver announces and reports whether the consumer got it (and what).
func deliver(rc *announce.Receiver, c cid.Cid, p peer.ID, addrs []multiaddr.Multiaddr) (bool, announce.Announce, error) {
	if err := rc.Direct(context.Background(), c, peer.AddrInfo{ID: p, Addrs: addrs}); err != nil {
		return false, announce.Announce{}, err
	}
	ctx, cancel := context.WithCancel(context.Background())
	defer cancel()
	type res struct {
		a   announce.Announce
		err error
	}
	ch := make(chan res, 1)
	go func() {
		a, err := rc.Next(ctx)
		ch <- res{a, err}
	}()
	synctest.Wait()
	select {
	case x := <-ch:
		return x.err == nil, x.a, x.err
	default:
		cancel()
		<-ch
		return false, announce.Announce{}, nil
	}
}

type rop struct {
	name string
	kind string // announce, uncache
	cid  func(fill []int, fresh *int) int
	peer peer.ID
}

func layer2(t *testing.T, r *vp.Recorder, depth int) {
	size := announce.VerifAnnounceCacheSize
	ops := []rop{
		{name: "announce-oldest", kind: "announce", cid: func(f []int, _ *int) int { return f[0] }, peer: allowed},
		{name: "announce-second-oldest", kind: "announce", cid: func(f []int, _ *int) int { return f[1] }, peer: allowed},
		{name: "announce-newest", kind: "announce", cid: func(f []int, _ *int) int { return f[len(f)-1] }, peer: allowed},
		{name: "announce-fresh", kind: "announce", cid: func(_ []int, n *int) int { *n++; return *n }, peer: allowed},
		{name: "announce-fresh-denied", kind: "announce", cid: func(_ []int, n *int) int { *n++; return *n }, peer: denied},
		{name: "announce-oldest-denied", kind: "announce", cid: func(f []int, _ *int) int { return f[0] }, peer: denied},
		{name: "uncache-oldest", kind: "uncache", cid: func(f []int, _ *int) int { return f[0] }},
		{name: "uncache-newest", kind: "uncache", cid: func(f []int, _ *int) int { return f[len(f)-1] }},
		{name: "announce-evicted", kind: "announce", cid: func(_ []int, _ *int) int { return -1 }, peer: allowed},
		// the same digest as a cached CID under another codec: a CID never seen
		{name: "announce-other-codec-variant-of-newest", kind: "announce", cid: func(f []int, _ *int) int {
			if v := f[len(f)-1]; v < variantBase {
				return v + variantBase
			} else {
				return v - variantBase
			}
		}, peer: allowed},
		{name: "announce-other-codec-variant-of-oldest", kind: "announce", cid: func(f []int, _ *int) int {
			if v := f[0]; v < variantBase {
				return v + variantBase
			} else {
				return v - variantBase
			}
		}, peer: allowed},
		{name: "uncache-other-codec-variant-of-newest", kind: "uncache", cid: func(f []int, _ *int) int {
			if v := f[len(f)-1]; v < variantBase {
				return v + variantBase
			} else {
				return v - variantBase
			}
		}},
		// the CID that entered the cache last (not the one used last: duplicates
		// of other CIDs may have been refreshed since)
		{name: "announce-last-added", kind: "announce", cid: func(_ []int, _ *int) int { return -2 }, peer: allowed},
		// macro step: capacity-1 fresh CIDs in a row, so that a short sequence
		// reaches across the whole cache
		{name: "burst-of-capacity-1-fresh", kind: "burst", peer: allowed},
	}
	if depth >= 4 {
		ops = append(ops, rop{name: "burst-of-capacity-2-fresh", kind: "burst2", peer: allowed})
	}
	prefixes := []string{"plain", "refreshed-in-the-middle", "uncached-and-reannounced"}
	var rec func(seq []int)
	rec = func(seq []int) {
		if len(seq) > 0 {
			for _, pv := range prefixes {
				var names []string
				for _, i := range seq {
					names = append(names, ops[i].name)
				}
				key := fmt.Sprintf("recv|%s|%s", pv, strings.Join(names, ";"))
				if !r.Mine(key) {
					continue
				}
				r.Eval(key, true)
				r.Trace(1)
				r.Transition(int64(size + len(seq)))
				r.State(key)
				var bad string
				func() {
					defer func() {
						if e := recover(); e != nil {
							if s := fmt.Sprint(e); strings.Contains(s, "blocked goroutines remain") || strings.Contains(s, "deadlock") {
								bad = "goroutine left blocked: " + s
								return
							}
							panic(e)
						}
					}()
					synctest.Test(t, func(t *testing.T) {
						rc, err := announce.NewReceiver(nil, "", announce.WithAllowPeer(func(p peer.ID) bool { return p != denied }))
						if err != nil {
							panic(err)
						}
						defer rc.Close()
						m := &lruModel{cap: size}
						step := func(what string, c int, p peer.ID) bool {
							want := p != denied && !m.update(fmt.Sprint(c))
							got, a, derr := deliver(rc, cidN(c), p, nil)
							if derr != nil {
								bad = fmt.Sprintf("%s: error %v", what, derr)
								return false
							}
							if got != want {
								bad = fmt.Sprintf("%s of cid#%d from %s peer: delivered=%v, model says %v (cache order, most recent first, head: %v)", what, c, map[bool]string{true: "an allowed", false: "a denied"}[p != denied], got, want, head(m.items))
								return false
							}
							if got && (!a.Cid.Equals(cidN(c)) || a.PeerID != p) {
								bad = fmt.Sprintf("%s: delivered announcement carries cid/peer %s/%s, announced %s/%s", what, a.Cid, a.PeerID, cidN(c), p)
								return false
							}
							return true
						}
						// fill prefix: exactly the cache size of distinct CIDs
						var fill []int
						for i := 0; i < size; i++ {
							fill = append(fill, i)
							if !step("fill", i, allowed) {
								return
							}
						}
						switch pv {
						case "refreshed-in-the-middle":
							if !step("prefix refresh", fill[size/2], allowed) {
								return
							}
							mid := fill[size/2]
							fill = append(append(append([]int{}, fill[:size/2]...), fill[size/2+1:]...), mid)
						case "uncached-and-reannounced":
							rc.UncacheCid(cidN(fill[3]))
							m.remove(fmt.Sprint(fill[3]))
							if !step("prefix re-announce", fill[3], allowed) {
								return
							}
							x := fill[3]
							fill = append(append(append([]int{}, fill[:3]...), fill[4:]...), x)
						}
						fresh := 1000
						evicted := -1
						lastAdded := fill[len(fill)-1]
						if pv == "plain" {
							lastAdded = size - 1
						} else if pv == "refreshed-in-the-middle" {
							lastAdded = size - 1 // the refresh added nothing
						}
						for k, oi := range seq {
							o := ops[oi]
							// fill tracks the model's order, oldest first
							order := make([]int, 0, len(m.items))
							for i := len(m.items) - 1; i >= 0; i-- {
								var v int
								fmt.Sscan(m.items[i], &v)
								order = append(order, v)
							}
							if len(order) < 2 {
								return
							}
							if o.kind == "burst" || o.kind == "burst2" {
								n := size - 1
								if o.kind == "burst2" {
									n = size - 2
								}
								for j := 0; j < n; j++ {
									fresh++
									if !step(fmt.Sprintf("step %d %s #%d", k, o.name, j), fresh, o.peer) {
										return
									}
									lastAdded = fresh
								}
								continue
							}
							c := o.cid(order, &fresh)
							if c == -2 {
								c = lastAdded
							}
							if c == -1 {
								c = evicted
								if c == -1 {
									c = 5000 + k // nothing evicted yet: just a fresh one
								}
							}
							before := order[0]
							switch o.kind {
							case "uncache":
								rc.UncacheCid(cidN(c))
								m.remove(fmt.Sprint(c))
							default:
								lenBefore := len(m.items)
								wasCached := m.idx(fmt.Sprint(c)) >= 0
								if !step(fmt.Sprintf("step %d %s", k, o.name), c, o.peer) {
									return
								}
								if o.peer != denied && !wasCached {
									lastAdded = c
								}
								if len(m.items) == lenBefore && lenBefore == size && m.idx(fmt.Sprint(before)) < 0 {
									evicted = before
								}
							}
						}
					})
				}()
				if bad != "" {
					cls := "wrong-delivery"
					switch {
					case strings.Contains(bad, "denied"):
						cls = "denied-peer"
					case strings.Contains(bad, "fill"):
						cls = "fill"
					case strings.Contains(bad, "carries"):
						cls = "content"
					}
					r.Violation("receiver:"+cls, key, fmt.Sprintf("prefix %s, sequence [%s]: %s", pv, strings.Join(names, "; "), bad), nil)
					r.Outcome("receiver-mismatch")
				} else {
					r.Outcome("receiver-agrees")
					if len(seq) == depth {
						r.Sample(map[string]any{"prefix": pv, "sequence": names})
					}
				}
			}
		}
		if len(seq) == depth {
			return
		}
		for i := range ops {
			rec(append(seq[:len(seq):len(seq)], i))
		}
	}
	rec(nil)
}

func head(l []string) []string {
	if len(l) > 4 {
		return append(append([]string{}, l[:2]...), "...", l[len(l)-2], l[len(l)-1])
	}
	return l
}

// ---- layer 3: address filtering of deliveries
type addrSym struct {
	s   string
	bad bool // loopback, private, unspecified or localhost
}

var addrAlphabet = []addrSym{
	{"/ip4/8.8.8.8/tcp/80/http", false},
	{"/ip6/2607:f8b0:4005:80a::200e/tcp/443/https", false},
	{"/dns4/ads.example.com/tcp/443/https", false},
	{"/ip4/10.1.2.3/tcp/80", true},
	{"/ip4/172.16.9.9/tcp/80", true},
	{"/ip4/192.168.0.5/tcp/80/http", true},
	{"/ip4/127.0.0.1/tcp/80", true},
	{"/ip6/::1/tcp/80", true},
	{"/ip4/0.0.0.0/tcp/80", true},
	{"/ip6/::/tcp/80", true},
	{"/ip6/fd12::1/tcp/80", true},
	{"/dns/localhost/tcp/80/http", true},
	// the IP address followed by something other than tcp (what makes an
	// address private is its IP component alone)
	{"/ip4/127.0.0.1", true},
	{"/ip4/10.0.0.7/udp/4001/quic-v1", true},
	{"/ip4/192.168.1.4/http", true},
	{"/ip6/::/tls", true},
	{"/ip4/127.0.0.1/sctp/5000", true},
	{"/ip4/8.8.4.4/udp/4001/quic-v1", false},
	{"/ip4/8.8.4.4/http", false},
}

func layer3(t *testing.T, r *vp.Recorder, maxLen int) {
	for _, a := range addrAlphabet {
		parts := strings.Split(a.s, "/")
		if parts[1] == "ip4" || parts[1] == "ip6" {
			ip := net.ParseIP(parts[2])
			if (ip.IsLoopback() || ip.IsPrivate() || ip.IsUnspecified()) != a.bad {
				panic("alphabet inconsistent with net.IP predicates: " + a.s)
			}
		}
	}
	var lists [][]int
	var gen func(cur []int)
	gen = func(cur []int) {
		lists = append(lists, append([]int(nil), cur...))
		if len(cur) == maxLen {
			return
		}
		for i := range addrAlphabet {
			gen(append(cur, i))
		}
	}
	gen(nil)
	for _, filter := range []bool{true, false} {
		for _, l := range lists {
			key := fmt.Sprintf("addrs|filter=%v|%v", filter, l)
			if !r.Mine(key) {
				continue
			}
			r.Eval(key, len(l) > 0)
			r.Trace(1)
			r.Transition(1)
			r.State(key)
			var in []multiaddr.Multiaddr
			var want []string
			for _, i := range l {
				in = append(in, multiaddr.StringCast(addrAlphabet[i].s))
				if !filter || !addrAlphabet[i].bad {
					want = append(want, addrAlphabet[i].s)
				}
			}
			var got []string
			var derr error
			var delivered bool
			synctest.Test(t, func(t *testing.T) {
				rc, err := announce.NewReceiver(nil, "", announce.WithFilterIPs(filter))
				if err != nil {
					panic(err)
				}
				defer rc.Close()
				var a announce.Announce
				delivered, a, derr = deliver(rc, cidN(1), allowed, in)
				for _, m := range a.Addrs {
					if m != nil {
						got = append(got, m.String())
					}
				}
			})
			if derr != nil || !delivered {
				r.Violation("addresses:not-delivered", key, fmt.Sprintf("announcement with addresses %v was not delivered (%v)", l, derr), nil)
				continue
			}
			if strings.Join(got, " ") != strings.Join(want, " ") {
				sig := "addresses:public-address-dropped-or-changed"
				for _, g := range got {
					for _, a := range addrAlphabet {
						if a.s == g && a.bad && filter {
							sig = "addresses:non-public-address-delivered"
						}
					}
				}
				r.Violation(sig, key, fmt.Sprintf("filter=%v: delivered addresses %v, expected %v", filter, got, want), nil)
				continue
			}
			r.Outcome("addresses-ok")
		}
	}
}

// ---- layer 4: the pubsub path. A single libp2p host without transports and
// a gossipsub topic inside a synctest bubble; messages are published on the
// topic under arbitrary author identities (pubsub.WithSecretKeyAndPeerId).
// Quiescence decides "delivered" and, which no timeout could, "not delivered".
type psym struct {
	name string
	// author / origin: 0 none, else index into idents
	author, origin int
	malformed      bool
	direct         bool // Receiver.Direct with resend on, instead of a pubsub message
	repeatCid      bool // reuse the CID of the previous step
	selfOrigin     bool // republished by the author for an original publisher that is the receiver's own host
}

func layer4(t *testing.T, r *vp.Recorder, depth int) {
	const (
		iSelf = iota
		iF
		iR
		iO
		iDenied
	)
	syms := []psym{
		{name: "plain-from-F", author: iF},
		{name: "republished-by-R-for-O", author: iR, origin: iO},
		{name: "republished-by-R-for-denied", author: iR, origin: iDenied},
		{name: "plain-from-denied", author: iDenied},
		{name: "republished-by-denied-for-O", author: iDenied, origin: iO},
		{name: "own-republication-for-O", author: iSelf, origin: iO},
		{name: "republished-by-R-for-the-receivers-own-host", author: iR, selfOrigin: true},
		{name: "malformed-from-F", author: iF, malformed: true},
		{name: "direct-announce-of-O-with-resend", direct: true, origin: iO},
		{name: "direct-announce-of-the-receivers-own-host-with-resend", direct: true, selfOrigin: true},
		{name: "plain-from-F-same-cid-again", author: iF, repeatCid: true},
		{name: "republished-by-R-for-O-same-cid-again", author: iR, origin: iO, repeatCid: true},
	}
	var rec func(seq []int)
	rec = func(seq []int) {
		if len(seq) > 0 {
			var names []string
			for _, i := range seq {
				names = append(names, syms[i].name)
			}
			key := "pubsub|" + strings.Join(names, ";")
			if r.Mine(key) {
				r.Eval(key, true)
				r.Trace(1)
				r.Transition(int64(len(seq)))
				r.State(key)
				var bad, cls string
				thirdParty := 0
				func() {
					defer func() {
						if e := recover(); e != nil {
							if s := fmt.Sprint(e); strings.Contains(s, "blocked goroutines remain") || strings.Contains(s, "deadlock") {
								// which goroutines remained was judged inside the bubble (only a
								// goroutine with a frame of this library counts); a third-party
								// straggler is noted, not reported
								r.Count("bubbles_ended_with_third_party_goroutines", 1)
								return
							}
							panic(e)
						}
					}()
					synctest.Test(t, func(t *testing.T) {
						idents := []*fixture.Identity{fixture.Key("ed25519", 20), fixture.Key("ed25519", 21), fixture.Key("ed25519", 22), fixture.Key("ed25519", 23), fixture.Key("ed25519", 24)}
						deniedID := idents[iDenied].ID
						h, err := libp2p.New(libp2p.NoListenAddrs, libp2p.Identity(idents[iSelf].Priv))
						if err != nil {
							panic(err)
						}
						psCtx, psCancel := context.WithCancel(context.Background())
						ps, err := pubsub.NewGossipSub(psCtx, h)
						if err != nil {
							panic(err)
						}
						topic, err := ps.Join("/indexer/ingest/c09")
						if err != nil {
							panic(err)
						}
						// a second subscription on the topic: what other receivers of the
						// topic are sent (the republications of direct announcements)
						tap, err := topic.Subscribe()
						if err != nil {
							panic(err)
						}
						tapCtx, tapCancel := context.WithCancel(context.Background())
						var tapMu sync.Mutex
						var tapped []message.Message
						tapDone := make(chan struct{})
						go func() {
							defer close(tapDone)
							for {
								pm, err := tap.Next(tapCtx)
								if err != nil {
									return
								}
								var m message.Message
								if m.UnmarshalCBOR(bytes.NewReader(pm.Data)) == nil {
									tapMu.Lock()
									tapped = append(tapped, m)
									tapMu.Unlock()
								}
							}
						}()
						defer func() { tapCancel(); tap.Cancel(); <-tapDone }()
						rc, err := announce.NewReceiver(h, "", announce.WithTopic(topic), announce.WithResend(true), announce.WithAllowPeer(func(p peer.ID) bool { return p != deniedID }))
						if err != nil {
							panic(err)
						}
						defer func() {
							rc.Close()
							topic.Close()
							psCancel()
							h.Close()
							// gossipsub has background loops that sleep between rounds and
							// see their cancelled context only when they wake: let virtual
							// time pass (instantaneous) so that they can end
							time.Sleep(30 * time.Minute)
							synctest.Wait()
							// what is still there? only a goroutine of this library counts
							buf := make([]byte, 1<<20)
							buf = buf[:runtime.Stack(buf, true)]
							for _, g := range strings.Split(string(buf), "\n\n") {
								if !strings.Contains(g, "synctest bubble") || strings.Contains(g, "c09.layer4") {
									continue
								}
								if strings.Contains(g, "github.com/ipni/go-libipni/") {
									if bad == "" {
										bad, cls = "a goroutine of the library is still running after Receiver.Close: "+strings.SplitN(g, "\n", 2)[0], "library-goroutine-left"
									}
								} else if !strings.Contains(g, "testingSynctestTest") {
									thirdParty++
								}
							}
						}()
						next := func() (bool, announce.Announce) {
							ctx, cancel := context.WithCancel(context.Background())
							defer cancel()
							type res struct {
								a   announce.Announce
								err error
							}
							ch := make(chan res, 1)
							go func() { a, err := rc.Next(ctx); ch <- res{a, err} }()
							synctest.Wait()
							select {
							case x := <-ch:
								return x.err == nil, x.a
							default:
								cancel()
								<-ch
								return false, announce.Announce{}
							}
						}
						seen := map[int]bool{}
						cidNo := 0
						for k, si := range seq {
							sy := syms[si]
							if !sy.repeatCid || cidNo == 0 {
								cidNo++
							}
							c := cidN(7000 + cidNo)
							src := sy.author
							if sy.origin != 0 {
								src = sy.origin
							}
							if sy.selfOrigin {
								src = iSelf
							}
							if sy.direct {
								announced := idents[sy.origin].ID
								if sy.selfOrigin {
									announced = idents[iSelf].ID
								}
								if err := rc.Direct(context.Background(), c, peer.AddrInfo{ID: announced}); err != nil {
									bad, cls = fmt.Sprintf("step %d %s: Direct failed: %v", k, sy.name, err), "direct-error"
									return
								}
								// what went out on the topic for it names the announced
								// publisher as the original one, whoever that is
								synctest.Wait()
								tapMu.Lock()
								var rep *message.Message
								for i := range tapped {
									if tapped[i].Cid.Equals(c) {
										rep = &tapped[i]
									}
								}
								tapMu.Unlock()
								if src != iDenied && !seen[cidNo] && (rep == nil || rep.OrigPeer != announced.String()) {
									bad, cls = fmt.Sprintf("step %d %s: the republication on the topic is %+v, want one naming %s as original publisher", k, sy.name, rep, announced), "republication-not-attributed-to-the-announced-publisher"
									return
								}
							} else {
								var data []byte
								if sy.malformed {
									data = []byte{0x83, 0xff, 0x00}
								} else {
									m := message.Message{Cid: c}
									if sy.origin != 0 {
										m.OrigPeer = idents[sy.origin].ID.String()
									}
									if sy.selfOrigin {
										m.OrigPeer = idents[iSelf].ID.String()
									}
									var buf bytes.Buffer
									if err := m.MarshalCBOR(&buf); err != nil {
										panic(err)
									}
									data = buf.Bytes()
								}
								au := idents[sy.author]
								if err := topic.Publish(context.Background(), data, pubsub.WithSecretKeyAndPeerId(au.Priv, au.ID)); err != nil {
									bad, cls = fmt.Sprintf("step %d %s: publish failed: %v", k, sy.name, err), "harness-publish"
									return
								}
							}
							synctest.Wait()
							ownRepublication := !sy.direct && sy.author == iSelf && sy.origin != 0
							want := !sy.malformed && !ownRepublication && src != iDenied && !seen[cidNo]
							if want || (!sy.malformed && !ownRepublication && src != iDenied) {
								seen[cidNo] = true
							}
							got, a := next()
							if got != want {
								bad = fmt.Sprintf("step %d %s: delivered=%v, expected %v", k, sy.name, got, want)
								switch {
								case ownRepublication:
									cls = "own-republication-delivered"
								case src == iDenied || sy.author == iDenied:
									cls = "allow-filter-not-applied-to-original-peer"
								case sy.direct:
									cls = "direct-with-resend"
								default:
									cls = "wrong-delivery"
								}
								return
							}
							if got && (a.PeerID != idents[src].ID || !a.Cid.Equals(c)) {
								who := "someone else"
								for i, id := range idents {
									if id.ID == a.PeerID {
										who = []string{"self", "F", "R (the relay)", "O", "denied"}[i]
									}
								}
								bad, cls = fmt.Sprintf("step %d %s: delivered announcement is attributed to %s, expected %s", k, sy.name, who, []string{"self", "F", "R", "O", "denied"}[src]), "wrong-attribution"
								return
							}
							// a direct announcement with resend must produce exactly one delivery
							if extra, _ := next(); extra {
								bad, cls = fmt.Sprintf("step %d %s: a second announcement was delivered", k, sy.name), "delivered-twice"
								return
							}
						}
					})
				}()
				if thirdParty > 0 {
					r.Count("third_party_goroutines_left_after_teardown", int64(thirdParty))
				}
				if bad != "" {
					r.Violation("pubsub:"+cls, key, fmt.Sprintf("sequence [%s]: %s", strings.Join(names, "; "), bad), nil)
					r.Outcome("pubsub-mismatch")
				} else {
					r.Outcome("pubsub-agrees")
					if len(seq) == depth {
						r.Sample(map[string]any{"pubsub_sequence": names})
					}
				}
			}
		}
		if len(seq) == depth {
			return
		}
		for i := range syms {
			rec(append(seq[:len(seq):len(seq)], i))
		}
	}
	rec(nil)
}

// layer5: announcements that reach the receiver the way a publisher sends
// them: announce.Send through the library's pubsub sender (and, next to it, a
// second sender, so that one call feeds two) on the receiver's topic. For
// every ordered pair of CIDs over an alphabet in which CIDs share their digest
// and differ in version or codec: Send(a) is delivered with exactly a; Send(a)
// again is a duplicate; Send(b) is delivered with exactly b unless b is a;
// after UncacheCid(a), Send(a) is delivered again.
func layer5(t *testing.T, r *vp.Recorder) {
	mh1 := fixture.Mh("c09-layer5-one", 0x12, -1)
	mh2 := fixture.Mh("c09-layer5-two", 0x12, -1)
	cids := []cid.Cid{cid.NewCidV0(mh1), cid.NewCidV1(cid.DagProtobuf, mh1), cid.NewCidV1(cid.Raw, mh1), cid.NewCidV1(cid.DagJSON, mh1), cid.NewCidV0(mh2), cid.NewCidV1(cid.DagCBOR, mh2)}
	addrs := []multiaddr.Multiaddr{multiaddr.StringCast("/ip4/203.0.113.5/tcp/3104/http")}
	for ai, a := range cids {
		for bi, b := range cids {
			key := fmt.Sprintf("send|%d,%d", ai, bi)
			if !r.Mine(key) {
				continue
			}
			r.Eval(key, true)
			r.Trace(1)
			r.State(key)
			var bad, cls string
			func() {
				defer func() {
					if e := recover(); e != nil {
						if s := fmt.Sprint(e); strings.Contains(s, "blocked goroutines remain") || strings.Contains(s, "deadlock") {
							r.Count("bubbles_ended_with_third_party_goroutines", 1)
							return
						}
						panic(e)
					}
				}()
				synctest.Test(t, func(t *testing.T) {
					self := fixture.Key("ed25519", 20)
					h, err := libp2p.New(libp2p.NoListenAddrs, libp2p.Identity(self.Priv))
					if err != nil {
						panic(err)
					}
					psCtx, psCancel := context.WithCancel(context.Background())
					ps, err := pubsub.NewGossipSub(psCtx, h)
					if err != nil {
						panic(err)
					}
					topic, err := ps.Join("/indexer/ingest/c09-send")
					if err != nil {
						panic(err)
					}
					rc, err := announce.NewReceiver(h, "", announce.WithTopic(topic), announce.WithAllowPeer(func(peer.ID) bool { return true }))
					if err != nil {
						panic(err)
					}
					sender, err := p2psender.New(nil, "", p2psender.WithTopic(topic))
					if err != nil {
						panic(err)
					}
					defer func() {
						// Close on a goroutine of its own: if it blocks, the rest
						// is still shut down, so that the bubble can end (and
						// report the goroutine left behind) instead of spinning
						// on gossipsub's timers
						closed := make(chan struct{})
						go func() { rc.Close(); close(closed) }()
						synctest.Wait()
						select {
						case <-closed:
						default:
							if bad == "" {
								bad, cls = "Receiver.Close blocks at the end of the sequence", "close-blocks"
							}
						}
						sender.Close()
						topic.Close()
						psCancel()
						h.Close()
						time.Sleep(30 * time.Minute)
					}()
					next := func() (bool, announce.Announce) {
						ctx, cancel := context.WithCancel(context.Background())
						defer cancel()
						type res struct {
							a   announce.Announce
							err error
						}
						ch := make(chan res, 1)
						go func() { a, err := rc.Next(ctx); ch <- res{a, err} }()
						synctest.Wait()
						select {
						case x := <-ch:
							return x.err == nil, x.a
						default:
							cancel()
							<-ch
							return false, announce.Announce{}
						}
					}
					step := func(what string, c cid.Cid, want bool) bool {
						// a receiver with a topic can be asked for its name at any
						// time; that changes nothing
						if tn := rc.TopicName(); tn != "/indexer/ingest/c09-send" {
							bad, cls = fmt.Sprintf("%s: TopicName() = %q", what, tn), "topic-name"
							return false
						}
						if err := announce.Send(context.Background(), c, addrs, sender, nil); err != nil {
							bad, cls = fmt.Sprintf("%s: announce.Send(%s) failed: %v", what, c, err), "send-error"
							return false
						}
						synctest.Wait()
						got, an := next()
						switch {
						case got != want:
							bad, cls = fmt.Sprintf("%s: announce.Send(%s): delivered=%v, expected %v", what, c, got, want), "wrong-delivery-of-a-sent-announcement"
						case got && !an.Cid.Equals(c):
							bad, cls = fmt.Sprintf("%s: announce.Send(%s) was delivered as %s", what, c, an.Cid), "sent-cid-changed"
						case got && an.PeerID != self.ID:
							bad, cls = fmt.Sprintf("%s: announce.Send(%s) by %s was delivered as coming from %s", what, c, self.ID, an.PeerID), "wrong-attribution"
						case got && (len(an.Addrs) != 1 || !an.Addrs[0].Equal(addrs[0])):
							bad, cls = fmt.Sprintf("%s: announce.Send(%s) with addresses %v was delivered with %v", what, c, addrs, an.Addrs), "sent-addresses-changed"
						}
						return bad == ""
					}
					if !step("first", a, true) || !step("the same again", a, false) || !step("the second CID", b, !b.Equals(a)) {
						return
					}
					rc.UncacheCid(a)
					step("after UncacheCid of the first", a, true)
				})
			}()
			r.Transition(4)
			if bad != "" {
				r.Outcome("mismatch")
				r.Violation("send:"+cls, key, fmt.Sprintf("CIDs %s then %s: %s", a, b, bad), nil)
			} else {
				r.Outcome("send-agrees")
			}
		}
	}
}

// layer6: "the configured allow filter" is what the receiver's options say,
// applied in the order given: every list of <= 3 options over {a filter that
// rejects peer D, a filter that rejects peer E, a nil filter (documented: allows
// all), address filtering on, address filtering off}. For each receiver: fresh
// CIDs announced by D, by E and by a third peer are delivered exactly when the
// last filter option of the list (none: allow all) lets the peer pass, and with
// private addresses removed exactly when the last address-filtering option says so.
func layer6(t *testing.T, r *vp.Recorder) {
	pD, pE, pF := fixture.Key("ed25519", 41).ID, fixture.Key("ed25519", 42).ID, fixture.Key("ed25519", 43).ID
	type optSym struct {
		name  string
		opt   func() announce.Option
		allow func(peer.ID) bool // nil: not a filter option
		setsF bool               // sets address filtering
		onF   bool
	}
	syms := []optSym{
		{name: "allow(not D)", opt: func() announce.Option { return announce.WithAllowPeer(func(p peer.ID) bool { return p != pD }) }, allow: func(p peer.ID) bool { return p != pD }},
		{name: "allow(not E)", opt: func() announce.Option { return announce.WithAllowPeer(func(p peer.ID) bool { return p != pE }) }, allow: func(p peer.ID) bool { return p != pE }},
		{name: "allow(nil)", opt: func() announce.Option { return announce.WithAllowPeer(nil) }, allow: func(peer.ID) bool { return true }},
		{name: "filter-ips(on)", opt: func() announce.Option { return announce.WithFilterIPs(true) }, setsF: true, onF: true},
		{name: "filter-ips(off)", opt: func() announce.Option { return announce.WithFilterIPs(false) }, setsF: true, onF: false},
	}
	var lists [][]int
	var gen func(cur []int)
	gen = func(cur []int) {
		lists = append(lists, append([]int(nil), cur...))
		if len(cur) == 3 {
			return
		}
		for i := range syms {
			gen(append(cur, i))
		}
	}
	gen(nil)
	pub := multiaddr.StringCast("/ip4/8.8.4.4/tcp/3104/http")
	priv := multiaddr.StringCast("/ip4/10.1.2.3/tcp/3104/http")
	n := 0
	for _, l := range lists {
		var names []string
		for _, i := range l {
			names = append(names, syms[i].name)
		}
		key := "options|" + strings.Join(names, ",")
		if !r.Mine(key) {
			continue
		}
		r.Eval(key, len(l) > 1)
		r.Trace(1)
		r.State(key)
		allow := func(peer.ID) bool { return true }
		filter := false
		var opts []announce.Option
		for _, i := range l {
			opts = append(opts, syms[i].opt())
			if syms[i].allow != nil {
				allow = syms[i].allow
			}
			if syms[i].setsF {
				filter = syms[i].onF
			}
		}
		var bad string
		synctest.Test(t, func(t *testing.T) {
			rc, err := announce.NewReceiver(nil, "", opts...)
			if err != nil {
				bad = "NewReceiver: " + err.Error()
				return
			}
			defer rc.Close()
			for _, p := range []peer.ID{pD, pE, pF, pD} {
				n++
				c := cidN(9000 + n)
				got, a, err := deliver(rc, c, p, []multiaddr.Multiaddr{priv, pub})
				who := map[peer.ID]string{pD: "D", pE: "E", pF: "F"}[p]
				switch {
				case err != nil:
					bad = fmt.Sprintf("Direct from %s: %v", who, err)
				case got != allow(p):
					bad = fmt.Sprintf("options [%s]: a fresh CID announced by peer %s: delivered=%v, the configured filter says %v", strings.Join(names, ", "), who, got, allow(p))
				case got && (a.PeerID != p || !a.Cid.Equals(c)):
					bad = "delivered announcement carries another CID or peer"
				case got && filter && len(a.Addrs) != 1:
					bad = fmt.Sprintf("options [%s]: address filtering is on, delivered addresses %v", strings.Join(names, ", "), a.Addrs)
				case got && !filter && len(a.Addrs) != 2:
					bad = fmt.Sprintf("options [%s]: address filtering is off, delivered addresses %v", strings.Join(names, ", "), a.Addrs)
				}
				if bad != "" {
					return
				}
			}
		})
		r.Transition(4)
		if bad != "" {
			r.Outcome("mismatch")
			r.Violation("options:configured-filter-not-the-one-applied", key, bad, nil)
		} else {
			r.Outcome("options-agree")
		}
	}
}

func TestCheck(t *testing.T) {
	r := vp.New("C09", "model_checking",
		"three layers, all against one reference model (allow predicate, then an LRU set with refresh-on-hit and explicit removal): (1) the LRU object (test-only export) at capacities 1..3 over capacity+2 strings: every sequence of exactly `depth` update/remove operations, return value and length compared after every step; (2) the real receiver (no pubsub) at its real capacity: a fill prefix of exactly capacity distinct CIDs (three variants: plain, one refreshed in the middle, one un-cached and re-announced) followed by every sequence of <= N operations over {announce oldest / second-oldest / newest / a fresh CID / a fresh CID from a denied peer / the oldest CID from a denied peer / the CID evicted last / the CID added last / a burst of capacity-1 fresh CIDs / the same digest as the newest or the oldest under another codec, un-cache oldest / newest / the other-codec variant of the newest}; after each announcement a consumer calls Next and quiescence in a synctest bubble decides delivered / not delivered; (3) every address list of <= M over 19 addresses (public, private ranges, loopback, unspecified, unique-local, localhost; the IP followed by tcp, udp, sctp, tls, http or nothing) with filtering on and off; (4) the pubsub path: every sequence of <= K messages over {plain from F, republished by relay R for origin O, republished for a denied origin, plain from a denied peer, republished by a denied relay for O, own republication, republished by R for an original publisher that is the receiver's own host, malformed payload, direct announcement with resend (of O and of the receiver's own host; the republication is read from a second subscription on the topic and must name the announced publisher), repeats of the previous CID}, delivery / non-delivery and attribution decided by quiescence; (5) announce.Send through the library's pubsub sender on the receiver's topic for every ordered pair of 6 CIDs that share digests across versions and codecs (CIDv0 included): sent, sent again, the second CID, un-cached and sent again; the delivered CID, publisher and addresses are the sent ones; (6) receivers built from every list of <=3 options over {two different allow filters, a nil filter, address filtering on, off}: delivery and address filtering follow the last option of each kind. states = distinct sequences; transitions = operations; traces = sequences executed on the real code.",
		"reference model is the oracle (trusted, 30 lines)",
		"pubsub path (layer 4): one libp2p host without transports and one gossipsub topic inside a synctest bubble; messages are injected on the topic under arbitrary author identities; multi-host gossip is not driven",
		"non-public is judged by net.IP.IsLoopback/IsPrivate/IsUnspecified and the name localhost, independently of go-multiaddr's own classification",
	)
	defer func() {
		if err := r.Finish(); err != nil {
			t.Fatal(err)
		}
	}()
	thorough := vp.Thorough()
	d1, d2, d3, d4 := 6, 3, 2, 2
	if thorough {
		d1, d2, d3, d4 = 7, 4, 3, 3
	}
	r.Bounds(map[string]any{"lru_depth": d1, "receiver_depth": d2, "address_list_length": d3, "pubsub_depth": d4, "receiver_capacity": announce.VerifAnnounceCacheSize})
	layer1(r, d1)
	layer2(t, r, d2)
	layer3(t, r, d3)
	layer4(t, r, d4)
	layer5(t, r)
	layer6(t, r)
	t.Logf("violations: %d", r.Violations())
}
