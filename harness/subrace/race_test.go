// Package subrace is the free-running race-detector pass for the scheduled
// checks of the subscriber and the announce receiver (C08, C14, C15, C16): the
// same kinds of thread bodies as their scenarios (announcement bursts, explicit
// syncs with and without scoped hooks, listener registration and cancellation,
// concurrent Close, the receiver's Direct/Next/UncacheCid/Close) on the
// unmodified, uninstrumented library with real goroutines under
// `go test -race`. It is SAMPLED, not exhaustive: a cooperative scheduler cannot
// see unsynchronised accesses (its hand-offs are happens-before edges, and a
// change that drops a lock also drops the scheduling points), so this pass
// complements, and does not replace, the model-checked part. It has no oracle of
// its own besides the race detector and "no panic"; results of the calls are
// deliberately ignored.
//
// VERIF_RACE_BODIES selects the bodies (comma-separated prefixes); the driver
// passes the ones that belong to the property being checked.
package subrace

import (
	"context"
	"fmt"
	"os"
	"strings"
	"sync"
	"testing"
	"testing/synctest"

	"github.com/ipfs/go-cid"
	"github.com/ipni/go-libipni/announce"
	"github.com/ipni/go-libipni/dagsync"
	"github.com/libp2p/go-libp2p/core/peer"

	"verifharness/fixture"
	"verifharness/syncfx"
)

type world struct {
	*syncfx.World
	chains []*syncfx.Chain
}

func newWorld(pubs, chainLen int, opts ...dagsync.Option) *world {
	w := &world{World: syncfx.NewWorld()}
	for i := 0; i < pubs; i++ {
		id := fixture.Key("ed25519", i)
		p := w.AddPub(id, true)
		w.chains = append(w.chains, syncfx.BuildAdChain(p.Src, id, chainLen, syncfx.DefaultProto, fmt.Sprintf("pub%d", i)))
	}
	opts = append(opts, dagsync.RecvAnnounce("", announce.WithAllowPeer(func(peer.ID) bool { return true })))
	w.NewSubscriber(opts...)
	// Warm-up, as in the scheduled scenarios: one explicit-head sync of the
	// oldest advertisement per publisher, so that the handler and its syncer
	// exist. Without it the bodies provoke the library's cold-start race on
	// handler.syncer (DESIGN.md 13.6: two first syncs of one publisher both
	// create and publish a Syncer without synchronisation), and the detector
	// then also flags every later use of that Syncer against its initialising
	// writes, which would drown everything else.
	for i, p := range w.Pubs {
		if _, err := w.Sub.SyncAdChain(context.Background(), p.AddrInfo(), dagsync.WithHeadAdCid(w.chains[i].Cids[0])); err != nil {
			panic(fmt.Sprintf("warm-up sync failed: %v", err))
		}
	}
	synctest.Wait()
	return w
}

// par runs the bodies as real goroutines and waits for all of them.
func par(fs ...func()) {
	var wg sync.WaitGroup
	for _, f := range fs {
		wg.Add(1)
		go func() {
			defer wg.Done()
			f()
		}()
	}
	wg.Wait()
}

type body struct {
	name string
	run  func(round int)
}

func bodies() []body {
	ctx := context.Background()
	return []body{
		// C08: announcement burst of one publisher || explicit sync || readers of the latest-synced value
		{"C08-burst-vs-explicit", func(round int) {
			w := newWorld(1, 4)
			defer w.Close()
			p, ch := w.Pubs[0], w.chains[0]
			p.Publisher.SetRoot(ch.Cids[3])
			par(
				func() {
					for h := 1; h <= 3; h++ {
						w.Sub.Announce(ctx, ch.Cids[h], p.AddrInfo())
					}
				},
				func() { w.Sub.Announce(ctx, ch.Cids[2], p.AddrInfo()) },
				func() { w.Sub.SyncAdChain(ctx, p.AddrInfo()) },
				func() {
					for i := 0; i < 4; i++ {
						w.Sub.GetLatestSync(p.Ident.ID)
					}
				},
			)
			synctest.Wait()
		}},
		// C08: two explicit syncs of one publisher with different scoped hooks || announcement
		{"C08-scoped-hooks", func(round int) {
			w := newWorld(1, 3)
			defer w.Close()
			p, ch := w.Pubs[0], w.chains[0]
			p.Publisher.SetRoot(ch.Cids[2])
			par(
				func() {
					w.Sub.SyncAdChain(ctx, p.AddrInfo(), dagsync.ScopedBlockHook(w.Hook("scopedX")), dagsync.WithHeadAdCid(ch.Cids[1]))
				},
				func() { w.Sub.SyncAdChain(ctx, p.AddrInfo(), dagsync.ScopedBlockHook(w.Hook("scopedY"))) },
				func() { w.Sub.Announce(ctx, ch.Cids[2], p.AddrInfo()) },
			)
			synctest.Wait()
		}},
		// C08: two publishers synced in parallel, explicitly with scoped hooks and by
		// announcement (the hook slots of all publishers live in one map)
		{"C08-two-publishers-parallel", func(round int) {
			w := newWorld(2, 3)
			defer w.Close()
			for i := range w.Pubs {
				w.Pubs[i].Publisher.SetRoot(w.chains[i].Cids[1])
			}
			par(
				func() { w.Sub.SyncAdChain(ctx, w.Pubs[0].AddrInfo(), dagsync.ScopedBlockHook(w.Hook("scoped0"))) },
				func() { w.Sub.SyncAdChain(ctx, w.Pubs[1].AddrInfo(), dagsync.ScopedBlockHook(w.Hook("scoped1"))) },
				func() { w.Sub.Announce(ctx, w.chains[0].Cids[2], w.Pubs[0].AddrInfo()) },
				func() { w.Sub.Announce(ctx, w.chains[1].Cids[2], w.Pubs[1].AddrInfo()) },
			)
			synctest.Wait()
		}},
		// C08: two publishers, a limit of one announce-triggered sync at a time
		{"C08-two-publishers-limit1", func(round int) {
			w := newWorld(2, 3, dagsync.MaxAsyncConcurrency(1))
			defer w.Close()
			par(
				func() { w.Sub.Announce(ctx, w.chains[0].Cids[2], w.Pubs[0].AddrInfo()) },
				func() { w.Sub.Announce(ctx, w.chains[1].Cids[2], w.Pubs[1].AddrInfo()) },
				func() { w.Sub.Announce(ctx, w.chains[0].Cids[1], w.Pubs[0].AddrInfo()) },
			)
			synctest.Wait()
		}},
		// C14: two publishers synced concurrently || a listener registering and cancelling || a polling reader
		{"C14-listeners", func(round int) {
			w := newWorld(2, 3)
			defer w.Close()
			reader := w.Listen()
			par(
				func() {
					w.Pubs[0].Publisher.SetRoot(w.chains[0].Cids[1])
					w.Sub.SyncAdChain(ctx, w.Pubs[0].AddrInfo())
					w.Pubs[0].Publisher.SetRoot(w.chains[0].Cids[2])
					w.Sub.SyncAdChain(ctx, w.Pubs[0].AddrInfo())
				},
				func() {
					w.Pubs[1].Publisher.SetRoot(w.chains[1].Cids[2])
					w.Sub.SyncAdChain(ctx, w.Pubs[1].AddrInfo())
				},
				func() {
					l := w.Listen()
					l.StopCheckNoWait()
					l2 := w.Listen()
					l2.StopCheckNoWait()
				},
				func() {
					for i := 0; i < 3; i++ {
						reader.Poll()
					}
				},
			)
			synctest.Wait()
			reader.StopCheck()
		}},
		// C14/C15: a sync and an announcement racing with Close, a listener registered beforehand
		{"C15-sync-announce-vs-close", func(round int) {
			w := newWorld(1, 3)
			defer w.Close()
			p, ch := w.Pubs[0], w.chains[0]
			p.Publisher.SetRoot(ch.Cids[1])
			l := w.Listen()
			par(
				func() { w.Sub.SyncAdChain(ctx, p.AddrInfo()) },
				func() { w.Sub.Announce(ctx, ch.Cids[2], p.AddrInfo()) },
				func() { w.Sub.Close() },
				func() { w.Sub.Close() },
				func() { l.StopCheckNoWait() },
			)
			synctest.Wait()
		}},
		// C15: the other entry points racing with Close
		{"C15-api-vs-close", func(round int) {
			w := newWorld(1, 3)
			defer w.Close()
			p, ch := w.Pubs[0], w.chains[0]
			p.Publisher.SetRoot(ch.Cids[2])
			par(
				func() { w.Sub.SyncAdChain(ctx, p.AddrInfo(), dagsync.WithHeadAdCid(ch.Cids[1])) },
				func() { w.Sub.SetLatestSync(p.Ident.ID, ch.Cids[0]) },
				func() { w.Sub.RemoveHandler(p.Ident.ID) },
				func() { w.Sub.GetLatestSync(p.Ident.ID) },
				func() {
					c, cancel := w.Sub.OnSyncFinished()
					cancel()
					for range c {
					}
				},
				func() { w.Sub.Close() },
			)
			synctest.Wait()
		}},
		// C16: the receiver alone
		{"C16-receiver", func(round int) {
			r, err := announce.NewReceiver(nil, "", announce.WithAllowPeer(func(peer.ID) bool { return true }))
			if err != nil {
				panic(err)
			}
			a := fixture.Key("ed25519", 0).ID
			c1, c2 := fixture.Cid("subrace-one", cid.DagJSON), fixture.Cid("subrace-two", cid.DagJSON)
			par(
				func() { r.Direct(ctx, c1, peer.AddrInfo{ID: a}) },
				func() { r.Direct(ctx, c2, peer.AddrInfo{ID: a}) },
				func() { r.Next(ctx) },
				func() { r.Next(ctx) },
				func() { r.UncacheCid(c1); r.Direct(ctx, c1, peer.AddrInfo{ID: a}) },
				func() {
					if round%2 == 0 {
						synctest.Wait()
					}
					r.Close()
					r.Close()
				},
			)
			synctest.Wait()
		}},
	}
}

func TestRaceBodies(t *testing.T) {
	rounds := 6
	if os.Getenv("VERIF_TIER") == "thorough" {
		rounds = 60
	}
	var sel []string
	if v := os.Getenv("VERIF_RACE_BODIES"); v != "" {
		sel = strings.Split(v, ",")
	}
	ran := 0
	for _, b := range bodies() {
		ok := len(sel) == 0
		for _, s := range sel {
			if strings.HasPrefix(b.name, s) {
				ok = true
			}
		}
		if !ok {
			continue
		}
		for round := 0; round < rounds; round++ {
			// one subtest per round: a race report fails (and ends) only that round
			t.Run(fmt.Sprintf("%s/%d", b.name, round), func(t *testing.T) {
				syncfx.Bubble(t, func(t *testing.T) { b.run(round) }) // leaks are the business of the scheduled checks
			})
			ran++
		}
	}
	fmt.Printf("RACE-PASS rounds=%d\n", ran)
}
