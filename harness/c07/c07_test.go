// C07: provider cache reads never wait for writers and see consistent
// snapshots. Stateless model checking of the real ProviderCache built with the
// instrumentation overlay (scheduling points at every atomic load/store/CAS of
// the snapshot pointer, every write-lock channel operation, every spawn) with
// fake sources whose Fetch/FetchAll are gated, so that a writer can be parked
// inside a source call while it holds the write lock. Data races are the
// business of the separate free-running -race pass (package c07race).
package c07

import (
	"bytes"
	"context"
	"encoding/json"
	"fmt"
	"io"
	"net/http"
	"os"
	"sort"
	"strings"
	"sync"
	"testing"
	"time"

	"github.com/ipni/go-libipni/find/model"
	"github.com/ipni/go-libipni/pcache"
	"github.com/ipni/go-libipni/verifshim/vsched"
	"github.com/libp2p/go-libp2p/core/peer"
	"github.com/multiformats/go-multiaddr"

	"verifharness/fixture"
	"verifharness/sched"
	"verifharness/vp"
)

var (
	pP = fixture.Key("ed25519", 0).ID
	pQ = fixture.Key("ed25519", 1).ID
	pU = fixture.Key("ed25519", 2).ID
)

func tstamp(v int) string { return fmt.Sprintf("2024-01-01T00:00:%02dZ", v) }

func verOf(pi *model.ProviderInfo) int {
	if pi == nil {
		return 0
	}
	var v int
	fmt.Sscanf(pi.LastAdvertisementTime, "2024-01-01T00:00:%02dZ", &v)
	return v
}

type source struct {
	mu      sync.Mutex
	e       *sched.Exec
	recs    map[peer.ID]int
	rounds  int
	gated   bool
	fillers int
}

// rec: every record carries extended providers, chain-level and for context
// "ctx", so that result expansion has something to expand: the provider itself,
// providers that are not cached anywhere (and that no source knows), with and
// without addresses of their own. Expanding them is a read of the record; it
// has no business with the sources or the write path.
func (s *source) rec(pid peer.ID, v int) *model.ProviderInfo {
	a := multiaddr.StringCast("/ip4/192.0.2.1/tcp/3104")
	x, y, z := fixture.Key("ed25519", 50).ID, fixture.Key("ed25519", 51).ID, fixture.Key("ed25519", 52).ID
	return &model.ProviderInfo{
		AddrInfo:              peer.AddrInfo{ID: pid, Addrs: []multiaddr.Multiaddr{a}},
		LastAdvertisementTime: tstamp(v),
		// the ingest status differs from one answer of the source to the next,
		// also for a provider whose advertisement time stays the same
		Lag:       s.rounds,
		LastError: fmt.Sprintf("status-as-of-round-%d", s.rounds),
		ExtendedProviders: &model.ExtendedProviders{
			Providers: []peer.AddrInfo{{ID: pid, Addrs: []multiaddr.Multiaddr{a}}, {ID: x}, {ID: y, Addrs: []multiaddr.Multiaddr{a}}},
			Metadatas: [][]byte{nil, []byte("x-md"), nil},
			Contextual: []model.ContextualExtendedProviders{{
				ContextID: "ctx",
				Providers: []peer.AddrInfo{{ID: z}},
				// what is registered for the context changes from one version of
				// the record to the next, like everything else in it
				Metadatas: [][]byte{[]byte(fmt.Sprintf("z-md-v%d", v))},
			}},
		},
	}
}

func (s *source) gate(what string) {
	// a read of a cached provider has no business with the sources: a source
	// call made on a reader's own goroutine means the read does a writer's
	// work itself (and waits for the source, and for the write lock)
	if n := vsched.CurrentName(); strings.HasPrefix(n, "R") {
		s.e.Log("source %s called-by-reader %s", what, n)
	}
	if s.gated {
		s.e.Log("source %s begin", what)
		vsched.Point("source-call") // the writer is parked here, holding the write lock
		s.e.Log("source %s end", what)
	}
}

func (s *source) Fetch(ctx context.Context, pid peer.ID) (*model.ProviderInfo, error) {
	s.gate("Fetch")
	s.mu.Lock()
	defer s.mu.Unlock()
	if v := s.recs[pid]; v != 0 {
		return s.rec(pid, v), nil
	}
	return nil, nil
}

func (s *source) FetchAll(ctx context.Context) ([]*model.ProviderInfo, error) {
	s.gate("FetchAll")
	s.mu.Lock()
	defer s.mu.Unlock()
	s.rounds++
	var out []*model.ProviderInfo
	var ids []string
	for pid := range s.recs {
		ids = append(ids, string(pid))
	}
	sort.Strings(ids)
	for _, id := range ids {
		if v := s.recs[peer.ID(id)]; v != 0 {
			out = append(out, s.rec(peer.ID(id), v))
		}
	}
	for i := 0; i < s.fillers; i++ {
		out = append(out, s.rec(fixture.Key("ed25519", 100+i).ID, 1))
	}
	return out, nil
}

func (s *source) String() string { return "gated-fake" }

// front puts the library's own HTTP source (pcache.NewHTTPSource, what
// WithSourceURL installs) between the cache and the fake: its HTTP client has
// a transport that answers /providers and /providers/<id> from the fake on the
// calling goroutine (no network, no further goroutines), so the source calls
// stay scheduling points and what the cache stores are the records the
// library's source decoded.
func (s *source) front() pcache.ProviderSource {
	hs, err := pcache.NewHTTPSource("http://source.test", &http.Client{Transport: sourceRT{s}})
	if err != nil {
		panic(err)
	}
	return hs
}

type sourceRT struct{ s *source }

func (t sourceRT) RoundTrip(req *http.Request) (*http.Response, error) {
	var v any
	status := http.StatusOK
	switch p := req.URL.Path; {
	case p == "/providers":
		l, _ := t.s.FetchAll(req.Context())
		if l == nil {
			l = []*model.ProviderInfo{}
		}
		v = l
	case strings.HasPrefix(p, "/providers/"):
		pid, err := peer.Decode(strings.TrimPrefix(p, "/providers/"))
		if err != nil {
			status = http.StatusBadRequest
			break
		}
		pi, _ := t.s.Fetch(req.Context(), pid)
		if pi == nil {
			status = http.StatusNotFound
			break
		}
		v = pi
	default:
		status = http.StatusNotFound
	}
	var body []byte
	if status == http.StatusOK {
		var err error
		if body, err = json.Marshal(v); err != nil {
			panic(err)
		}
	}
	return &http.Response{StatusCode: status, Status: http.StatusText(status), Proto: "HTTP/1.1", ProtoMajor: 1, ProtoMinor: 1,
		Header: http.Header{"Content-Type": []string{"application/json"}}, Body: io.NopCloser(bytes.NewReader(body)), ContentLength: int64(len(body)), Request: req}, nil
}

// ctxVer: the version of the record that the context-level entry of an
// expanded result list comes from (0 = no such entry).
func ctxVer(res []model.ProviderResult) int {
	for _, r := range res {
		var v int
		if n, _ := fmt.Sscanf(string(r.Metadata), "z-md-v%d", &v); n == 1 {
			return v
		}
	}
	return 0
}

func firstLine(s string) string {
	if i := strings.IndexByte(s, '\n'); i >= 0 {
		return s[:i]
	}
	return s
}

type world struct {
	pc  *pcache.ProviderCache
	src *source
}

// readers log "R<i> <op> P=<version> ..." ; writers log "W ..."
func readerThread(e *sched.Exec, w *world, name string) sched.Thread {
	return sched.Thread{Name: name, Fn: func() {
		ctx := context.Background()
		pi, err := w.pc.Get(ctx, pP)
		e.Log("%s Get P=%d err=%v", name, verOf(pi), err)
		lv := 0
		var held []*model.ProviderInfo
		var heldAs []string
		for _, x := range w.pc.List() {
			if x != nil && x.AddrInfo.ID == pP {
				lv = verOf(x)
			}
			if x != nil {
				held, heldAs = append(held, x), append(heldAs, fmt.Sprint(*x))
			}
		}
		e.Log("%s List P=%d", name, lv)
		res, err := w.pc.GetResults(ctx, pP, []byte("ctx"), []byte("md"))
		// the expansion is a read of one version of the record like any other:
		// its context-level entry names the version it comes from
		e.Log("%s GetResults P=%d n=%d err=%v", name, ctxVer(res), len(res), err)
		pi, err = w.pc.Get(ctx, pP)
		e.Log("%s Get P=%d err=%v", name, verOf(pi), err)
		// the records a reader was handed are snapshots: whatever writers do
		// afterwards, a record it still holds reads as it did when it got it
		for i, x := range held {
			if now := fmt.Sprint(*x); now != heldAs[i] {
				e.Log("%s held-record-changed: was %s, now %s", name, heldAs[i], now)
			}
		}
	}}
}

// afterStep: a reader that was just released must be parked at its next point
// or finished; being blocked inside the operation means it waits for a writer.
func afterStep(readers map[string]bool) func(e *sched.Exec, released string, parked map[string]string) []sched.Finding {
	return func(e *sched.Exec, released string, parked map[string]string) []sched.Finding {
		if !readers[released] {
			return nil
		}
		if _, ok := parked[released]; ok || e.Finished(released) {
			return nil
		}
		var others []string
		for n, l := range parked {
			others = append(others, n+"@"+l)
		}
		sort.Strings(others)
		return []sched.Finding{{Sig: "reader-blocked-inside-a-read", Msg: fmt.Sprintf("reader %s is blocked inside a read of a cached provider (not at a scheduling point, not finished): it waits for something another thread holds; parked threads: %v", released, others)}}
	}
}

func checkReaders(e *sched.Exec, name string, threads []string, versions map[int]bool) []sched.Finding {
	var out []sched.Finding
	for _, p := range e.Panics {
		out = append(out, sched.Finding{Sig: name + ":panic", Msg: firstLine(p)})
	}
	for _, f := range e.StepFindings {
		out = append(out, sched.Finding{Sig: name + ":" + f.Sig, Msg: f.Msg})
	}
	for _, th := range threads {
		if at, bad := e.Unfinished[th]; bad {
			out = append(out, sched.Finding{Sig: name + ":thread-blocked", Msg: fmt.Sprintf("thread %s never finishes (parked at %q)", th, at)})
		}
	}
	last := map[string]int{}
	for _, l := range e.Obs() {
		if strings.Contains(l, " held-record-changed: ") {
			out = append(out, sched.Finding{Sig: name + ":record-handed-to-a-reader-changed-afterwards", Msg: l})
		}
		if strings.Contains(l, " called-by-reader ") {
			out = append(out, sched.Finding{Sig: name + ":read-of-cached-provider-calls-the-source-itself", Msg: l})
		}
		f := strings.Fields(l)
		if len(f) < 3 || !strings.HasPrefix(f[0], "R") || !strings.HasPrefix(f[2], "P=") {
			if len(f) >= 4 && strings.HasPrefix(f[0], "R") && f[1] == "GetResults" && f[3] == "n=0" {
				out = append(out, sched.Finding{Sig: name + ":cached-provider-reported-missing", Msg: l})
			}
			continue
		}
		var v int
		fmt.Sscanf(f[2], "P=%d", &v)
		switch {
		case v == 0:
			out = append(out, sched.Finding{Sig: name + ":cached-provider-reported-missing", Msg: l})
		case !versions[v]:
			out = append(out, sched.Finding{Sig: name + ":read-observed-a-state-no-update-produced", Msg: l})
		case v < last[f[0]]:
			out = append(out, sched.Finding{Sig: name + ":reader-saw-older-record-than-before", Msg: fmt.Sprintf("%s after having seen version %d", l, last[f[0]])})
		}
		if v > last[f[0]] {
			last[f[0]] = v
		}
		if len(f) > 3 && strings.HasPrefix(f[3], "err=") && f[3] != "err=<nil>" {
			out = append(out, sched.Finding{Sig: name + ":read-error", Msg: l})
		}
	}
	return out
}

// Q1: readers vs a refresh that moves P from v1 to v2 and adds Q; fillers make
// the refresh rebuild the main map (merge) in one variant.
func readersVsRefresh(nReaders, fillers int, viaHTTP ...string) *sched.Scenario {
	name := fmt.Sprintf("Q1-%dreaders-vs-refresh-fillers%d", nReaders, fillers)
	// viaHTTP: "" (the fake is the cache's source), "NewHTTPSource" (the
	// library's HTTP source made by the caller and handed over with
	// WithSource) or "WithSourceURL" (made by the cache itself from a URL,
	// with the caller's HTTP client)
	httpSrc := ""
	if len(viaHTTP) > 0 {
		httpSrc = viaHTTP[0]
		name += "-behind-the-librarys-http-source-" + httpSrc
	}
	readers := map[string]bool{}
	var names []string
	for i := 1; i <= nReaders; i++ {
		readers[fmt.Sprintf("R%d", i)] = true
		names = append(names, fmt.Sprintf("R%d", i))
	}
	return &sched.Scenario{Name: name, AfterStep: afterStep(readers),
		Setup: func(e *sched.Exec) ([]sched.Thread, func()) {
			src := &source{e: e, recs: map[peer.ID]int{pP: 1}, fillers: fillers}
			srcOpts := []pcache.Option{pcache.WithSource(src)}
			switch httpSrc {
			case "NewHTTPSource":
				srcOpts = []pcache.Option{pcache.WithSource(src.front())}
			case "WithSourceURL":
				srcOpts = []pcache.Option{pcache.WithClient(&http.Client{Transport: sourceRT{src}}), pcache.WithSourceURL("http://source.test")}
			}
			pc, err := pcache.New(append(srcOpts, pcache.WithRefreshInterval(0), pcache.WithTTL(time.Hour))...)
			if err != nil {
				panic(err)
			}
			w := &world{pc, src}
			src.gated = true
			ths := []sched.Thread{{Name: "W", Fn: func() {
				src.mu.Lock()
				src.recs[pP], src.recs[pQ] = 2, 1
				src.mu.Unlock()
				e.Log("W Refresh begin")
				err := pc.Refresh(context.Background())
				e.Log("W Refresh end err=%v", err)
			}}}
			for _, n := range names {
				ths = append(ths, readerThread(e, w, n))
			}
			return ths, func() {}
		},
		Check: func(e *sched.Exec) []sched.Finding {
			return checkReaders(e, name, append([]string{"W"}, names...), map[int]bool{1: true, 2: true})
		},
	}
}

// Q2: a reader vs a miss-fetch of an uncached provider (the writer parks in Fetch holding the write lock)
func readerVsMissFetch() *sched.Scenario {
	name := "Q2-reader-vs-miss-fetch"
	return &sched.Scenario{Name: name, AfterStep: afterStep(map[string]bool{"R1": true}),
		Setup: func(e *sched.Exec) ([]sched.Thread, func()) {
			src := &source{e: e, recs: map[peer.ID]int{pP: 1}}
			pc, err := pcache.New(pcache.WithSource(src), pcache.WithRefreshInterval(0), pcache.WithTTL(time.Hour))
			if err != nil {
				panic(err)
			}
			w := &world{pc, src}
			src.gated = true
			return []sched.Thread{
				{Name: "F", Fn: func() {
					e.Log("F Get(U) begin")
					pi, err := pc.Get(context.Background(), pU)
					e.Log("F Get(U) end found=%v err=%v", pi != nil, err)
				}},
				readerThread(e, w, "R1"),
			}, func() {}
		},
		Check: func(e *sched.Exec) []sched.Finding {
			return checkReaders(e, name, []string{"F", "R1"}, map[int]bool{1: true})
		},
	}
}

// Q4: a refresh, a miss-fetch of an uncached provider and a reader in one
// execution: two writers publish one after the other, so a writer that builds
// its snapshot from stale data undoes the other's publication.
func refreshAndMissFetch() *sched.Scenario {
	name := "Q4-refresh-and-miss-fetch-and-reader"
	return &sched.Scenario{Name: name, AfterStep: afterStep(map[string]bool{"R1": true}),
		Setup: func(e *sched.Exec) ([]sched.Thread, func()) {
			src := &source{e: e, recs: map[peer.ID]int{pP: 1}}
			pc, err := pcache.New(pcache.WithSource(src), pcache.WithRefreshInterval(0), pcache.WithTTL(time.Hour))
			if err != nil {
				panic(err)
			}
			w := &world{pc, src}
			src.gated = true
			return []sched.Thread{
					{Name: "W", Fn: func() {
						src.mu.Lock()
						src.recs[pP] = 2
						src.mu.Unlock()
						e.Log("W Refresh begin")
						err := pc.Refresh(context.Background())
						e.Log("W Refresh end err=%v", err)
					}},
					{Name: "F", Fn: func() {
						e.Log("F Get(U) begin")
						pi, err := pc.Get(context.Background(), pU)
						e.Log("F Get(U) end found=%v err=%v", pi != nil, err)
					}},
					readerThread(e, w, "R1"),
				}, func() {
					// when everything has come to rest the cache must hold what the last
					// completed update published: a reader arriving now sees the refreshed record
					src.gated = false
					pi, err := pc.Get(context.Background(), pP)
					e.Log("END Get P=%d err=%v", verOf(pi), err)
				}
		},
		Check: func(e *sched.Exec) []sched.Finding {
			out := checkReaders(e, name, []string{"W", "F", "R1"}, map[int]bool{1: true, 2: true})
			// An update was published only if the source was actually read inside the
			// refresh: Refresh returns nil WITHOUT refreshing when it finds the write lock
			// taken (it assumes another refresh is in progress - also when the holder is a
			// miss-fetch). That is no update, so nothing can be lost then.
			inRefresh, fetched, published := false, false, false
			for _, l := range e.Obs() {
				switch {
				case l == "W Refresh begin":
					inRefresh = true
				case inRefresh && l == "source FetchAll end":
					fetched = true
				case l == "W Refresh end err=<nil>":
					published, inRefresh = fetched, false
				case published && strings.HasPrefix(l, "END Get P=") && !strings.HasPrefix(l, "END Get P=2 "):
					out = append(out, sched.Finding{Sig: name + ":completed-update-lost", Msg: "the refresh read version 2 from the source and completed, yet at the end " + l})
				}
			}
			return out
		},
	}
}

// Q3: the refresh interval has elapsed; two readers look up: exactly one automatic refresh
// Q3n: a refresh interval below zero (accepted by the option: the timer fires
// at once and after every refresh, so every lookup finds a refresh due): the
// refreshes run beside the lookups; a reader of a cached provider still does
// no writer's work and waits for nobody.
func autoRefreshNegativeInterval() *sched.Scenario {
	name := "Q3n-refresh-interval-below-zero"
	readers := map[string]bool{"R1": true, "R2": true}
	return &sched.Scenario{Name: name, AfterStep: afterStep(readers),
		Setup: func(e *sched.Exec) ([]sched.Thread, func()) {
			src := &source{e: e, recs: map[peer.ID]int{pP: 1}}
			pc, err := pcache.New(pcache.WithSource(src), pcache.WithRefreshInterval(-time.Second), pcache.WithTTL(time.Hour))
			if err != nil {
				panic(err)
			}
			time.Sleep(time.Second) // virtual: the timer has fired
			src.gated = true
			mk := func(n string) sched.Thread {
				return sched.Thread{Name: n, Fn: func() {
					pi, err := pc.Get(context.Background(), pP)
					e.Log("%s Get P=%d err=%v", n, verOf(pi), err)
				}}
			}
			return []sched.Thread{mk("R1"), mk("R2")}, func() {}
		},
		Check: func(e *sched.Exec) []sched.Finding {
			return checkReaders(e, name, []string{"R1", "R2"}, map[int]bool{1: true})
		},
	}
}

// Q8: a cache with a time-to-live of zero (accepted by the option). The source
// stops listing P (version 2), a refresh, then lists an OLDER record of P
// (version 1), another refresh, while a reader looks P up twice and lists. No
// time passes, so P stays; and what a reader is given is the record of some
// completed update: version 2 throughout, never the older record.
func ttlZeroOlderRecordReappears() *sched.Scenario {
	name := "Q8-ttl-zero-provider-unlisted-then-listed-with-an-older-record"
	readers := map[string]bool{"R1": true}
	return &sched.Scenario{Name: name, AfterStep: afterStep(readers),
		Setup: func(e *sched.Exec) ([]sched.Thread, func()) {
			src := &source{e: e, recs: map[peer.ID]int{pP: 2}}
			pc, err := pcache.New(pcache.WithSource(src), pcache.WithRefreshInterval(0), pcache.WithTTL(0))
			if err != nil {
				panic(err)
			}
			w := &world{pc, src}
			src.gated = true
			return []sched.Thread{
				{Name: "W", Fn: func() {
					for _, v := range []int{0, 1} {
						src.mu.Lock()
						src.recs[pP] = v
						src.mu.Unlock()
						e.Log("W Refresh begin")
						err := pc.Refresh(context.Background())
						e.Log("W Refresh end err=%v", err)
					}
				}},
				readerThread(e, w, "R1"),
			}, func() {}
		},
		Check: func(e *sched.Exec) []sched.Finding {
			return checkReaders(e, name, []string{"W", "R1"}, map[int]bool{2: true})
		},
	}
}

func autoRefreshOnce() *sched.Scenario {
	name := "Q3-auto-refresh-once"
	return &sched.Scenario{Name: name,
		Setup: func(e *sched.Exec) ([]sched.Thread, func()) {
			src := &source{e: e, recs: map[peer.ID]int{pP: 1}}
			pc, err := pcache.New(pcache.WithSource(src), pcache.WithRefreshInterval(time.Minute), pcache.WithTTL(time.Hour))
			if err != nil {
				panic(err)
			}
			time.Sleep(time.Minute + time.Second) // virtual: the interval elapses, the timer fires
			base := src.rounds
			mk := func(n string) sched.Thread {
				return sched.Thread{Name: n, Fn: func() {
					pi, err := pc.Get(context.Background(), pP)
					e.Log("%s Get P=%d err=%v", n, verOf(pi), err)
				}}
			}
			return []sched.Thread{mk("R1"), mk("R2")}, func() {
				src.mu.Lock()
				e.Data = src.rounds - base
				src.mu.Unlock()
			}
		},
		Check: func(e *sched.Exec) []sched.Finding {
			out := checkReaders(e, name, []string{"R1", "R2"}, map[int]bool{1: true})
			if n, ok := e.Data.(int); ok && n != 1 {
				out = append(out, sched.Finding{Sig: name + ":not-exactly-one-automatic-refresh", Msg: fmt.Sprintf("%d refresh rounds reached the source after one elapsed interval and two lookups", n)})
			}
			return out
		},
	}
}

// Q6: a provider that was looked up while unknown (a remembered-absent entry,
// since merged into the main map) and then appears at the source: a refresh
// publishes it through the update map while a reader lists and looks up. What
// a reader is given by a lookup it is also given by the listing that follows,
// and at rest lookup and listing agree for every provider.
func appearsAfterRememberedAbsent() *sched.Scenario {
	name := "Q6-provider-appears-after-being-remembered-absent"
	pX, pY := fixture.Key("ed25519", 60).ID, fixture.Key("ed25519", 61).ID
	return &sched.Scenario{Name: name, AfterStep: afterStep(map[string]bool{"R1": true}),
		Setup: func(e *sched.Exec) ([]sched.Thread, func()) {
			src := &source{e: e, recs: map[peer.ID]int{pP: 1}}
			pc, err := pcache.New(pcache.WithSource(src), pcache.WithRefreshInterval(0), pcache.WithTTL(time.Hour))
			if err != nil {
				panic(err)
			}
			// two lookups of unknown providers: the second one's update is
			// merged into the main map (with one cached provider the threshold
			// is two updates), so both absent entries now live there
			for _, id := range []peer.ID{pX, pY} {
				if pi, err := pc.Get(context.Background(), id); pi != nil || err != nil {
					panic(fmt.Sprint("set-up lookup of an unknown provider: ", pi, err))
				}
			}
			src.mu.Lock()
			src.recs[pX] = 1
			src.gated = true
			src.mu.Unlock()
			listed := func(id peer.ID) bool {
				for _, x := range pc.List() {
					if x != nil && x.AddrInfo.ID == id {
						return true
					}
				}
				return false
			}
			ths := []sched.Thread{
				{Name: "W", Fn: func() {
					e.Log("W Refresh begin")
					err := pc.Refresh(context.Background())
					e.Log("W Refresh end err=%v", err)
				}},
				{Name: "R1", Fn: func() {
					for i := 0; i < 2; i++ {
						pi, err := pc.Get(context.Background(), pX)
						e.Log("R1 Get X=%v err=%v", pi != nil, err)
						l := listed(pX)
						e.Log("R1 List X=%v P=%v", l, listed(pP))
						if pi != nil && !l {
							e.Log("R1 inconsistent: X was returned by Get and is missing from the List that followed")
						}
					}
				}},
			}
			return ths, func() {
				for _, id := range []peer.ID{pP, pX} {
					pi, _ := pc.Get(context.Background(), id)
					if l := listed(id); l != (pi != nil) {
						e.Log("rest inconsistent: Get(%s) present=%v, List present=%v", id.String()[len(id.String())-4:], pi != nil, l)
					}
				}
			}
		},
		Check: func(e *sched.Exec) []sched.Finding {
			out := checkReaders(e, name, []string{"W", "R1"}, map[int]bool{1: true})
			for _, l := range e.Obs() {
				switch {
				case strings.Contains(l, " inconsistent: "):
					out = append(out, sched.Finding{Sig: name + ":provider-returned-by-lookup-missing-from-listing", Msg: l})
				case strings.HasPrefix(l, "R1 List ") && strings.HasSuffix(l, "P=false"):
					out = append(out, sched.Finding{Sig: name + ":cached-provider-reported-missing", Msg: l})
				}
			}
			return out
		},
	}
}

// Q5: the refresh interval has elapsed and the source is slow (gated): two
// readers whose first operations differ (a listing, a result expansion, a
// lookup). Whichever read comes first after the interval, none of them waits
// for the automatic refresh it may trigger.
func autoRefreshDueReaders() *sched.Scenario {
	name := "Q5-auto-refresh-due-list-and-results-first"
	readers := map[string]bool{"R1": true, "R2": true}
	return &sched.Scenario{Name: name, AfterStep: afterStep(readers),
		Setup: func(e *sched.Exec) ([]sched.Thread, func()) {
			src := &source{e: e, recs: map[peer.ID]int{pP: 1}}
			pc, err := pcache.New(pcache.WithSource(src), pcache.WithRefreshInterval(time.Minute), pcache.WithTTL(time.Hour))
			if err != nil {
				panic(err)
			}
			time.Sleep(time.Minute + time.Second) // virtual: the interval elapses
			src.mu.Lock()
			src.recs[pP] = 2
			src.gated = true
			src.mu.Unlock()
			list := func(n string) {
				lv := 0
				for _, x := range pc.List() {
					if x != nil && x.AddrInfo.ID == pP {
						lv = verOf(x)
					}
				}
				e.Log("%s List P=%d", n, lv)
			}
			results := func(n string) {
				res, err := pc.GetResults(context.Background(), pP, []byte("ctx"), []byte("md"))
				e.Log("%s GetResults P=%d n=%d err=%v", n, ctxVer(res), len(res), err)
			}
			get := func(n string) {
				pi, err := pc.Get(context.Background(), pP)
				e.Log("%s Get P=%d err=%v", n, verOf(pi), err)
			}
			return []sched.Thread{
				{Name: "R1", Fn: func() { list("R1"); get("R1"); list("R1") }},
				{Name: "R2", Fn: func() { results("R2"); list("R2"); get("R2") }},
			}, func() {}
		},
		Check: func(e *sched.Exec) []sched.Finding {
			return checkReaders(e, name, []string{"R1", "R2"}, map[int]bool{1: true, 2: true})
		},
	}
}

func TestCheck(t *testing.T) {
	r := vp.New("C07", "model_checking",
		"scenarios on the real ProviderCache built with the instrumentation overlay, with a fake source whose Fetch/FetchAll are scheduling points (a writer can be parked inside a source call while it holds the write lock): Q1 one and two readers (Get, List, GetResults, Get of a provider cached by preload) vs a Refresh that moves that provider from version 1 to 2 and adds another, without and with filler providers so that the refresh rebuilds the main map, and with the library's own HTTP source between the cache and the fake, made by the caller (NewHTTPSource + WithSource) and by the cache (WithClient + WithSourceURL), its transport answering from the fake on the calling goroutine; Q2 a reader vs a lookup of an uncached provider (miss-fetch); Q4 a refresh, a miss-fetch and a reader together (two writers publishing one after the other), with a final read once everything is at rest; Q3 two lookups after the refresh interval elapsed (virtual time); Q3n two lookups on a cache whose refresh interval is below zero (a refresh is due at every lookup); Q8 a cache with a time-to-live of zero whose source stops listing a provider and then lists an older record of it, two refreshes beside a reader; Q5 the same moment with a slow source and two readers whose first operation is a listing / a result expansion. Q6 a provider that was looked up while unknown (remembered absent, merged into the main map) appears and is published by a refresh while a reader looks it up and lists (lookup and listing must agree). In every scenario the records a reader was handed by a listing must read the same at the end of its run (the source's answers differ in their ingest-status fields from round to round), and a source call made on a reader's own goroutine is a violation (a read of a cached provider never does a writer's work). All interleavings at the scheduling points (atomic load/store/CAS of the snapshot pointer and refresh flag, write-lock channel operations, spawns, source calls, observations) up to the preemption bound. At every quiescence a reader released last must be parked at its next point or finished (otherwise it waits for a writer). states = distinct decision states; transitions = scheduling steps; traces = executions of the real cache.",
		"data races are NOT decided here: a cooperative scheduler's hand-offs are happens-before edges; they are the business of the separate free-running -race pass of the same operations (package c07race, run by the driver, sampled and declared non-exhaustive)",
		"at most 2 readers; sequential consistency of the atomics is assumed",
	)
	defer func() {
		if err := r.Finish(); err != nil {
			t.Fatal(err)
		}
	}()
	bound := 2
	if vp.Thorough() {
		bound = 3
	}
	scs := []*sched.Scenario{readersVsRefresh(1, 0), readersVsRefresh(1, 3), readersVsRefresh(1, 1, "NewHTTPSource"), readersVsRefresh(1, 0, "WithSourceURL"), readerVsMissFetch(), autoRefreshOnce(), autoRefreshNegativeInterval(), ttlZeroOlderRecordReappears(), autoRefreshDueReaders(), appearsAfterRememberedAbsent(), refreshAndMissFetch(), readersVsRefresh(2, 0)}
	r.Bounds(map[string]any{"preemption_bound": bound, "scenarios": len(scs)})
	budget := 0.0
	if v := os.Getenv("VERIF_BUDGET_S"); v != "" {
		fmt.Sscanf(v, "%g", &budget)
	}
	start := time.Now()
	for i, sc := range scs {
		x := &sched.Explorer{T: t, R: r, Sc: sc, Bound: bound}
		if budget > 0 && !r.Replaying() {
			left := budget*0.95 - time.Since(start).Seconds()
			share := left / float64(len(scs)-i)
			if share < 1 {
				share = 1
			}
			x.Deadline = time.Now().Add(time.Duration(share * float64(time.Second)))
		}
		done := x.Explore()
		if !r.Replaying() && done < bound {
			r.NotExhaustive(fmt.Sprintf("%s: time share used up after completing preemption bound %d of %d", sc.Name, done, bound))
		}
	}
	t.Logf("violations: %d", r.Violations())
}
