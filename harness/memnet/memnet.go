// Package memnet is an in-memory network for the harnesses: listeners that
// accept net.Pipe connections and an *http.Transport that dials them. It puts
// the real net/http client and server code of the library on both ends of a
// connection without sockets, ports or (inside a synctest bubble) real time.
package memnet

import (
	"context"
	"crypto/tls"
	"errors"
	"fmt"
	"net"
	"net/http"
	"sync"
)

// Net is a set of named listeners.
type Net struct {
	mu        sync.Mutex
	listeners map[string]*Listener
	// Dials counts dial attempts per address.
	Dials map[string]int
	// DialHook, when set, is called before every dial; a non-nil error fails
	// the dial.
	DialHook func(addr string) error
}

// New creates an empty network.
func New() *Net {
	return &Net{listeners: map[string]*Listener{}, Dials: map[string]int{}}
}

type addr string

func (a addr) Network() string { return "mem" }
func (a addr) String() string  { return string(a) }

// Listener is an in-memory net.Listener.
type Listener struct {
	n      *Net
	a      string
	conns  chan net.Conn
	closed chan struct{}
	once   sync.Once
}

// Listen registers a listener under host:port.
func (n *Net) Listen(hostport string) *Listener {
	l := &Listener{n: n, a: hostport, conns: make(chan net.Conn), closed: make(chan struct{})}
	n.mu.Lock()
	n.listeners[hostport] = l
	n.mu.Unlock()
	return l
}

func (l *Listener) Accept() (net.Conn, error) {
	select {
	case c := <-l.conns:
		return c, nil
	case <-l.closed:
		return nil, net.ErrClosed
	}
}

func (l *Listener) Close() error {
	l.once.Do(func() {
		close(l.closed)
		l.n.mu.Lock()
		if l.n.listeners[l.a] == l {
			delete(l.n.listeners, l.a)
		}
		l.n.mu.Unlock()
	})
	return nil
}

func (l *Listener) Addr() net.Addr { return addr(l.a) }

// ErrRefused is returned when nothing listens on the dialled address.
var ErrRefused = errors.New("memnet: connection refused")

// Dial connects to a registered listener.
func (n *Net) Dial(ctx context.Context, network, hostport string) (net.Conn, error) {
	n.mu.Lock()
	l := n.listeners[hostport]
	n.Dials[hostport]++
	hook := n.DialHook
	n.mu.Unlock()
	if hook != nil {
		if err := hook(hostport); err != nil {
			return nil, err
		}
	}
	if l == nil {
		return nil, fmt.Errorf("dial %s: %w", hostport, ErrRefused)
	}
	pc, ps := net.Pipe()
	c := &clientConn{Conn: pc}
	var s net.Conn = &serverConn{Conn: ps, peer: c}
	select {
	case l.conns <- s:
		return c, nil
	case <-l.closed:
		c.Close()
		s.Close()
		return nil, fmt.Errorf("dial %s: %w", hostport, ErrRefused)
	case <-ctx.Done():
		c.Close()
		s.Close()
		return nil, ctx.Err()
	}
}

// clientConn is the dialling side of a connection. Once the serving side has
// called FailPeerReads(err), a Read that finds the connection ended reports err
// instead of io.EOF: the way a transport reports that its peer reset the
// connection (e.g. a libp2p stream reset: network.ErrReset) rather than
// closing it.
type clientConn struct {
	net.Conn
	mu      sync.Mutex
	readErr error
}

func (c *clientConn) Read(b []byte) (int, error) {
	n, err := c.Conn.Read(b)
	if err != nil {
		c.mu.Lock()
		re := c.readErr
		c.mu.Unlock()
		if re != nil {
			return n, re
		}
	}
	return n, err
}

// serverConn is the accepting side; what a handler gets from Hijack.
type serverConn struct {
	net.Conn
	peer *clientConn
}

// FailPeerReads makes the dialling side's reads fail with err from the moment
// this side is closed (bytes written before are still delivered).
func (s *serverConn) FailPeerReads(err error) {
	s.peer.mu.Lock()
	s.peer.readErr = err
	s.peer.mu.Unlock()
}

// Transport returns an http.Transport that dials this network. The
// TLSClientConfig is non-nil because libp2phttp clones and dereferences it.
func (n *Net) Transport() *http.Transport {
	return &http.Transport{
		DialContext:       n.Dial,
		TLSClientConfig:   &tls.Config{InsecureSkipVerify: true},
		DisableKeepAlives: false,
		ForceAttemptHTTP2: false,
	}
}

// Client returns an http.Client over this network.
func (n *Net) Client() *http.Client { return &http.Client{Transport: n.Transport()} }

// InstallDefault replaces http.DefaultTransport (which the library's sync
// client and provider-cache sources use) and returns the restore function.
func (n *Net) InstallDefault() (restore func()) {
	old := http.DefaultTransport
	tr := n.Transport()
	http.DefaultTransport = tr
	return func() {
		tr.CloseIdleConnections()
		http.DefaultTransport = old
	}
}

// Serve starts an http.Server for handler on hostport and returns it with a
// stop function that closes the server and waits for Serve to return.
func (n *Net) Serve(hostport string, handler http.Handler) (stop func()) {
	l := n.Listen(hostport)
	srv := &http.Server{Handler: handler}
	done := make(chan struct{})
	go func() {
		defer close(done)
		srv.Serve(l)
	}()
	return func() {
		srv.Close()
		l.Close()
		<-done
	}
}
