// C17: find results expand extended providers per the IPNI rules, for any
// record. Bounded-exhaustive enumeration of provider records against an
// independent specification function.
package c17

import (
	"bytes"
	"context"
	"encoding/json"
	"fmt"
	"io"
	"net/http"
	"strings"
	"testing"

	"github.com/ipni/go-libipni/find/model"
	"github.com/ipni/go-libipni/pcache"
	"github.com/libp2p/go-libp2p/core/peer"
	"github.com/multiformats/go-multiaddr"

	"verifharness/fixture"
	"verifharness/vp"
)

type fakeSource struct{ infos []*model.ProviderInfo }

func (f *fakeSource) Fetch(_ context.Context, pid peer.ID) (*model.ProviderInfo, error) {
	for _, i := range f.infos {
		if i.AddrInfo.ID == pid {
			return i, nil
		}
	}
	return nil, nil
}
func (f *fakeSource) FetchAll(context.Context) ([]*model.ProviderInfo, error) { return f.infos, nil }
func (f *fakeSource) String() string                                          { return "fake" }

// listingRT answers the library's HTTP source from memory: /providers is a
// listing of three records, the one under test between a neighbour that has
// extended providers of every kind and one that has none; /providers/<id>
// the single record.
type listingRT struct{ pi *model.ProviderInfo }

// sharedRT is listingRT with a record that can be exchanged: the source it
// serves is shared by two caches, and what it serves changes between them.
type sharedRT struct{ pi *model.ProviderInfo }

func (t *sharedRT) RoundTrip(req *http.Request) (*http.Response, error) {
	return listingRT{t.pi}.RoundTrip(req)
}

func (t listingRT) RoundTrip(req *http.Request) (*http.Response, error) {
	a := multiaddr.StringCast("/ip4/9.9.9.9/tcp/9")
	nbA, nbB := fixture.Key("ed25519", 7).ID, fixture.Key("ed25519", 8).ID
	before := &model.ProviderInfo{AddrInfo: peer.AddrInfo{ID: nbA, Addrs: []multiaddr.Multiaddr{a}}, LastAdvertisementTime: "2024-01-01T00:00:00Z",
		ExtendedProviders: &model.ExtendedProviders{
			Providers: []peer.AddrInfo{{ID: nbA, Addrs: []multiaddr.Multiaddr{a}}, {ID: nbB, Addrs: []multiaddr.Multiaddr{a}}},
			Metadatas: [][]byte{[]byte("neighbour-md-0"), []byte("neighbour-md-1")},
			Contextual: []model.ContextualExtendedProviders{
				{ContextID: "c", Override: true, Providers: []peer.AddrInfo{{ID: nbB, Addrs: []multiaddr.Multiaddr{a}}}, Metadatas: [][]byte{[]byte("neighbour-ctx-md")}},
				{ContextID: "d", Providers: []peer.AddrInfo{{ID: nbA}}},
			}}}
	after := &model.ProviderInfo{AddrInfo: peer.AddrInfo{ID: nbB, Addrs: []multiaddr.Multiaddr{a}}, LastAdvertisementTime: "2024-01-01T00:00:00Z"}
	var v any
	status := http.StatusOK
	switch p := req.URL.Path; {
	case p == "/providers":
		v = []*model.ProviderInfo{before, t.pi, after}
	case p == "/providers/"+t.pi.AddrInfo.ID.String():
		v = t.pi
	default:
		status = http.StatusNotFound
	}
	var body []byte
	if status == http.StatusOK {
		var err error
		if body, err = json.Marshal(v); err != nil {
			panic(err)
		}
	}
	return &http.Response{StatusCode: status, Status: http.StatusText(status), Proto: "HTTP/1.1", ProtoMajor: 1, ProtoMinor: 1,
		Header: http.Header{"Content-Type": []string{"application/json"}}, Body: io.NopCloser(bytes.NewReader(body)), ContentLength: int64(len(body)), Request: req}, nil
}

var (
	mainID = fixture.Key("ed25519", 0).ID
	xID    = fixture.Key("ed25519", 1).ID
	yID    = fixture.Key("secp256k1", 0).ID
	ids    = []peer.ID{mainID, xID, yID}
	names  = []string{"main", "X", "Y"}
	addrs  = [][]multiaddr.Multiaddr{
		{multiaddr.StringCast("/ip4/1.1.1.1/tcp/1")},
		{multiaddr.StringCast("/ip4/2.2.2.2/tcp/2")},
		{multiaddr.StringCast("/ip4/3.3.3.3/tcp/3"), multiaddr.StringCast("/dns/y.example/tcp/443/https")},
	}
	lookedUp = []byte("m")
)

// metadata kinds of an extended-provider entry
const (
	mdNil = iota
	mdEmpty
	mdEqual
	mdDiff
)

var mdNames = []string{"nil", "empty", "equal", "diff"}

func mdBytes(k int) []byte {
	switch k {
	case mdNil:
		return nil
	case mdEmpty:
		return []byte{}
	case mdEqual:
		return []byte("m")
	default:
		return []byte("other")
	}
}

// entry = (provider index, metadata kind)
type entry struct{ p, md int }

type xset struct {
	entries []entry
	// mismatch: 0 matching, 1 metadata list truncated to `keep` entries
	// (keep < number of providers), 2 one longer, 3 nil metadata list
	mismatch int
	keep     int
}

func (x xset) String() string {
	var l []string
	for _, e := range x.entries {
		l = append(l, names[e.p]+":"+mdNames[e.md])
	}
	s := "[" + strings.Join(l, " ") + "]"
	switch x.mismatch {
	case 1:
		s += fmt.Sprintf("md[:%d]", x.keep)
	case 2:
		s += "+1md"
	case 3:
		s += "nilmd"
	}
	return s
}

// entryAddrs: the addresses an extended-provider entry carries are its own:
// they differ from those of the provider record and between the chain-level
// list (where 0) and a contextual list (where 1), also for the main provider.
func entryAddrs(where, p int) []multiaddr.Multiaddr {
	own := multiaddr.StringCast(fmt.Sprintf("/ip4/10.%d.%d.9/tcp/99/http", where+1, p))
	if p == 2 {
		return []multiaddr.Multiaddr{own}
	}
	return append([]multiaddr.Multiaddr{own}, addrs[p]...)
}

func (x xset) providers(where int) []peer.AddrInfo {
	out := make([]peer.AddrInfo, len(x.entries))
	for i, e := range x.entries {
		out[i] = peer.AddrInfo{ID: ids[e.p], Addrs: entryAddrs(where, e.p)}
	}
	return out
}

func (x xset) metadatas() [][]byte {
	if x.mismatch == 3 {
		return nil
	}
	out := make([][]byte, 0, len(x.entries)+1)
	for _, e := range x.entries {
		out = append(out, mdBytes(e.md))
	}
	switch x.mismatch {
	case 1:
		if x.keep < len(out) {
			out = out[:x.keep]
		}
	case 2:
		out = append(out, []byte("extra"))
	}
	return out
}

type ctxSet struct {
	id       string
	override bool
	set      xset
}

type rec struct {
	hasExt bool
	chain  xset
	ctxs   []ctxSet
}

func (r rec) String() string {
	if !r.hasExt {
		return "noext"
	}
	s := "chain" + r.chain.String()
	for _, c := range r.ctxs {
		s += fmt.Sprintf(" ctx(%q,ovr=%v)%s", c.id, c.override, c.set.String())
	}
	return s
}

func (r rec) mismatched() bool {
	if r.chain.mismatch != 0 {
		return true
	}
	for _, c := range r.ctxs {
		if c.set.mismatch != 0 {
			return true
		}
	}
	return false
}

// binCtx is a context ID that is not valid UTF-8.
const binCtx = "\xff\xfe\x01\x80"

func (r rec) hasBinaryCtx() bool {
	for _, c := range r.ctxs {
		if c.id == binCtx {
			return true
		}
	}
	return false
}

func (r rec) build() *model.ProviderInfo {
	pi := &model.ProviderInfo{AddrInfo: peer.AddrInfo{ID: mainID, Addrs: addrs[0]}, LastAdvertisementTime: "2024-01-01T00:00:00Z"}
	if !r.hasExt {
		return pi
	}
	ep := &model.ExtendedProviders{Providers: r.chain.providers(0), Metadatas: r.chain.metadatas()}
	for _, c := range r.ctxs {
		ep.Contextual = append(ep.Contextual, model.ContextualExtendedProviders{Override: c.override, ContextID: c.id, Providers: c.set.providers(1), Metadatas: c.set.metadatas()})
	}
	pi.ExtendedProviders = ep
	return pi
}

type result struct {
	ctx, md []byte
	id      peer.ID
	addrs   string
}

func (r result) String() string {
	return fmt.Sprintf("(%s ctx=%q md=%s)", r.id.ShortString(), r.ctx, mdStr(r.md))
}

func mdStr(b []byte) string {
	if b == nil {
		return "nil"
	}
	return fmt.Sprintf("%q", b)
}

func addrStr(a []multiaddr.Multiaddr) string {
	var l []string
	for _, m := range a {
		l = append(l, m.String())
	}
	return strings.Join(l, ",")
}

// spec is the independent specification written from the property statement.
// entryMd gives the metadata an entry has "of its own" after the record has
// travelled the given way (direct or through JSON).
func spec(r rec, ctxID, md []byte) []result {
	out := []result{{ctxID, md, mainID, addrStr(addrs[0])}}
	if !r.hasExt {
		return out
	}
	expand := func(x xset, where int) {
		have := len(x.metadatas())
		for i, e := range x.entries {
			own := mdBytes(e.md)
			if i >= have {
				own = nil // no entry in a shorter (or nil) metadata list: absent
			}
			if ids[e.p] == mainID && (len(own) == 0 || bytes.Equal(own, md)) {
				continue // the provider's own entry adds no new metadata
			}
			use := own
			if len(own) == 0 { // absent or empty: substitute the looked-up metadata
				use = md
			}
			out = append(out, result{ctxID, use, ids[e.p], addrStr(entryAddrs(where, e.p))})
		}
	}
	override := false
	for _, c := range r.ctxs {
		if c.id == string(ctxID) {
			override = c.override
			expand(c.set, 1)
			break
		}
	}
	if !override {
		expand(r.chain, 0)
	}
	return out
}

func sameResults(got []model.ProviderResult, want []result) (bool, string) {
	if len(got) != len(want) {
		return false, fmt.Sprintf("%d results, want %d", len(got), len(want))
	}
	for i := range got {
		g, w := got[i], want[i]
		if g.Provider == nil {
			return false, fmt.Sprintf("result %d has no provider", i)
		}
		if g.Provider.ID != w.id || addrStr(g.Provider.Addrs) != w.addrs {
			return false, fmt.Sprintf("result %d is provider %s with addresses %s, want %s with %s", i, g.Provider.ID.ShortString(), addrStr(g.Provider.Addrs), w.id.ShortString(), w.addrs)
		}
		if !bytes.Equal(g.ContextID, w.ctx) {
			return false, fmt.Sprintf("result %d context ID %q, want %q", i, g.ContextID, w.ctx)
		}
		if !bytes.Equal(g.Metadata, w.md) {
			return false, fmt.Sprintf("result %d metadata %s, want %s", i, mdStr(g.Metadata), mdStr(w.md))
		}
	}
	return true, ""
}

func genSets(maxLen int, mdKinds []int) []xset {
	var out []xset
	var rec func(cur []entry)
	rec = func(cur []entry) {
		out = append(out, xset{entries: append([]entry(nil), cur...)})
		if len(cur) == maxLen {
			return
		}
		for p := 0; p < 3; p++ {
			for _, k := range mdKinds {
				rec(append(cur, entry{p, k}))
			}
		}
	}
	rec(nil)
	return out
}

func firstLine(s string) string {
	if i := strings.IndexByte(s, '\n'); i >= 0 {
		return s[:i]
	}
	return s
}

func TestCheck(t *testing.T) {
	r := vp.New("C17", "exploration",
		"provider records: chain-level lists = every sequence of length <=N over {main, X, Y} x per-entry metadata {nil, empty, equal to looked-up, different}, every entry with addresses of its own (different from the provider record's and between chain-level and contextual lists); contextual sets for context IDs \"c\" and \"\" with the same alphabets (length <=M) and override on/off; metadata-list lengths {matching, truncated to every shorter length, one longer, nil} for lists of up to 3 providers; every record served directly, after a JSON round trip, and through the library HTTP source (WithClient + WithSourceURL; its listing holds the record between two other providers, one with extended providers of every kind and one with none; for the lookup-miss entry the source is one NewHTTPSource shared with a second cache that fetches a newer record of the provider afterwards), entering the cache by the constructor's preload refresh, by a GetResults that misses and by a plain Get that misses before any expansion is asked for; lookups: context ID in {\"c\",\"d\",empty} x metadata {nil,\"m\"}. Non-trivial: records with at least one extended provider. Distinct = distinct (record, transport, lookup).",
		"records whose metadata list length differs from the provider list: an error is accepted; where results are produced they are held to the expansion rules with a provider that has no entry in the metadata list counting as 'no metadata of its own (absent)'; surplus metadata entries are ignored",
		"records with two contextual sets for the same context ID are not generated",
	)
	defer func() {
		if err := r.Finish(); err != nil {
			t.Fatal(err)
		}
	}()
	thorough := vp.Thorough()
	allMd := []int{mdNil, mdEmpty, mdEqual, mdDiff}
	chainMax, ctxMax := 2, 2
	if thorough {
		chainMax, ctxMax = 3, 2
	}
	chains := genSets(chainMax, allMd)
	ctxSets := genSets(ctxMax, allMd)
	r.Bounds(map[string]any{"chain_lists": len(chains), "contextual_lists": len(ctxSets)})

	lookups := []struct{ ctx, md []byte }{
		{[]byte("c"), lookedUp}, {[]byte("c"), nil}, {[]byte("d"), lookedUp}, {[]byte("d"), nil}, {[]byte{}, lookedUp}, {nil, nil},
		{[]byte(binCtx), lookedUp}, {[]byte(strings.ToValidUTF8(binCtx, "\uFFFD")), lookedUp},
		// lookups whose context ID and metadata, written one after the other,
		// give the same bytes as an earlier lookup of this list ("c"+"m")
		{[]byte("cm"), nil}, {[]byte{}, []byte("cm")}, {[]byte("c"), lookedUp},
	}

	run := func(rc rec) {
		rkey := rc.String()
		if !r.Mine("rec|" + rkey) {
			return
		}
		// entry: how the record gets into the cache: with the preload refresh of
		// the constructor, or by the first lookup missing (no preload)
		// ("get-miss": the first lookup of the provider is a plain Get, which
		// misses and fetches the record; the expansions come afterwards)
		for _, entry := range []string{"preload", "miss", "get-miss"} {
			// via: how the source hands the record over: as the value built here,
			// as that value after a JSON round trip, or through the library's
			// own HTTP source (WithClient + WithSourceURL) whose listing holds
			// two other providers' records around it
			for _, via := range []string{"false", "true", "http"} {
				viaJSON := via == "true"
				if via != "false" && rc.hasBinaryCtx() {
					continue // JSON cannot carry a string that is not UTF-8 unchanged
				}
				pi := rc.build()
				if viaJSON {
					b, err := json.Marshal(pi)
					if err != nil {
						panic(err)
					}
					pi = &model.ProviderInfo{}
					var derr error
					if pn, m := vp.Guard(func() { derr = json.Unmarshal(b, pi) }); pn {
						// the library's own decoder of a record: a panic there is
						// what the property excludes, not a harness failure
						r.Violation("decode-of-a-record:panic", "rec|"+rkey, fmt.Sprintf("decoding record %s from JSON panicked: %s", rkey, firstLine(m)), nil)
						continue
					}
					if derr != nil {
						if !rc.mismatched() {
							r.Violation("decode-of-a-record:error", "rec|"+rkey, fmt.Sprintf("decoding record %s from the JSON the library wrote for it: %v", rkey, derr), nil)
						}
						continue
					}
				}
				srcOpt := []pcache.Option{pcache.WithSource(&fakeSource{infos: []*model.ProviderInfo{pi}})}
				var shared pcache.ProviderSource
				var sharedServes *sharedRT
				switch {
				case via == "http" && entry != "miss":
					srcOpt = []pcache.Option{pcache.WithClient(&http.Client{Transport: listingRT{pi}}), pcache.WithSourceURL("http://indexer.test")}
				case via == "http":
					// one HTTP source made by the caller (NewHTTPSource) and handed
					// to this cache and, further down, to a second one
					sharedServes = &sharedRT{pi}
					hs, err := pcache.NewHTTPSource("http://indexer.test", &http.Client{Transport: sharedServes})
					if err != nil {
						panic(err)
					}
					shared = hs
					srcOpt = []pcache.Option{pcache.WithSource(hs)}
				}
				var pc *pcache.ProviderCache
				var err error
				if pn, m := vp.Guard(func() {
					pc, err = pcache.New(append(srcOpt, pcache.WithRefreshInterval(0), pcache.WithPreload(entry == "preload"))...)
				}); pn {
					r.Violation("decode-of-a-record:panic", "rec|"+rkey, fmt.Sprintf("building the cache over the HTTP source panicked for record %s: %s", rkey, firstLine(m)), nil)
					continue
				}
				if err != nil {
					panic(err)
				}
				if entry == "get-miss" {
					if pn, m := vp.Guard(func() { _, _ = pc.Get(context.Background(), mainID) }); pn {
						r.Violation("GetResults:panic:in-the-lookup-that-cached-the-record", "rec|"+rkey, firstLine(m), nil)
						continue
					}
				}
				for li, lk := range lookups {
					key := fmt.Sprintf("rec|%s|json=%v|lookup=%d", rkey, via, li)
					if entry != "preload" {
						key += "|entered-by-" + entry
					}
					if r.Replaying() && r.ReplayKey() != key && r.ReplayKey() != "rec|"+rkey {
						continue
					}
					r.Eval(key, rc.hasExt && (len(rc.chain.entries) > 0 || len(rc.ctxs) > 0))
					var got []model.ProviderResult
					var err error
					pn, m := vp.Guard(func() { got, err = pc.GetResults(context.Background(), mainID, lk.ctx, lk.md) })
					if pn {
						r.Outcome("panic")
						which := "chain-level"
						if strings.Contains(m, "provider_cache.go") {
							// classify by which list is mismatched
							for _, c := range rc.ctxs {
								if c.id == string(lk.ctx) && c.set.mismatch != 0 {
									which = "contextual"
								}
							}
						}
						r.Violation("GetResults:panic:metadata-list-mismatch:"+which, key, fmt.Sprintf("GetResults panicked for record %s lookup ctx=%q: %s", rkey, lk.ctx, firstLine(m)), nil)
						continue
					}
					if rc.mismatched() && err != nil {
						// lists of different lengths: results or an error
						r.Outcome("mismatch-error")
						continue
					}
					if err != nil {
						r.Violation("GetResults:error", key, err.Error(), nil)
						continue
					}
					want := spec(rc, lk.ctx, lk.md)
					if ok, why := sameResults(got, want); !ok {
						r.Outcome("wrong")
						r.Violation("GetResults:wrong:"+classify(rc, lk.ctx, got, want), key, fmt.Sprintf("record %s (json=%v) lookup ctx=%q md=%s: %s; got %v want %v", rkey, via, lk.ctx, mdStr(lk.md), why, fmtGot(got), want), nil)
						continue
					}
					// the same lookup again on the same cache: same answer, and the first
					// answer is left alone. Every further call gets private copies of
					// its arguments (an answer legitimately contains the context ID and
					// metadata slices the caller passed in).
					cp := func(b []byte) []byte {
						if b == nil {
							return nil
						}
						return append([]byte{}, b...)
					}
					first := fmtGot(got)
					var got2 []model.ProviderResult
					var err2 error
					if pn, m := vp.Guard(func() { got2, err2 = pc.GetResults(context.Background(), mainID, cp(lk.ctx), cp(lk.md)) }); pn {
						r.Violation("GetResults:panic:second-call", key, firstLine(m), nil)
						continue
					}
					if err2 != nil || fmtGot(got2) != first {
						r.Violation("GetResults:second-call-differs", key, fmt.Sprintf("record %s lookup ctx=%q: first call %s, second call %s (err %v)", rkey, lk.ctx, first, fmtGot(got2), err2), nil)
						continue
					}
					if fmtGot(got) != first {
						r.Violation("GetResults:first-answer-altered-by-second-call", key, fmt.Sprintf("first answer was %s and reads %s after a second call", first, fmtGot(got)), nil)
						continue
					}
					r.Outcome(fmt.Sprintf("ok-%d-results", len(got)))
					if len(got) >= 4 {
						r.Sample(map[string]any{"record": rkey, "lookup_ctx": string(lk.ctx), "results": fmt.Sprint(want)})
					}
				}
				// the shared source: the indexer now serves another record for the
				// provider (no extended providers at all), a second cache over the
				// same source looks it up; the first cache still expands the
				// record it cached
				if shared != nil {
					key := fmt.Sprintf("rec|%s|json=http|shared-source", rkey)
					r.Eval(key, rc.hasExt)
					sharedServes.pi = &model.ProviderInfo{AddrInfo: peer.AddrInfo{ID: mainID, Addrs: addrs[0]}, LastAdvertisementTime: "2024-02-02T00:00:00Z"}
					pcB, err := pcache.New(pcache.WithSource(shared), pcache.WithRefreshInterval(0), pcache.WithPreload(false))
					if err != nil {
						panic(err)
					}
					lk := lookups[0]
					if pn, m := vp.Guard(func() { _, _ = pcB.GetResults(context.Background(), mainID, lk.ctx, lk.md) }); pn {
						r.Violation("GetResults:panic:second-cache-over-a-shared-source", key, firstLine(m), nil)
						continue
					}
					var got []model.ProviderResult
					var gerr error
					if pn, m := vp.Guard(func() { got, gerr = pc.GetResults(context.Background(), mainID, lk.ctx, lk.md) }); pn {
						r.Violation("GetResults:panic:second-cache-over-a-shared-source", key, firstLine(m), nil)
						continue
					}
					if rc.mismatched() && gerr != nil {
						continue
					}
					want := spec(rc, lk.ctx, lk.md)
					if ok, why := sameResults(got, want); gerr != nil || !ok {
						r.Violation("GetResults:wrong:after-a-second-cache-used-the-same-http-source", key, fmt.Sprintf("record %s cached by one cache; a second cache over the same NewHTTPSource fetched a newer record of the provider; the first cache now expands to %v (err %v, %s), its record expands to %v", rkey, fmtGot(got), gerr, why, want), nil)
						continue
					}
					r.Outcome("shared-source-ok")
				}
			}
		}
	}

	// A: no extended providers
	run(rec{})
	// B: chain-level only, all lists
	for _, ch := range chains {
		run(rec{hasExt: true, chain: ch})
	}
	// C: one contextual set "c" x override x chain lists (chain limited to <=2 entries)
	for _, ch := range chains {
		if len(ch.entries) > 2 {
			continue
		}
		for _, cs := range ctxSets {
			for _, ov := range []bool{false, true} {
				run(rec{hasExt: true, chain: ch, ctxs: []ctxSet{{"c", ov, cs}}})
			}
		}
	}
	// C': the contextual set registered under a context ID that is not text
	// (context IDs are opaque bytes), looked up with exactly those bytes and
	// with their "repaired" UTF-8 form, which is another context ID
	for _, ch := range chains {
		if len(ch.entries) > 1 {
			continue
		}
		for _, cs := range ctxSets {
			for _, ov := range []bool{false, true} {
				run(rec{hasExt: true, chain: ch, ctxs: []ctxSet{{binCtx, ov, cs}}})
			}
		}
	}
	// D: two contextual sets ("c" and "") with a fixed chain
	small := genSets(1, allMd)
	fixedChain := xset{entries: []entry{{1, mdNil}, {0, mdDiff}}}
	for _, a := range small {
		for _, b := range small {
			for ov := 0; ov < 4; ov++ {
				run(rec{hasExt: true, chain: fixedChain, ctxs: []ctxSet{{"c", ov&1 != 0, a}, {"", ov&2 != 0, b}}})
			}
		}
	}
	// E: metadata-list length mismatches on either level
	// (every truncation length of the metadata list, one longer, and nil; where
	// results are produced they follow the expansion rules with a missing entry
	// counting as absent metadata)
	mmKinds := []int{mdNil, mdDiff}
	if thorough {
		mmKinds = []int{mdNil, mdEqual, mdDiff}
	}
	mmSets := genSets(3, mmKinds)
	other := xset{entries: []entry{{1, mdDiff}}}
	for _, s := range mmSets {
		var variants []xset
		for keep := 0; keep < len(s.entries); keep++ {
			x := s
			x.mismatch, x.keep = 1, keep
			variants = append(variants, x)
		}
		for mm := 2; mm <= 3; mm++ {
			x := s
			x.mismatch = mm
			variants = append(variants, x)
		}
		for _, x := range variants {
			run(rec{hasExt: true, chain: x})
			run(rec{hasExt: true, chain: other, ctxs: []ctxSet{{"c", false, x}}})
			run(rec{hasExt: true, chain: x, ctxs: []ctxSet{{"c", true, x}}})
			// a mismatched contextual list followed by a complete chain-level
			// list and the other way round (state must not leak between the levels)
			run(rec{hasExt: true, chain: xset{entries: []entry{{2, mdNil}, {1, mdNil}}}, ctxs: []ctxSet{{"c", false, x}}})
			run(rec{hasExt: true, chain: x, ctxs: []ctxSet{{"c", false, xset{entries: []entry{{2, mdDiff}}}}}})
		}
	}
	t.Logf("violations: %d", r.Violations())
}

func fmtGot(got []model.ProviderResult) string {
	var l []string
	for _, g := range got {
		id := "?"
		if g.Provider != nil {
			id = g.Provider.ID.ShortString()
		}
		l = append(l, fmt.Sprintf("(%s ctx=%q md=%s)", id, g.ContextID, mdStr(g.Metadata)))
	}
	return "[" + strings.Join(l, " ") + "]"
}

// classify names which rule a wrong result breaks, for violation signatures.
func classify(rc rec, ctxID []byte, got []model.ProviderResult, want []result) string {
	if len(got) == len(want) {
		for i := range got {
			if got[i].Provider != nil && got[i].Provider.ID == want[i].id && !bytes.Equal(got[i].Metadata, want[i].md) {
				// which level does entry i come from?
				level := "chain-level"
				for _, c := range rc.ctxs {
					if c.id == string(ctxID) {
						n := 0
						for _, e := range c.set.entries {
							own := mdBytes(e.md)
							if !(ids[e.p] == mainID && (len(own) == 0 || bytes.Equal(own, want[0].md))) {
								n++
							}
						}
						if i >= 1 && i <= n {
							level = "contextual"
						}
					}
				}
				kind := "metadata"
				if len(got[i].Metadata) == 0 && len(want[i].md) != 0 {
					kind = "empty-metadata-not-substituted"
				}
				return kind + ":" + level
			}
		}
		return "order-or-identity"
	}
	if len(got) < len(want) {
		return "missing-results"
	}
	return "extra-results"
}
