// C14: every sync notification reaches every registered listener once, in
// order. Stateless model checking of small scenarios on the real subscriber
// (instrumented dagsync/announce/ipnisync, gated in-memory publishers).
package c14

import (
	"context"
	"fmt"
	"os"
	"strings"
	"sync"
	"testing"
	"testing/synctest"
	"time"

	"github.com/ipfs/go-cid"
	"github.com/ipni/go-libipni/dagsync"
	"github.com/libp2p/go-libp2p/core/peer"

	"verifharness/fixture"
	"verifharness/sched"
	"verifharness/schedfx"
	"verifharness/syncfx"
	"verifharness/vp"
)

func firstLine(s string) string {
	if i := strings.IndexByte(s, '\n'); i >= 0 {
		return s[:i]
	}
	return s
}

type final struct {
	setup  []string // events of the listener registered during setup (read only at the end)
	closed bool
	latest []int
}

func finish(e *sched.Exec, w *schedfx.World, extra func(f *final)) func() {
	return func() {
		f := &final{}
		e.Guarded("cancel and drain of the listener", func() {
			evs, closed := w.Lst.StopCheck()
			for _, ev := range evs {
				f.setup = append(f.setup, w.EventStr(ev))
			}
			f.closed = closed
		})
		for i := range w.Pubs {
			f.latest = append(f.latest, w.Latest(i))
		}
		if extra != nil {
			e.Guarded("reading the other listeners to the end", func() { extra(f) })
		}
		e.Data = f
		w.CloseGuarded()
	}
}

func basics(e *sched.Exec, name string, must []string) []sched.Finding {
	var out []sched.Finding
	for _, p := range e.Panics {
		out = append(out, sched.Finding{Sig: name + ":panic", Msg: firstLine(p)})
	}
	for _, th := range must {
		if at, bad := e.Unfinished[th]; bad {
			out = append(out, sched.Finding{Sig: name + ":thread-blocked:" + th, Msg: fmt.Sprintf("thread %s never finishes (parked at %q; deadlocked %v)", th, at, e.Deadlocked)})
		}
	}
	return out
}

// hooksOf counts hook calls per publisher.
func hooksOf(obs []string) map[int]int {
	n := map[int]int{}
	for _, l := range obs {
		var tag string
		var pi, bi int
		if k, _ := fmt.Sscanf(l, "hook %s pub%d block[%d]", &tag, &pi, &bi); k == 3 {
			n[pi]++
		}
	}
	return n
}

func dup(l []string) string {
	seen := map[string]bool{}
	for _, x := range l {
		if seen[x] {
			return x
		}
		seen[x] = true
	}
	return ""
}

// N1: two publishers synced concurrently; one listener reads only at the end,
// another is registered and never read until the end (stalled).
func twoPublishers() *sched.Scenario {
	name := "N1-two-publishers-stalled-listener"
	return &sched.Scenario{Name: name,
		Setup: func(e *sched.Exec) ([]sched.Thread, func()) {
			w := schedfx.New(e, schedfx.Options{Pubs: 2, ChainLen: 3, Prestore: true})
			stalled := w.Listen() // never read during the scheduled part
			var ths []sched.Thread
			for pi := 0; pi < 2; pi++ {
				pi := pi
				w.Pubs[pi].Publisher.SetRoot(w.Chains[pi].Cids[2])
				ths = append(ths, sched.Thread{Name: fmt.Sprintf("X%d", pi), Fn: func() {
					e.Log("X%d call sync", pi)
					_, err := w.Sub.SyncAdChain(context.Background(), w.Pubs[pi].AddrInfo())
					e.Log("X%d ret sync err=%v", pi, err)
				}})
			}
			var stalledEv []string
			var stalledClosed bool
			return ths, finish(e, w, func(f *final) {
				evs, cl := stalled.StopCheck()
				for _, ev := range evs {
					stalledEv = append(stalledEv, w.EventStr(ev))
				}
				stalledClosed = cl
				e.Log("stalled-listener events=%v closed=%v", stalledEv, stalledClosed)
			})
		},
		Check: func(e *sched.Exec) []sched.Finding {
			out := basics(e, name, []string{"X0", "X1"})
			f, _ := e.Data.(*final)
			if f == nil || len(out) > 0 {
				return out
			}
			obs := e.Obs()
			for _, l := range obs {
				if strings.Contains(l, " ret sync err=") && !strings.HasSuffix(l, "err=<nil>") {
					out = append(out, sched.Finding{Sig: name + ":sync-failed", Msg: l})
				}
			}
			hk := hooksOf(obs)
			want := map[string]bool{fmt.Sprintf("pub0[2] count=%d", hk[0]): true, fmt.Sprintf("pub1[2] count=%d", hk[1]): true}
			stalledLine := ""
			for _, l := range obs {
				if strings.HasPrefix(l, "stalled-listener ") {
					stalledLine = l
				}
			}
			for lname, got := range map[string][]string{"reading": f.setup} {
				if d := dup(got); d != "" {
					out = append(out, sched.Finding{Sig: name + ":event-delivered-twice", Msg: fmt.Sprintf("%s listener got %v", lname, got)})
				}
				if len(got) != 2 || !want[got[0]] || !want[got[1]] {
					out = append(out, sched.Finding{Sig: name + ":listener-missed-or-wrong-event", Msg: fmt.Sprintf("%s listener got %v, syncs produced %v", lname, got, want)})
				}
			}
			for ev := range want {
				if !strings.Contains(stalledLine, ev) {
					out = append(out, sched.Finding{Sig: name + ":stalled-listener-missed-event", Msg: fmt.Sprintf("%s; expected %s", stalledLine, ev)})
				}
			}
			if !f.closed || !strings.Contains(stalledLine, "closed=true") {
				out = append(out, sched.Finding{Sig: name + ":listener-channel-not-closed-after-cancel", Msg: stalledLine})
			}
			return out
		},
	}
}

// N2: two successive syncs of one publisher; a listener registers and cancels
// at scheduler-chosen moments; a reader checks the latest-synced value at the
// moment each event arrives.
func registerDuringSyncs() *sched.Scenario {
	name := "N2-register-cancel-during-syncs"
	return &sched.Scenario{Name: name,
		Setup: func(e *sched.Exec) ([]sched.Thread, func()) {
			w := schedfx.New(e, schedfx.Options{Pubs: 1, ChainLen: 3, Prestore: true})
			p, ch := w.Pubs[0], w.Chains[0]
			reader := w.Listen()
			var late *syncfx.Listener
			var lateEv []string
			ths := []sched.Thread{
				{Name: "X", Fn: func() {
					for h := 1; h <= 2; h++ {
						p.Publisher.SetRoot(ch.Cids[h])
						e.Log("X call sync[%d]", h)
						_, err := w.Sub.SyncAdChain(context.Background(), p.AddrInfo())
						e.Log("X ret sync[%d] err=%v", h, err)
					}
				}},
				{Name: "L", Fn: func() {
					e.Log("L call register")
					late = w.Listen()
					e.Log("L ret register")
					e.Log("L call cancel")
					evs, closed := late.StopCheckNoWait()
					for _, ev := range evs {
						lateEv = append(lateEv, w.EventStr(ev))
					}
					e.Log("L ret cancel early-events=%v closed=%v", lateEv, closed)
				}},
				{Name: "R", Fn: func() {
					for k := 0; k < 3; k++ {
						e.Log("R poll")
						for _, ev := range reader.Poll() {
							lat := w.Latest(0)
							_, bi := w.Locate(ev.Cid)
							e.Log("R got %s latest-at-receipt=%d event-block=%d", w.EventStr(ev), lat, bi)
						}
					}
				}},
			}
			return ths, finish(e, w, func(f *final) {
				evs, cl := reader.StopCheck()
				for _, ev := range evs {
					e.Log("R got-at-end %s", w.EventStr(ev))
				}
				e.Log("R closed=%v", cl)
				if late != nil {
					evs, cl := late.StopCheck()
					for _, ev := range evs {
						lateEv = append(lateEv, w.EventStr(ev))
					}
					e.Log("L final events=%v closed=%v", lateEv, cl)
				}
			})
		},
		Check: func(e *sched.Exec) []sched.Finding {
			out := basics(e, name, []string{"X", "L", "R"})
			f, _ := e.Data.(*final)
			if f == nil || len(out) > 0 {
				return out
			}
			obs := e.Obs()
			pos := func(s string) int {
				for i, l := range obs {
					if strings.HasPrefix(l, s) {
						return i
					}
				}
				return -1
			}
			// the reader (registered before everything) sees both events once, in order
			var rgot []string
			for _, l := range obs {
				if strings.HasPrefix(l, "R got ") || strings.HasPrefix(l, "R got-at-end ") {
					fs := strings.Fields(l)
					rgot = append(rgot, fs[2]+" "+fs[3])
					var lat, bi int
					if k, _ := fmt.Sscanf(strings.Join(fs[4:], " "), "latest-at-receipt=%d event-block=%d", &lat, &bi); k == 2 && lat < bi {
						out = append(out, sched.Finding{Sig: name + ":event-received-before-latest-sync-updated", Msg: l})
					}
				}
			}
			want := []string{"pub0[1] count=1", "pub0[2] count=1"}
			if fmt.Sprint(rgot) != fmt.Sprint(want) {
				sig := ":listener-missed-or-wrong-event"
				if dup(rgot) != "" {
					sig = ":event-delivered-twice"
				} else if len(rgot) == 2 && rgot[0] == want[1] {
					sig = ":events-out-of-order"
				}
				out = append(out, sched.Finding{Sig: name + sig, Msg: fmt.Sprintf("listener registered before both syncs received %v, want %v", rgot, want)})
			}
			// the late listener: what it must have received
			var lgot []string
			for _, l := range obs {
				if strings.HasPrefix(l, "L final events=") {
					s := strings.TrimPrefix(l, "L final events=")
					s = s[:strings.LastIndex(s, " closed=")]
					s = strings.Trim(s, "[]")
					if s != "" {
						for _, part := range strings.Split(strings.ReplaceAll(s, " pub", "|pub"), "|") {
							lgot = append(lgot, part)
						}
					}
					if !strings.HasSuffix(l, "closed=true") {
						out = append(out, sched.Finding{Sig: name + ":listener-channel-not-closed-after-cancel", Msg: l})
					}
				}
			}
			if d := dup(lgot); d != "" {
				out = append(out, sched.Finding{Sig: name + ":event-delivered-twice", Msg: fmt.Sprintf("late listener got %v", lgot)})
			}
			for i, ev := range lgot {
				if ev != want[0] && ev != want[1] {
					out = append(out, sched.Finding{Sig: name + ":listener-got-unknown-event", Msg: fmt.Sprint(lgot)})
				}
				if i == 1 && lgot[0] == want[1] && lgot[1] == want[0] {
					out = append(out, sched.Finding{Sig: name + ":events-out-of-order", Msg: fmt.Sprint(lgot)})
				}
			}
			reg, can := pos("L ret register"), pos("L call cancel")
			for h := 1; h <= 2; h++ {
				call, ret := pos(fmt.Sprintf("X call sync[%d]", h)), pos(fmt.Sprintf("X ret sync[%d]", h))
				if reg >= 0 && call >= 0 && ret >= 0 && can >= 0 && reg < call && ret < can {
					found := false
					for _, ev := range lgot {
						if ev == want[h-1] {
							found = true
						}
					}
					if !found {
						out = append(out, sched.Finding{Sig: name + ":registered-listener-missed-event", Msg: fmt.Sprintf("listener registered (log %d) before sync[%d] was invoked (%d) and cancelled (%d) after it returned (%d) but received %v", reg, h, call, can, ret, lgot)})
					}
				}
			}
			return out
		},
	}
}

// N7: one thread registers a listener, syncs, registers a second listener,
// syncs again and cancels both: program order alone makes each registration
// precede the sync that follows it, so the only freedom left is the library's
// own (which goroutine runs while the thread waits, which case a select takes
// first). Small enough to complete the bound in the quick tier.
func registerThenSync() *sched.Scenario {
	name := "N7-register-then-sync"
	return &sched.Scenario{Name: name,
		Setup: func(e *sched.Exec) ([]sched.Thread, func()) {
			w := schedfx.New(e, schedfx.Options{Pubs: 1, ChainLen: 3, Prestore: true})
			p, ch := w.Pubs[0], w.Chains[0]
			var ls []*syncfx.Listener
			ths := []sched.Thread{
				{Name: "T", Fn: func() {
					for h := 1; h <= 2; h++ {
						e.Log("T call register[%d]", h)
						ls = append(ls, w.Listen())
						e.Log("T ret register[%d]", h)
						p.Publisher.SetRoot(ch.Cids[h])
						e.Log("T call sync[%d]", h)
						_, err := w.Sub.SyncAdChain(context.Background(), p.AddrInfo())
						e.Log("T ret sync[%d] err=%v", h, err)
					}
				}},
			}
			return ths, finish(e, w, func(f *final) {
				for i, l := range ls {
					evs, cl := l.StopCheck()
					var got []string
					for _, ev := range evs {
						got = append(got, w.EventStr(ev))
					}
					e.Log("listener[%d] events=%v closed=%v", i+1, got, cl)
				}
			})
		},
		Check: func(e *sched.Exec) []sched.Finding {
			out := basics(e, name, []string{"T"})
			f, _ := e.Data.(*final)
			if f == nil || len(out) > 0 {
				return out
			}
			want := map[int]string{1: "[pub0[1] count=1 pub0[2] count=1]", 2: "[pub0[2] count=1]"}
			seen := 0
			for _, l := range e.Obs() {
				var i int
				if k, _ := fmt.Sscanf(l, "listener[%d] events=", &i); k != 1 {
					continue
				}
				seen++
				rest := l[strings.Index(l, "events=")+len("events="):]
				evs := rest[:strings.LastIndex(rest, " closed=")]
				// the second listener may also receive the first sync's
				// notification: SyncAdChain returns once the notification is
				// queued for the distributor, which may forward it only after
				// the next registration; the property does not forbid that
				if i == 2 && evs == want[1] {
					continue
				}
				if evs != want[i] {
					sig := ":registered-listener-missed-event"
					if len(evs) > len(want[i]) {
						sig = ":event-delivered-twice-or-out-of-order"
					}
					out = append(out, sched.Finding{Sig: name + sig, Msg: fmt.Sprintf("listener %d, registered before sync[%d] was invoked and cancelled after all syncs returned, received %s, want %s", i, i, evs, want[i])})
				}
				if !strings.HasSuffix(l, "closed=true") {
					out = append(out, sched.Finding{Sig: name + ":listener-channel-not-closed-after-cancel", Msg: l})
				}
			}
			if seen != 2 {
				out = append(out, sched.Finding{Sig: name + ":harness", Msg: fmt.Sprintf("%d listener lines", seen)})
			}
			if fmt.Sprint(f.setup) != "[pub0[1] count=1 pub0[2] count=1]" {
				out = append(out, sched.Finding{Sig: name + ":listener-missed-or-wrong-event", Msg: fmt.Sprintf("listener registered during set-up received %v", f.setup)})
			}
			return out
		},
	}
}

// N8: an explicit sync whose caller cancels its context from inside the block
// hook (at the hook call for block `at`): whatever the sync then returns, a
// sync that reports success and moves the latest-synced value produces its
// notification, and one that reports failure produces none and moves nothing.
func callerCancelsFromHook(at int) *sched.Scenario {
	name := fmt.Sprintf("N8-caller-cancels-from-hook-at-block%d", at)
	return &sched.Scenario{Name: name,
		Setup: func(e *sched.Exec) ([]sched.Thread, func()) {
			w := schedfx.New(e, schedfx.Options{Pubs: 1, ChainLen: 3})
			p, ch := w.Pubs[0], w.Chains[0]
			p.Publisher.SetRoot(ch.Cids[2])
			ths := []sched.Thread{{Name: "T", Fn: func() {
				ctx, cancel := context.WithCancel(context.Background())
				defer cancel()
				inner := w.Hook("scoped")
				hook := func(pid peer.ID, c cid.Cid, act dagsync.SegmentSyncActions) {
					inner(pid, c, act)
					if c.Equals(ch.Cids[at]) {
						cancel()
					}
				}
				e.Log("T call sync")
				_, err := w.Sub.SyncAdChain(ctx, p.AddrInfo(), dagsync.ScopedBlockHook(hook))
				e.Log("T ret sync ok=%v latest=%d", err == nil, w.Latest(0))
			}}}
			return ths, finish(e, w, nil)
		},
		Check: func(e *sched.Exec) []sched.Finding {
			out := basics(e, name, []string{"T"})
			f, _ := e.Data.(*final)
			if f == nil || len(out) > 0 {
				return out
			}
			for _, l := range e.Obs() {
				if !strings.HasPrefix(l, "T ret sync ") {
					continue
				}
				ok := strings.Contains(l, "ok=true")
				moved := !strings.HasSuffix(l, "latest=0")
				switch {
				case ok && moved && fmt.Sprint(f.setup) != "[pub0[2] count=2]":
					out = append(out, sched.Finding{Sig: name + ":completed-sync-without-its-notification", Msg: fmt.Sprintf("%s; the listener received %v", l, f.setup)})
				case !ok && (moved || len(f.setup) != 0):
					out = append(out, sched.Finding{Sig: name + ":failed-explicit-sync-left-traces", Msg: fmt.Sprintf("%s; the listener received %v", l, f.setup)})
				case ok && !moved:
					out = append(out, sched.Finding{Sig: name + ":success-without-latest-sync", Msg: l})
				}
				e.Class = fmt.Sprintf("ok=%v", ok)
			}
			return out
		},
	}
}

// N9: an ad-chain sync and an entries sync of the same publisher, started by
// two threads: the ad-chain sync's notification carries the number of blocks
// of that sync (the entries sync produces no notification and must not take
// part in the count).
func adChainAndEntriesSync() *sched.Scenario {
	return adChainAndEntriesSyncOf("N9-ad-chain-sync-and-entries-sync-of-one-publisher")
}

// N10: the same on a subscriber that syncs in segments of one advertisement
// (SegmentDepthLimit(1)): the count is that of the whole sync, not of a segment.
func adChainAndEntriesSyncSegmented() *sched.Scenario {
	return adChainAndEntriesSyncOf("N10-segmented-ad-chain-sync-and-entries-sync-of-one-publisher", dagsync.SegmentDepthLimit(1))
}

// N11: the same with the one-chunk entry point (SyncOneEntry) on a publisher
// that has no handler (it was removed, as after idle expiry): still one sync
// at a time, and the count is the ad-chain sync's own.
func adChainAndOneEntrySyncHandlerless() *sched.Scenario {
	oneEntryHandlerless = true
	sc := adChainAndEntriesSyncOf("N11-ad-chain-sync-and-one-entry-sync-of-a-handlerless-publisher")
	oneEntryHandlerless = false
	return sc
}

// oneEntryHandlerless is read when a scenario is built (not when it runs).
var oneEntryHandlerless bool

func adChainAndEntriesSyncOf(name string, so ...dagsync.Option) *sched.Scenario {
	oneEntry := oneEntryHandlerless
	wantEntries := 2
	if oneEntry {
		wantEntries = 1
	}
	return &sched.Scenario{Name: name,
		Setup: func(e *sched.Exec) ([]sched.Thread, func()) {
			w := schedfx.New(e, schedfx.Options{Pubs: 1, ChainLen: 3, SubOpts: so})
			p, ch := w.Pubs[0], w.Chains[0]
			ech := syncfx.BuildEntryChain(p.Src, 2, syncfx.DefaultProto, "pub0-entries")
			p.Publisher.SetRoot(ch.Cids[2])
			if oneEntry {
				w.Sub.RemoveHandler(p.Ident.ID)
			}
			ths := []sched.Thread{
				{Name: "X", Fn: func() {
					e.Log("X call sync")
					_, err := w.Sub.SyncAdChain(context.Background(), p.AddrInfo())
					e.Log("X ret sync err=%v", err)
				}},
				{Name: "E", Fn: func() {
					e.Log("E call entries-sync")
					var err error
					if oneEntry {
						err = w.Sub.SyncOneEntry(context.Background(), p.AddrInfo(), ech.Head())
					} else {
						err = w.Sub.SyncEntries(context.Background(), p.AddrInfo(), ech.Head())
					}
					e.Log("E ret entries-sync err=%v", err)
				}},
			}
			if oneEntry {
				// the entries sync first: it is the first contact with the
				// publisher since its handler went
				ths[0], ths[1] = ths[1], ths[0]
			}
			return ths, finish(e, w, nil)
		},
		Check: func(e *sched.Exec) []sched.Finding {
			out := basics(e, name, []string{"X", "E"})
			f, _ := e.Data.(*final)
			if f == nil || len(out) > 0 {
				return out
			}
			ads, entries := 0, 0
			for _, l := range e.Obs() {
				switch {
				case strings.HasPrefix(l, "hook general pub0 "):
					ads++
				case strings.HasPrefix(l, "hook general pub-1 "):
					entries++
				case (strings.HasPrefix(l, "X ret ") || strings.HasPrefix(l, "E ret ")) && !strings.HasSuffix(l, "err=<nil>"):
					out = append(out, sched.Finding{Sig: name + ":sync-failed", Msg: l})
				}
			}
			if len(out) > 0 {
				return out
			}
			if fmt.Sprint(f.setup) != "[pub0[2] count=2]" {
				out = append(out, sched.Finding{Sig: name + ":notification-with-wrong-count-or-missing", Msg: fmt.Sprintf("the listener received %v, want [pub0[2] count=2] (block hook saw %d advertisements and %d entry chunks)", f.setup, ads, entries)})
			}
			if ads != 2 || entries != wantEntries {
				out = append(out, sched.Finding{Sig: name + ":blocks-not-reported", Msg: fmt.Sprintf("block hook saw %d advertisements and %d entry chunks, want 2 and %d", ads, entries, wantEntries)})
			}
			return out
		},
	}
}

// N12: a subscriber that learns latest-synced values from the application
// (WithLastKnownSync), where the application records what its block hook has
// seen, so that by the end of a sync the callback already names the head: the
// sync is still announced to the listeners, once, with its count.
func lastKnownCallbackCatchesUp() *sched.Scenario {
	name := "N12-last-known-sync-callback-names-the-head-by-the-end-of-the-sync"
	return &sched.Scenario{Name: name,
		Setup: func(e *sched.Exec) ([]sched.Thread, func()) {
			var mu sync.Mutex
			var newest cid.Cid
			so := []dagsync.Option{dagsync.WithLastKnownSync(func(peer.ID) (cid.Cid, bool) {
				mu.Lock()
				defer mu.Unlock()
				return newest, newest.Defined()
			})}
			w := schedfx.New(e, schedfx.Options{Pubs: 1, ChainLen: 3, SubOpts: so})
			p, ch := w.Pubs[0], w.Chains[0]
			mu.Lock()
			newest = ch.Cids[0]
			mu.Unlock()
			gate := w.HookGate
			w.HookGate = func(h syncfx.HookCall) {
				// the application's own bookkeeping: the newest advertisement of
				// the chain it has been handed
				mu.Lock()
				if ch.Index(h.Cid) > ch.Index(newest) {
					newest = h.Cid
				}
				mu.Unlock()
				if gate != nil {
					gate(h)
				}
			}
			p.Publisher.SetRoot(ch.Cids[2])
			return []sched.Thread{{Name: "X", Fn: func() {
				e.Log("X call sync")
				_, err := w.Sub.SyncAdChain(context.Background(), p.AddrInfo())
				e.Log("X ret sync err=%v", err)
			}}}, finish(e, w, nil)
		},
		Check: func(e *sched.Exec) []sched.Finding {
			out := basics(e, name, []string{"X"})
			f, _ := e.Data.(*final)
			if f == nil || len(out) > 0 {
				return out
			}
			for _, l := range e.Obs() {
				if strings.HasPrefix(l, "X ret ") && !strings.HasSuffix(l, "err=<nil>") {
					return append(out, sched.Finding{Sig: name + ":sync-failed", Msg: l})
				}
			}
			if fmt.Sprint(f.setup) != "[pub0[2] count=2]" {
				out = append(out, sched.Finding{Sig: name + ":notification-with-wrong-count-or-missing", Msg: fmt.Sprintf("the listener received %v, want [pub0[2] count=2]", f.setup)})
			}
			return out
		},
	}
}

// N3: an announce-triggered sync that fails: exactly one notification, with the error.
func failingAnnounce() *sched.Scenario {
	name := "N3-failing-announce-sync"
	return &sched.Scenario{Name: name,
		Setup: func(e *sched.Exec) ([]sched.Thread, func()) {
			w := schedfx.New(e, schedfx.Options{Pubs: 1, ChainLen: 3, Announce: true})
			w.FailReq["0|1|0"] = true
			p, ch := w.Pubs[0], w.Chains[0]
			second := w.Listen()
			return []sched.Thread{{Name: "A", Fn: func() {
					e.Log("A call Announce")
					err := w.Sub.Announce(context.Background(), ch.Cids[2], p.AddrInfo())
					e.Log("A ret Announce err=%v", err)
				}}}, finish(e, w, func(f *final) {
					evs, cl := second.StopCheck()
					var l []string
					for _, ev := range evs {
						l = append(l, w.EventStr(ev))
					}
					e.Log("second-listener events=%v closed=%v", l, cl)
				})
		},
		Check: func(e *sched.Exec) []sched.Finding {
			out := basics(e, name, []string{"A"})
			f, _ := e.Data.(*final)
			if f == nil || len(out) > 0 {
				return out
			}
			want := "[pub0[2] count=0 err]"
			if fmt.Sprint(f.setup) != want {
				out = append(out, sched.Finding{Sig: name + ":failed-sync-not-exactly-one-error-event", Msg: fmt.Sprintf("first listener got %v, want %s", f.setup, want)})
			}
			for _, l := range e.Obs() {
				if strings.HasPrefix(l, "second-listener ") && !strings.Contains(l, "events="+want) {
					out = append(out, sched.Finding{Sig: name + ":failed-sync-not-exactly-one-error-event", Msg: l})
				}
			}
			if f.latest[0] != 0 {
				out = append(out, sched.Finding{Sig: name + ":latest-changed-by-failed-sync", Msg: fmt.Sprint(f.latest)})
			}
			return out
		},
	}
}

// N5: three notifications in flight. Explicit syncs of two publishers (their
// blocks are local, so they only make the head request) and an announce-
// triggered sync of the first publisher whose block request fails. The event
// channel between the syncs and the distributor holds one notification; with
// the distributor lagging, the later ones have to wait for room, not vanish:
// the listener gets each success once and exactly one error notification.
func threeInFlight() *sched.Scenario {
	name := "N5-two-syncs-and-a-failing-announce"
	return &sched.Scenario{Name: name,
		Setup: func(e *sched.Exec) ([]sched.Thread, func()) {
			w := schedfx.New(e, schedfx.Options{Pubs: 2, ChainLen: 3, Announce: true})
			// blocks 1 of both publishers are local; block 2 of publisher 0 has to be
			// requested by the announce-triggered sync, and that request fails
			for pi := range w.Pubs {
				if b, ok := w.Pubs[pi].Src.Get(w.Chains[pi].Cids[1]); ok {
					w.Dst.Put(w.Chains[pi].Cids[1], b)
				}
				w.Pubs[pi].Publisher.SetRoot(w.Chains[pi].Cids[1])
			}
			w.FailReq["0|2|0"] = true
			ths := []sched.Thread{
				{Name: "X0", Fn: func() {
					e.Log("X0 call sync")
					_, err := w.Sub.SyncAdChain(context.Background(), w.Pubs[0].AddrInfo())
					e.Log("X0 ret sync ok=%v", err == nil)
					e.Log("X0 call Announce")
					err = w.Sub.Announce(context.Background(), w.Chains[0].Cids[2], w.Pubs[0].AddrInfo())
					e.Log("X0 ret Announce err=%v", err != nil)
				}},
				{Name: "X1", Fn: func() {
					e.Log("X1 call sync")
					_, err := w.Sub.SyncAdChain(context.Background(), w.Pubs[1].AddrInfo())
					e.Log("X1 ret sync ok=%v", err == nil)
				}},
			}
			return ths, finish(e, w, nil)
		},
		Check: func(e *sched.Exec) []sched.Finding {
			out := basics(e, name, []string{"X0", "X1"})
			f, _ := e.Data.(*final)
			if f == nil || len(out) > 0 {
				return out
			}
			count := map[string]int{}
			for _, ev := range f.setup {
				count[ev]++
			}
			want := map[string]int{"pub0[1] count=1": 1, "pub1[1] count=1": 1, "pub0[2] count=0 err": 1}
			for ev, n := range want {
				if count[ev] != n {
					sig := ":success-notification-missing-or-repeated"
					if strings.HasSuffix(ev, " err") {
						sig = ":failed-sync-not-exactly-one-error-event"
					}
					out = append(out, sched.Finding{Sig: name + sig, Msg: fmt.Sprintf("listener registered before everything got %v; %q is expected exactly once", f.setup, ev)})
				}
			}
			for ev := range count {
				if want[ev] == 0 {
					out = append(out, sched.Finding{Sig: name + ":unexpected-event", Msg: fmt.Sprintf("%q in %v", ev, f.setup)})
				}
			}
			if f.latest[0] != 1 || f.latest[1] != 1 {
				out = append(out, sched.Finding{Sig: name + ":latest-wrong", Msg: fmt.Sprint(f.latest)})
			}
			e.Class = fmt.Sprintf("events=%d", len(f.setup))
			return out
		},
	}
}

// N6: two syncs of ONE publisher overlap: an announce-triggered sync of ad 1
// (reports to the general hook) and an explicit sync to the head, ad 2, with
// its own scoped hook. Each notification carries the block count of its own
// sync: the one for ad 1 as many blocks as the general hook was handed, the one
// for ad 2 as many as the scoped hook was. (How many that is depends on the
// order; an explicit sync that read its stop point before the other finished
// legitimately reports both ads: C08's recorded finding, not judged here.)
func overlappingSyncsOfOnePublisher() *sched.Scenario {
	name := "N6-overlapping-syncs-of-one-publisher"
	return &sched.Scenario{Name: name,
		Setup: func(e *sched.Exec) ([]sched.Thread, func()) {
			w := schedfx.New(e, schedfx.Options{Pubs: 1, ChainLen: 3, Announce: true, Prestore: true})
			p, ch := w.Pubs[0], w.Chains[0]
			p.Publisher.SetRoot(ch.Cids[2])
			ths := []sched.Thread{
				{Name: "A", Fn: func() {
					e.Log("A call Announce")
					err := w.Sub.Announce(context.Background(), ch.Cids[1], p.AddrInfo())
					e.Log("A ret Announce err=%v", err != nil)
				}},
				{Name: "X", Fn: func() {
					e.Log("X call sync")
					_, err := w.Sub.SyncAdChain(context.Background(), p.AddrInfo(), dagsync.ScopedBlockHook(w.Hook("scopedX")))
					e.Log("X ret sync ok=%v", err == nil)
				}},
			}
			return ths, finish(e, w, nil)
		},
		Check: func(e *sched.Exec) []sched.Finding {
			out := basics(e, name, []string{"A", "X"})
			f, _ := e.Data.(*final)
			if f == nil || len(out) > 0 {
				return out
			}
			general, scoped := 0, 0
			for _, l := range e.Obs() {
				if strings.HasPrefix(l, "hook general pub0 ") {
					general++
				}
				if strings.HasPrefix(l, "hook scopedX pub0 ") {
					scoped++
				}
			}
			var c1, c2 = -1, -1
			for _, ev := range f.setup {
				var bi, cnt int
				if k, _ := fmt.Sscanf(ev, "pub0[%d] count=%d", &bi, &cnt); k == 2 && !strings.HasSuffix(ev, " err") {
					if bi == 1 {
						c1 = cnt
					}
					if bi == 2 {
						c2 = cnt
					}
				}
			}
			// a sync that completed and advanced the latest-synced advertisement
			// covered at least the advertisement it is named after
			for _, c := range []int{c1, c2} {
				if c == 0 {
					out = append(out, sched.Finding{Sig: name + ":successful-sync-reported-with-zero-blocks", Msg: fmt.Sprintf("events %v (general hook handed %d blocks, scoped hook %d)", f.setup, general, scoped)})
					break
				}
			}
			if c2 >= 0 && c2 != scoped {
				out = append(out, sched.Finding{Sig: name + ":count-is-not-the-block-count-of-that-sync", Msg: fmt.Sprintf("the notification of the explicit sync (ad 2) says count=%d, its own hook was handed %d blocks (general hook: %d); events %v", c2, scoped, general, f.setup)})
			}
			if c1 >= 0 && c1 != general {
				out = append(out, sched.Finding{Sig: name + ":count-is-not-the-block-count-of-that-sync", Msg: fmt.Sprintf("the notification of the announce-triggered sync (ad 1) says count=%d, the general hook was handed %d blocks (scoped hook: %d); events %v", c1, general, scoped, f.setup)})
			}
			e.Class = fmt.Sprintf("events=%v general=%d scoped=%d", f.setup, general, scoped)
			return out
		},
	}
}

// N4: a sync (explicit or announce-triggered) races with Close. A listener is
// registered before everything and read only at the end. Whatever the
// schedule, a sync that updated the latest-synced advertisement has produced
// its notification, and the listener finds it in its channel before the
// channel is closed; a sync refused or cancelled by the shutdown changes nothing.
func syncVsClose(mode string) *sched.Scenario {
	name := "N4-" + mode + "-sync-vs-close"
	return &sched.Scenario{Name: name,
		Setup: func(e *sched.Exec) ([]sched.Thread, func()) {
			w := schedfx.New(e, schedfx.Options{Pubs: 1, ChainLen: 2, Prestore: true, Announce: mode == "announce"})
			p, ch := w.Pubs[0], w.Chains[0]
			p.Publisher.SetRoot(ch.Cids[1])
			ths := []sched.Thread{
				{Name: "X", Fn: func() {
					if mode == "announce" {
						e.Log("X call Announce")
						err := w.Sub.Announce(context.Background(), ch.Cids[1], p.AddrInfo())
						e.Log("X ret Announce err=%v", err != nil)
						return
					}
					e.Log("X call sync")
					_, err := w.Sub.SyncAdChain(context.Background(), p.AddrInfo())
					e.Log("X ret sync ok=%v", err == nil)
				}},
				{Name: "C", Fn: func() {
					e.Log("C call Close")
					err := w.Sub.Close()
					e.Log("C ret Close err=%v", err)
				}},
			}
			return ths, finish(e, w, nil)
		},
		Check: func(e *sched.Exec) []sched.Finding {
			out := basics(e, name, []string{"X", "C"})
			f, _ := e.Data.(*final)
			if f == nil || len(out) > 0 {
				return out
			}
			okRet := false
			for _, l := range e.Obs() {
				if l == "X ret sync ok=true" {
					okRet = true
				}
			}
			want := "pub0[1] count=1"
			e.Class = fmt.Sprintf("latest=%d events=%v", f.latest[0], f.setup)
			switch {
			case len(f.setup) > 1 || (len(f.setup) == 1 && f.setup[0] != want && f.setup[0] != "pub0[1] count=0 err"):
				out = append(out, sched.Finding{Sig: name + ":unexpected-events", Msg: fmt.Sprintf("listener got %v", f.setup)})
			case f.latest[0] == 1 && fmt.Sprint(f.setup) != "["+want+"]":
				out = append(out, sched.Finding{Sig: name + ":latest-updated-without-notification", Msg: fmt.Sprintf("latest-synced advanced to block 1 but the listener registered before the sync received %v before its channel closed", f.setup)})
			case okRet && fmt.Sprint(f.setup) != "["+want+"]":
				out = append(out, sched.Finding{Sig: name + ":successful-sync-without-notification", Msg: fmt.Sprintf("the sync returned without error but the listener received %v", f.setup)})
			case f.latest[0] != 1 && len(f.setup) == 1 && f.setup[0] == want:
				out = append(out, sched.Finding{Sig: name + ":notification-without-latest-update", Msg: fmt.Sprintf("latest=%v events=%v", f.latest, f.setup)})
			}
			if !f.closed {
				out = append(out, sched.Finding{Sig: name + ":listener-channel-not-closed-by-close", Msg: fmt.Sprintf("events=%v", f.setup)})
			}
			return out
		},
	}
}

// longStall: one listener that never reads, one that reads, and n sequential
// syncs of one new advertisement each (no scheduler: one thing happens at a
// time, quiescence in the bubble decides "returned" and "delivered"). "Never
// delays" has no bound in it; n is chosen well beyond the sizes buffers tend to
// have (1, 16, 32, 64, 128).
func longStall(t *testing.T, r *vp.Recorder, n int) {
	key := fmt.Sprintf("long-stall|%d", n)
	if !r.Mine(key) {
		return
	}
	var bad, sig string
	leak := syncfx.Bubble(t, func(t *testing.T) {
		w := syncfx.NewWorld()
		id := fixture.Key("ed25519", 0)
		p := w.AddPub(id, true)
		ch := syncfx.BuildAdChain(p.Src, id, n+1, syncfx.DefaultProto, "long")
		sub := w.NewSubscriber()
		stalled, reader := w.Listen(), w.Listen()
		defer func() {
			if bad != "" {
				// something is stuck: do not call into the subscriber again
				if ps := sub.HttpPeerStore(); ps != nil {
					ps.Close()
				}
				w.CloseRest()
				return
			}
			stalled.Stop()
			reader.Stop()
			w.Close()
		}()
		for h := 1; h <= n; h++ {
			r.EvalN(key, 1, true)
			p.Publisher.SetRoot(ch.Cids[h])
			done := make(chan error, 1)
			go func() {
				_, err := sub.SyncAdChain(context.Background(), p.AddrInfo())
				done <- err
			}()
			synctest.Wait()
			select {
			case err := <-done:
				if err != nil {
					bad, sig = fmt.Sprintf("sync %d failed: %v", h, err), "long-stall:sync-error"
					return
				}
			default:
				bad, sig = fmt.Sprintf("sync %d does not return while a listener that never reads has %d unread notifications", h, h-1), "long-stall:stalled-listener-delays-syncs"
				return
			}
			evs := reader.Poll()
			wantCount := 1
			if h == 1 {
				wantCount = 2 // nothing was synced before: the first sync covers ads 1 and 0
			}
			if len(evs) != 1 || !evs[0].Cid.Equals(ch.Cids[h]) || evs[0].Count != wantCount {
				bad, sig = fmt.Sprintf("after sync %d the reading listener got %d notifications (%v) while the other listener has %d unread ones", h, len(evs), evs, h), "long-stall:stalled-listener-delays-other-listeners"
				return
			}
		}
		// the stalled listener finally reads: everything, once, in order
		evs, closed := stalled.StopCheck()
		if len(evs) != n || !closed {
			bad, sig = fmt.Sprintf("the stalled listener finally got %d of %d notifications (channel closed: %v)", len(evs), n, closed), "long-stall:backlog-lost"
			return
		}
		for i, ev := range evs {
			if !ev.Cid.Equals(ch.Cids[i+1]) {
				bad, sig = fmt.Sprintf("backlog out of order at position %d", i), "long-stall:backlog-order"
				return
			}
		}
	})
	if bad != "" {
		r.Violation(sig, key, bad, nil)
	} else if leak != "" {
		r.Note("long-stall: goroutines left in the bubble: %s", firstLine(leak))
	}
	r.Outcome("long-stall-done")
}

func TestCheck(t *testing.T) {
	r := vp.New("C14", "model_checking",
		"scenarios on the real subscriber built with the instrumentation overlay (gated in-memory publishers, chains of 3 signed ads): N1 two publishers synced by two threads with a reading and a never-reading listener; N2 two successive explicit syncs of one publisher while a listener registers and cancels at scheduler-chosen moments and a reader polls (checking the latest-synced value at the moment each event arrives); N3 an announce-triggered sync with a failing block request; N4 an explicit / an announce-triggered sync racing with Close while a listener registered beforehand reads only at the end; N5 explicit syncs of two publishers and a failing announce-triggered sync (three notifications in flight); N6 an announce-triggered and an explicit sync (own scoped hook) of one publisher overlapping, each notification's count compared with the hook calls of its own sync; N9 an ad-chain sync and an entries sync of one publisher by two threads (the notification's count is that of the ad-chain sync); N10 the same on a subscriber that syncs in segments of one advertisement; N11 a SyncOneEntry of a publisher whose handler was removed overlapping an ad-chain sync of that publisher; N12 an explicit sync on a subscriber with a WithLastKnownSync callback that names the head by the time the sync ends; N8 an explicit sync whose caller cancels its context from inside the block hook (at the newest / at the oldest block); N7 one thread registering a listener, syncing, registering a second one, syncing again (registration precedes the sync by program order). Outside the scheduler: one listener that never reads and one that does, 150 (thorough 600) sequential syncs, each of which must return and reach the reader, and the backlog must arrive complete and in order in the end. All interleavings at the scheduling points (locks, atomics, channel operations of OnSyncFinished / cancel / the distributor, selects, spawns, requests, hook calls, observations) up to the preemption bound. states = distinct decision states; transitions = scheduling steps; traces = executions of the real code.",
		"cooperative scheduling at synchronization operations; every multi-case select is a priority select whose first-tried case is a scheduler decision (a non-default first case costs one unit of the bound, like a preemption); at most 3 listeners and 2 publishers",
		"in N1 and N2 the chain blocks are already in the destination store (they are reported but not requested), so each sync makes only the head request",
		"'registered before the sync finished' is judged by real-time order in the observation log: registration returned before the sync was invoked, cancel invoked after it returned",
	)
	defer func() {
		if err := r.Finish(); err != nil {
			t.Fatal(err)
		}
	}()
	bound := 2
	if vp.Thorough() {
		bound = 3
	}
	scs := []*sched.Scenario{registerThenSync(), callerCancelsFromHook(1), callerCancelsFromHook(2), adChainAndEntriesSync(), adChainAndEntriesSyncSegmented(), adChainAndOneEntrySyncHandlerless(), lastKnownCallbackCatchesUp(), syncVsClose("explicit"), syncVsClose("announce"), overlappingSyncsOfOnePublisher(), threeInFlight(), twoPublishers(), registerDuringSyncs(), failingAnnounce()}
	r.Bounds(map[string]any{"preemption_bound": bound, "scenarios": len(scs)})
	budget := 0.0
	if v := os.Getenv("VERIF_BUDGET_S"); v != "" {
		fmt.Sscanf(v, "%g", &budget)
	}
	start := time.Now()
	for i, sc := range scs {
		x := &sched.Explorer{T: t, R: r, Sc: sc, Bound: bound}
		if budget > 0 && !r.Replaying() {
			left := budget*0.95 - time.Since(start).Seconds()
			share := left / float64(len(scs)-i)
			if share < 1 {
				share = 1
			}
			x.Deadline = time.Now().Add(time.Duration(share * float64(time.Second)))
		}
		done := x.Explore()
		if !r.Replaying() && done < bound {
			r.NotExhaustive(fmt.Sprintf("%s: time share used up after completing preemption bound %d of %d", sc.Name, done, bound))
		}
	}
	if !r.Replaying() || strings.HasPrefix(r.ReplayKey(), "long-stall|") {
		n := 150
		if vp.Thorough() {
			n = 600
		}
		longStall(t, r, n)
	}
	t.Logf("violations: %d", r.Violations())
	_ = dagsync.SyncFinished{}
}
