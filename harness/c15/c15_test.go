// C15: subscriber shutdown is clean, idempotent and final. Stateless model
// checking of small scenarios around Subscriber.Close on the real subscriber
// (instrumented dagsync/announce/ipnisync, gated in-memory publishers).
package c15

import (
	"bytes"
	"context"
	"fmt"
	"os"
	"strings"
	"testing"
	"time"

	"github.com/ipfs/go-cid"
	"github.com/ipni/go-libipni/announce/message"
	"github.com/ipni/go-libipni/dagsync"
	"github.com/ipni/go-libipni/verifshim/vsched"
	pubsub "github.com/libp2p/go-libp2p-pubsub"
	"github.com/libp2p/go-libp2p/core/peer"

	"verifharness/sched"
	"verifharness/schedfx"
	"verifharness/syncfx"
	"verifharness/vp"
)

func firstLine(s string) string {
	if i := strings.IndexByte(s, '\n'); i >= 0 {
		return s[:i]
	}
	return s
}

type final struct {
	lstClosed bool
	events    []string
}

func finish(e *sched.Exec, w *schedfx.World) func() {
	return func() {
		f := &final{}
		e.Guarded("cancel and drain of the listener", func() {
			evs, closed := w.Lst.StopCheck()
			for _, ev := range evs {
				f.events = append(f.events, w.EventStr(ev))
			}
			f.lstClosed = closed
		})
		e.Data = f
		w.CloseGuarded()
	}
}

// common: panics, blocked calls, "after the first Close returned nothing
// happens", listener channel closed, no library goroutine left.
func common(e *sched.Exec, name string, mustFinish []string) []sched.Finding {
	var out []sched.Finding
	for _, p := range e.Panics {
		out = append(out, sched.Finding{Sig: name + ":panic", Msg: firstLine(p)})
	}
	obs := e.Obs()
	open := map[string]string{}
	for _, l := range obs {
		f := strings.SplitN(l, " ", 3)
		if len(f) < 3 {
			continue
		}
		switch f[1] {
		case "call":
			open[f[0]] = f[2]
		case "ret":
			delete(open, f[0])
		}
	}
	for _, th := range mustFinish {
		if at, bad := e.Unfinished[th]; bad {
			call := open[th]
			if call == "" {
				call = "(between-calls)"
			}
			out = append(out, sched.Finding{Sig: name + ":call-never-returns:" + strings.Fields(call)[0], Msg: fmt.Sprintf("thread %s is blocked in %s (parked at %q; deadlocked %v)", th, call, at, e.Deadlocked)})
		}
	}
	closeRet := -1
	for i, l := range obs {
		if strings.Contains(l, " ret Close") {
			closeRet = i
			break
		}
	}
	if closeRet >= 0 {
		for _, l := range obs[closeRet+1:] {
			// what the property names: block-hook calls and store writes (events
			// are judged separately). A test server finishing a request that the
			// cancelled client no longer waits for is not subscriber activity.
			if strings.HasPrefix(l, "hook ") || strings.HasPrefix(l, "store-write ") {
				out = append(out, sched.Finding{Sig: name + ":activity-after-close-returned", Msg: fmt.Sprintf("%q happens after Close returned", l)})
				break
			}
		}
	}
	for _, what := range e.CleanupHung {
		if len(out) == 0 {
			out = append(out, sched.Finding{Sig: name + ":later-call-never-returns", Msg: "after the explored part: " + what + " never returns"})
		}
	}
	if f, ok := e.Data.(*final); ok && !f.lstClosed && len(e.CleanupHung) == 0 {
		out = append(out, sched.Finding{Sig: name + ":listener-channel-not-closed", Msg: "a listener registered before Close still has an open channel after Close and cancel"})
	}
	if len(e.Leaked) > 0 && len(out) == 0 {
		out = append(out, sched.Finding{Sig: name + ":goroutine-remains", Msg: firstLine(e.Leaked[0]) + " ... " + libFrame(e.Leaked[0])})
	}
	// goroutines without a frame of the library (a queue goroutine of a
	// listener, for instance) show when the bubble ends: everything in it has
	// been shut down by then, so whatever is still blocked was left behind
	if e.Leak != "" && len(out) == 0 {
		out = append(out, sched.Finding{Sig: name + ":goroutine-remains-blocked-at-the-end", Msg: firstLine(e.Leak)})
	}
	return out
}

func libFrame(g string) string {
	for _, l := range strings.Split(g, "\n") {
		if strings.Contains(l, "go-libipni/") && !strings.HasPrefix(strings.TrimSpace(l), "/") {
			return strings.TrimSpace(l)
		}
	}
	return ""
}

func closeThread(e *sched.Exec, w *schedfx.World, name string) sched.Thread {
	return sched.Thread{Name: name, Fn: func() {
		e.Log("%s call Close", name)
		err := w.Sub.Close()
		e.Log("%s ret Close err=%v", name, err)
	}}
}

// K1: explicit sync || Close (one or two callers)
func explicitVsClose(nClose int) *sched.Scenario { return explicitVsCloseSeg(nClose, 0) }

// explicitVsCloseSeg: with seg > 0 the explicit sync is a segmented one (the
// traversal is cut into segments of seg advertisements, the block hook naming
// the start of the next): letting a running sync finish means all segments.
// K15: K1 on a subscriber that learns the publisher's latest-synced
// advertisement from the application (WithLastKnownSync; the callback is a
// scheduling point, as a datastore lookup would be, and nothing was recorded
// by the subscriber itself): the sync that got going still stops where the
// application said, and no goroutine of the subscriber is left in the callback.
func explicitVsCloseLastKnown() *sched.Scenario {
	lastKnownCallback = true
	sc := explicitVsCloseSeg(1, 0)
	lastKnownCallback = false
	return sc
}

// lastKnownCallback is read when a scenario is built.
var lastKnownCallback bool

func explicitVsCloseSeg(nClose int, seg int64) *sched.Scenario {
	name := fmt.Sprintf("K1-explicit-sync-vs-%dclose", nClose)
	withLastKnown := lastKnownCallback
	if withLastKnown {
		name = "K15-explicit-sync-with-last-known-sync-callback-vs-close"
	}
	var so []dagsync.Option
	if seg > 0 {
		name = fmt.Sprintf("K11-segmented(%d)-explicit-sync-vs-%dclose", seg, nClose)
		so = append(so, dagsync.SegmentDepthLimit(seg))
	}
	return &sched.Scenario{Name: name,
		Setup: func(e *sched.Exec) ([]sched.Thread, func()) {
			opts := schedfx.Options{Pubs: 1, ChainLen: 3, Announce: true, SubOpts: so}
			var oldest cid.Cid
			if withLastKnown {
				opts.NoLatest = true
				opts.SubOpts = append(append([]dagsync.Option{}, so...), dagsync.WithLastKnownSync(func(peer.ID) (cid.Cid, bool) {
					vsched.Point("last-known-sync lookup")
					return oldest, oldest.Defined()
				}))
			}
			w := schedfx.New(e, opts)
			p, ch := w.Pubs[0], w.Chains[0]
			oldest = ch.Cids[0]
			p.Publisher.SetRoot(ch.Cids[2])
			ths := []sched.Thread{{Name: "E", Fn: func() {
				e.Log("E call SyncAdChain")
				_, err := w.Sub.SyncAdChain(context.Background(), p.AddrInfo())
				res := "ok"
				if err != nil {
					res = "err:" + err.Error()
				}
				e.Log("E ret SyncAdChain %s", res)
			}}}
			for i := 0; i < nClose; i++ {
				ths = append(ths, closeThread(e, w, fmt.Sprintf("C%d", i+1)))
			}
			return ths, finish(e, w)
		},
		Check: func(e *sched.Exec) []sched.Finding {
			must := []string{"E"}
			for i := 0; i < nClose; i++ {
				must = append(must, fmt.Sprintf("C%d", i+1))
			}
			out := common(e, name, must)
			for _, l := range e.Obs() {
				if strings.HasPrefix(l, "E ret SyncAdChain ") {
					res := strings.TrimPrefix(l, "E ret SyncAdChain ")
					// a sync that got going finishes; one that came too late is refused
					if res != "ok" && res != "err:shutdown" {
						out = append(out, sched.Finding{Sig: name + ":running-explicit-sync-did-not-finish", Msg: "explicit sync ended with " + res})
					}
					// and "finished" means the whole requested segment of the
					// chain (head 2 down to, excluding, the synced ad 0)
					if res == "ok" {
						var hooks []string
						for _, o := range e.Obs() {
							if strings.HasPrefix(o, "hook general pub0 ") {
								hooks = append(hooks, strings.TrimPrefix(o, "hook general pub0 "))
							}
						}
						if fmt.Sprint(hooks) != "[block[2] block[1]]" {
							out = append(out, sched.Finding{Sig: name + ":explicit-sync-reported-success-without-finishing", Msg: fmt.Sprintf("SyncAdChain returned success but the block hook saw %v, want [block[2] block[1]]", hooks)})
						}
					}
				}
			}
			return out
		},
	}
}

// K7: explicit syncs of two publishers || Close. Each sync that finishes
// produces a notification; the shutdown sequence has to keep whatever consumes
// them alive until the syncs it waits for have ended.
func twoExplicitVsClose() *sched.Scenario {
	name := "K7-two-publishers-explicit-syncs-vs-close"
	return &sched.Scenario{Name: name,
		Setup: func(e *sched.Exec) ([]sched.Thread, func()) {
			w := schedfx.New(e, schedfx.Options{Pubs: 2, ChainLen: 2, Announce: true, Prestore: true})
			var ths []sched.Thread
			for pi := range w.Pubs {
				pi := pi
				p, ch := w.Pubs[pi], w.Chains[pi]
				p.Publisher.SetRoot(ch.Cids[1])
				tn := fmt.Sprintf("E%d", pi)
				ths = append(ths, sched.Thread{Name: tn, Fn: func() {
					e.Log("%s call SyncAdChain", tn)
					_, err := w.Sub.SyncAdChain(context.Background(), p.AddrInfo())
					res := "ok"
					if err != nil {
						res = "err:" + err.Error()
					}
					e.Log("%s ret SyncAdChain %s", tn, res)
				}})
			}
			ths = append(ths, closeThread(e, w, "C1"))
			return ths, finish(e, w)
		},
		Check: func(e *sched.Exec) []sched.Finding {
			out := common(e, name, []string{"E0", "E1", "C1"})
			nok := 0
			for _, l := range e.Obs() {
				if i := strings.Index(l, " ret SyncAdChain "); i >= 0 {
					res := l[i+len(" ret SyncAdChain "):]
					if res == "ok" {
						nok++
					}
					if res != "ok" && res != "err:shutdown" {
						out = append(out, sched.Finding{Sig: name + ":running-explicit-sync-did-not-finish", Msg: l})
					}
				}
			}
			e.Class = fmt.Sprintf("syncs-completed=%d", nok)
			return out
		},
	}
}

// K12: two explicit syncs of ONE publisher (the second waits for the first:
// syncs of a publisher take turns) || Close. A sync that was accepted finishes,
// also when it was still waiting for its turn when Close started.
func twoExplicitOfOnePublisherVsClose() *sched.Scenario {
	name := "K12-two-explicit-syncs-of-one-publisher-vs-close"
	return &sched.Scenario{Name: name,
		Setup: func(e *sched.Exec) ([]sched.Thread, func()) {
			w := schedfx.New(e, schedfx.Options{Pubs: 1, ChainLen: 3, Announce: true})
			p, ch := w.Pubs[0], w.Chains[0]
			p.Publisher.SetRoot(ch.Cids[2])
			var ths []sched.Thread
			for i, head := range []int{1, 2} {
				tn := fmt.Sprintf("E%d", i)
				ths = append(ths, sched.Thread{Name: tn, Fn: func() {
					e.Log("%s call SyncAdChain", tn)
					_, err := w.Sub.SyncAdChain(context.Background(), p.AddrInfo(), dagsync.WithHeadAdCid(ch.Cids[head]))
					res := "ok"
					if err != nil {
						res = "err:" + err.Error()
					}
					e.Log("%s ret SyncAdChain %s", tn, res)
				}})
			}
			ths = append(ths, closeThread(e, w, "C1"))
			return ths, finish(e, w)
		},
		Check: func(e *sched.Exec) []sched.Finding {
			out := common(e, name, []string{"E0", "E1", "C1"})
			nok := 0
			for _, l := range e.Obs() {
				if i := strings.Index(l, " ret SyncAdChain "); i >= 0 {
					res := l[i+len(" ret SyncAdChain "):]
					if res == "ok" {
						nok++
					}
					// refused at the door ("shutdown") or finished; anything else
					// is a sync that had been let in and was not allowed to finish
					if res != "ok" && res != "err:shutdown" {
						out = append(out, sched.Finding{Sig: name + ":running-explicit-sync-did-not-finish", Msg: l})
					}
				}
			}
			e.Class = fmt.Sprintf("syncs-completed=%d", nok)
			return out
		},
	}
}

// K8: announce-triggered syncs of two publishers under a limit of one at a time
// || Close: one sync holds the only slot (its block request is a scheduling
// point), the other waits for it when Close cancels. Whatever the order, Close
// returns and nothing the subscriber started is left behind.
func limitedAnnouncesVsClose() *sched.Scenario {
	name := "K8-two-publishers-limit1-announces-vs-close"
	return &sched.Scenario{Name: name,
		Setup: func(e *sched.Exec) ([]sched.Thread, func()) {
			w := schedfx.New(e, schedfx.Options{Pubs: 2, ChainLen: 2, Announce: true, SubOpts: []dagsync.Option{dagsync.MaxAsyncConcurrency(1)}})
			var ths []sched.Thread
			for pi := range w.Pubs {
				pi := pi
				tn := fmt.Sprintf("A%d", pi)
				ths = append(ths, sched.Thread{Name: tn, Fn: func() {
					e.Log("%s call Announce", tn)
					err := w.Sub.Announce(context.Background(), w.Chains[pi].Cids[1], w.Pubs[pi].AddrInfo())
					e.Log("%s ret Announce err=%v", tn, err)
				}})
			}
			ths = append(ths, closeThread(e, w, "C1"))
			return ths, finish(e, w)
		},
		Check: func(e *sched.Exec) []sched.Finding {
			out := common(e, name, []string{"A0", "A1", "C1"})
			e.Class = fmt.Sprintf("leaked=%d", len(e.Leaked))
			return out
		},
	}
}

// K9: an explicit sync whose block hook itself makes a further API call (an
// explicit sync of another publisher; indexers start entries syncs from the
// advertisement hook in just this way) || Close. The nested call proceeds or is
// refused with the shutdown error, depending on when Close flipped the switch;
// in no order may Close, the outer sync and the nested call wait for each other.
func nestedSyncVsClose() *sched.Scenario {
	name := "K9-sync-with-nested-sync-from-its-hook-vs-close"
	return &sched.Scenario{Name: name,
		Setup: func(e *sched.Exec) ([]sched.Thread, func()) {
			w := schedfx.New(e, schedfx.Options{Pubs: 2, ChainLen: 2, Announce: true, Prestore: true})
			for pi := range w.Pubs {
				w.Pubs[pi].Publisher.SetRoot(w.Chains[pi].Cids[1])
			}
			logHook := w.HookGate
			nested := false
			w.HookGate = func(h syncfx.HookCall) {
				logHook(h)
				if pi, bi := w.Locate(h.Cid); pi == 0 && bi == 1 && !nested {
					nested = true
					e.Log("E call nested-SyncAdChain")
					_, err := w.Sub.SyncAdChain(context.Background(), w.Pubs[1].AddrInfo())
					res := "ok"
					if err != nil {
						res = "err:" + err.Error()
					}
					e.Log("E ret nested-SyncAdChain %s", res)
				}
			}
			return []sched.Thread{
				{Name: "E", Fn: func() {
					e.Log("E call SyncAdChain")
					_, err := w.Sub.SyncAdChain(context.Background(), w.Pubs[0].AddrInfo())
					res := "ok"
					if err != nil {
						res = "err:" + err.Error()
					}
					e.Log("E ret SyncAdChain %s", res)
				}},
				closeThread(e, w, "C1"),
			}, finish(e, w)
		},
		Check: func(e *sched.Exec) []sched.Finding {
			out := common(e, name, []string{"E", "C1"})
			cls := ""
			for _, l := range e.Obs() {
				if strings.HasPrefix(l, "E ret nested-SyncAdChain ") {
					res := strings.TrimPrefix(l, "E ret nested-SyncAdChain ")
					cls = "nested=" + res
					if res != "ok" && res != "err:shutdown" {
						out = append(out, sched.Finding{Sig: name + ":nested-call-wrong-result", Msg: l})
					}
				}
			}
			e.Class = cls
			return out
		},
	}
}

// K2: announce-triggered sync || Close
func announceVsClose() *sched.Scenario {
	name := "K2-announce-sync-vs-close"
	return &sched.Scenario{Name: name,
		Setup: func(e *sched.Exec) ([]sched.Thread, func()) {
			w := schedfx.New(e, schedfx.Options{Pubs: 1, ChainLen: 3, Announce: true})
			p, ch := w.Pubs[0], w.Chains[0]
			return []sched.Thread{
				{Name: "A", Fn: func() {
					e.Log("A call Announce")
					err := w.Sub.Announce(context.Background(), ch.Cids[2], p.AddrInfo())
					e.Log("A ret Announce err=%v", err)
				}},
				closeThread(e, w, "C1"),
			}, finish(e, w)
		},
		Check: func(e *sched.Exec) []sched.Finding {
			out := common(e, name, []string{"A", "C1"})
			if f, ok := e.Data.(*final); ok && len(f.events) > 1 {
				out = append(out, sched.Finding{Sig: name + ":more-than-one-event", Msg: fmt.Sprint(f.events)})
			}
			return out
		},
	}
}

// K13: an announce-triggered sync whose block request the publisher never
// answers || Close, with the plain and with the retrying HTTP client
// (RetryableHTTPClient), request time-out one hour: Close cancels the sync, so
// it returns without the time-out having to elapse (virtual time: what Close
// took is measured on the bubble's clock, which only moves when everything is
// blocked).
func stalledAnnounceVsClose(retry bool) *sched.Scenario {
	name := "K13-announce-sync-with-an-unanswered-request-vs-close"
	so := []dagsync.Option{dagsync.HttpTimeout(time.Hour)}
	if retry {
		name += "+retrying-client"
		so = append(so, dagsync.RetryableHTTPClient(1, time.Millisecond, 2*time.Millisecond))
	}
	return &sched.Scenario{Name: name,
		Setup: func(e *sched.Exec) ([]sched.Thread, func()) {
			w := schedfx.New(e, schedfx.Options{Pubs: 1, ChainLen: 3, Announce: true, SubOpts: so})
			p, ch := w.Pubs[0], w.Chains[0]
			w.StallBlock["0|2"] = true
			return []sched.Thread{
				{Name: "A", Fn: func() {
					e.Log("A call Announce")
					err := w.Sub.Announce(context.Background(), ch.Cids[2], p.AddrInfo())
					e.Log("A ret Announce err=%v", err)
				}},
				{Name: "C1", Fn: func() {
					e.Log("C1 call Close")
					t0 := time.Now()
					err := w.Sub.Close()
					e.Log("C1 ret Close err=%v", err)
					if d := time.Since(t0); d >= time.Hour {
						e.Log("C1 close-took %v", d)
					}
				}},
			}, finish(e, w)
		},
		Check: func(e *sched.Exec) []sched.Finding {
			out := common(e, name, []string{"A", "C1"})
			for _, l := range e.Obs() {
				if strings.HasPrefix(l, "C1 close-took ") {
					out = append(out, sched.Finding{Sig: name + ":close-waited-for-the-request-time-out", Msg: "Close returned only after " + strings.TrimPrefix(l, "C1 close-took ") + " of virtual time: the announce-triggered sync with an unanswered request was not cancelled (request time-out 1h)"})
				}
			}
			return out
		},
	}
}

// K10: the announcement arrives over gossip pubsub (the subscriber has a libp2p
// host, its receiver a real topic), so that the receiver's pubsub watcher
// goroutine is the one handing it to the subscriber, while Close runs (one or
// two callers). Every call returns, the watcher exits, nothing happens after
// Close returned.
func pubsubAnnounceVsClose(nClose int) *sched.Scenario {
	name := fmt.Sprintf("K10-pubsub-announcement-vs-%dclose", nClose)
	return &sched.Scenario{Name: name, MaxSteps: 4000,
		Setup: func(e *sched.Exec) ([]sched.Thread, func()) {
			w := schedfx.New(e, schedfx.Options{Pubs: 1, ChainLen: 3, Pubsub: true})
			p, ch := w.Pubs[0], w.Chains[0]
			m := message.Message{Cid: ch.Cids[2]}
			m.SetAddrs(p.AddrInfo().Addrs)
			var buf bytes.Buffer
			if err := m.MarshalCBOR(&buf); err != nil {
				panic(err)
			}
			ths := []sched.Thread{
				{Name: "M", Fn: func() {
					e.Log("M call publish")
					err := w.Topic.Publish(context.Background(), buf.Bytes(), pubsub.WithSecretKeyAndPeerId(p.Ident.Priv, p.Ident.ID))
					e.Log("M ret publish failed=%v", err != nil)
				}},
				closeThread(e, w, "C1"),
			}
			if nClose > 1 {
				ths = append(ths, closeThread(e, w, "C2"))
			}
			return ths, finish(e, w)
		},
		Check: func(e *sched.Exec) []sched.Finding {
			must := []string{"M", "C1"}
			if nClose > 1 {
				must = append(must, "C2")
			}
			out := common(e, name, must)
			if f, ok := e.Data.(*final); ok && len(f.events) > 1 {
				out = append(out, sched.Finding{Sig: name + ":more-than-one-event", Msg: fmt.Sprint(f.events)})
			}
			e.Class = "no-hook"
			for _, l := range e.Obs() {
				if strings.HasPrefix(l, "hook ") {
					e.Class = "announcement-was-synced"
				}
			}
			return out
		},
	}
}

// K14: direct announcements (Subscriber.Announce) to a subscriber whose
// receiver republishes them on a gossipsub topic (WithResend(true)) || Close:
// Close can arrive while the announcement waits to be handed over. Every call
// returns and no goroutine of the library stays behind.
func resendAnnounceVsClose() *sched.Scenario {
	name := "K14-announcements-with-resend-vs-close"
	return &sched.Scenario{Name: name, MaxSteps: 4000,
		Setup: func(e *sched.Exec) ([]sched.Thread, func()) {
			w := schedfx.New(e, schedfx.Options{Pubs: 1, ChainLen: 3, Pubsub: true, Resend: true, Prestore: true})
			p, ch := w.Pubs[0], w.Chains[0]
			return []sched.Thread{
				{Name: "A", Fn: func() {
					// the advertisement announced is the one already synced: the
					// sync it triggers has nothing to do, which keeps the part of
					// the execution after the hand-over short
					for _, h := range []int{0} {
						e.Log("A call Announce")
						err := w.Sub.Announce(context.Background(), ch.Cids[h], p.AddrInfo())
						e.Log("A ret Announce err=%v", err)
					}
				}},
				closeThread(e, w, "C1"),
			}, finish(e, w)
		},
		Check: func(e *sched.Exec) []sched.Finding {
			return common(e, name, []string{"A", "C1"})
		},
	}
}

// K6: two announcements of one publisher and Close, every block already in the
// destination store (syncs make no block requests and can complete). The first
// sync is held inside its block hook for ad 1 at an idle point, which the
// scheduler passes only when nothing else can move: by then both
// announcements are in, Close has been called, has cancelled the
// announce-triggered syncs and is waiting for them. Syncs of one publisher are
// serialised, so whatever handles the second announcement separately gets its
// turn only after that: it is a pending announce-triggered sync at the moment
// of cancellation and must be abandoned. Within one sync hooks run from the
// newest ad to the oldest, so a hook call for ad 2 after the one for ad 1 can
// only come from such a second sync. (If the second announcement is coalesced
// into the first handling, ad 2 is reported before ad 1: legitimate.)
func pendingAnnounceVsClose() *sched.Scenario {
	name := "K6-held-sync+pending-announce-vs-close"
	return &sched.Scenario{Name: name,
		Setup: func(e *sched.Exec) ([]sched.Thread, func()) {
			w := schedfx.New(e, schedfx.Options{Pubs: 1, ChainLen: 3, Announce: true, Prestore: true})
			p, ch := w.Pubs[0], w.Chains[0]
			logHook := w.HookGate
			w.HookGate = func(h syncfx.HookCall) {
				logHook(h)
				if _, bi := w.Locate(h.Cid); bi == 1 {
					vsched.PointIdle("hook of ad 1 held until nothing else can move")
				}
			}
			return []sched.Thread{
					{Name: "A", Fn: func() {
						for h := 1; h <= 2; h++ {
							e.Log("A call Announce[%d]", h)
							err := w.Sub.Announce(context.Background(), ch.Cids[h], p.AddrInfo())
							e.Log("A ret Announce[%d] err=%v", h, err)
						}
					}},
					closeThread(e, w, "C1"),
				}, func() {
					e.Log("END latest=%d", w.Latest(0))
					finish(e, w)()
				}
		},
		Check: func(e *sched.Exec) []sched.Finding {
			out := common(e, name, []string{"A", "C1"})
			held, closeCalled, latest := false, false, ""
			for _, l := range e.Obs() {
				switch {
				case l == "C1 call Close":
					closeCalled = true
				case strings.HasPrefix(l, "hook ") && strings.HasSuffix(l, "pub0 block[1]"):
					held = true
				case held && strings.HasPrefix(l, "hook ") && strings.HasSuffix(l, "pub0 block[2]"):
					out = append(out, sched.Finding{Sig: name + ":pending-announce-sync-ran-after-cancellation", Msg: fmt.Sprintf("%q is observed after the first sync reported ad 1 (it was held there until Close had been called and nothing else could move): a second announce-triggered sync of the publisher ran although it was still pending when Close cancelled", l)})
				case strings.HasPrefix(l, "END latest="):
					latest = strings.TrimPrefix(l, "END ")
				}
			}
			if f, ok := e.Data.(*final); ok {
				e.Class = fmt.Sprintf("first-sync-held=%v close-called=%v %s events=%v", held, closeCalled, latest, f.events)
			}
			return out
		},
	}
}

// K3: listener registration and cancellation || Close
func listenerVsClose() *sched.Scenario {
	name := "K3-listener-vs-close"
	return &sched.Scenario{Name: name,
		Setup: func(e *sched.Exec) ([]sched.Thread, func()) {
			w := schedfx.New(e, schedfx.Options{Pubs: 1, ChainLen: 2, Announce: true})
			return []sched.Thread{
				{Name: "L", Fn: func() {
					e.Log("L call OnSyncFinished")
					ch, cancel := w.Sub.OnSyncFinished()
					e.Log("L ret OnSyncFinished")
					e.Log("L call cancel")
					cancel()
					e.Log("L ret cancel")
					go func() {
						for range ch {
						}
					}()
				}},
				closeThread(e, w, "C1"),
			}, finish(e, w)
		},
		Check: func(e *sched.Exec) []sched.Finding { return common(e, name, []string{"L", "C1"}) },
	}
}

// K5: one entry point called after Close has returned
func postClose(call string) *sched.Scenario {
	name := "K5-after-close-" + call
	return &sched.Scenario{Name: name,
		Setup: func(e *sched.Exec) ([]sched.Thread, func()) {
			w := schedfx.New(e, schedfx.Options{Pubs: 1, ChainLen: 2, Announce: true})
			p, ch := w.Pubs[0], w.Chains[0]
			ctx := context.Background()
			return []sched.Thread{{Name: "P", Fn: func() {
				e.Log("P call Close")
				err := w.Sub.Close()
				e.Log("P ret Close err=%v", err)
				e.Log("P call %s", call)
				res := ""
				switch call {
				case "SyncAdChain":
					_, err := w.Sub.SyncAdChain(ctx, p.AddrInfo())
					res = fmt.Sprint(err)
				case "SyncEntries":
					res = fmt.Sprint(w.Sub.SyncEntries(ctx, p.AddrInfo(), ch.Cids[1]))
				case "SyncOneEntry":
					res = fmt.Sprint(w.Sub.SyncOneEntry(ctx, p.AddrInfo(), ch.Cids[1]))
				case "SyncHAMTEntries":
					res = fmt.Sprint(w.Sub.SyncHAMTEntries(ctx, p.AddrInfo(), ch.Cids[1]))
				case "Announce":
					res = fmt.Sprint(w.Sub.Announce(ctx, ch.Cids[1], p.AddrInfo()))
				case "OnSyncFinished":
					c, cancel := w.Sub.OnSyncFinished()
					cancel()
					select {
					case _, ok := <-c:
						res = fmt.Sprintf("channel-open=%v", ok)
					default:
						res = "channel-empty-and-open"
					}
				case "GetLatestSync":
					res = fmt.Sprint(w.Sub.GetLatestSync(p.Ident.ID))
				case "SetLatestSync":
					res = fmt.Sprint(w.Sub.SetLatestSync(p.Ident.ID, ch.Cids[1]))
				case "RemoveHandler":
					res = fmt.Sprint(w.Sub.RemoveHandler(p.Ident.ID))
				case "HttpPeerStore":
					res = fmt.Sprint(w.Sub.HttpPeerStore() != nil)
				case "Close":
					res = fmt.Sprint(w.Sub.Close())
				}
				e.Log("P ret %s %s", call, firstLine(res))
			}}}, finish(e, w)
		},
		Check: func(e *sched.Exec) []sched.Finding {
			out := common(e, name, []string{"P"})
			for _, l := range e.Obs() {
				if strings.HasPrefix(l, "P ret "+call+" ") {
					res := strings.TrimPrefix(l, "P ret "+call+" ")
					if strings.HasPrefix(call, "Sync") && res == "<nil>" {
						out = append(out, sched.Finding{Sig: name + ":sync-accepted-after-close", Msg: call + " returned nil after Close"})
					}
				}
			}
			return out
		},
	}
}

func TestCheck(t *testing.T) {
	r := vp.New("C15", "model_checking",
		"scenarios on the real subscriber built with the instrumentation overlay (gated in-memory publisher, chain of 2-3 signed ads): K1 explicit sync (queried head) || Close, with one and with two concurrent Close callers (a sync that reports success must have reported every block); K11 the same with a segmented sync (segment size 1); K15 the same on a subscriber whose latest-synced value comes from a WithLastKnownSync callback (a scheduling point); K7 explicit syncs of two publishers || Close; K12 two explicit syncs of one publisher (the second waits for its turn) || Close; K8 announce-triggered syncs of two publishers under a limit of one at a time || Close; K9 an explicit sync whose block hook makes a nested explicit sync of another publisher || Close; K2 announce-triggered sync || Close; K13 an announce-triggered sync whose block request is never answered || Close, with the plain and the retrying HTTP client and a request time-out of one hour (Close must not take that long on the bubble's clock); K10 the subscriber with a libp2p host and a real gossipsub topic, an announcement published on the topic (it reaches the subscriber through the receiver's pubsub watcher goroutine) || Close (thorough: two Close callers); K14 a direct announcement to a subscriber whose receiver republishes them on a gossipsub topic (WithResend) || Close; K6 two announcements of one publisher and Close with every block already local, the first sync held in its block hook until nothing else can move (a sync still pending when Close cancels must be abandoned); K3 listener registration and cancellation || Close; K5 each of 11 entry points called after Close has returned. All interleavings at the scheduling points (locks, atomics, channel operations, selects, spawns, requests, hook calls, observations) up to the preemption bound, so Close starts at every point of a sync. 'Blocks forever' is decided by quiescence with the caller not finished. states = distinct decision states; transitions = scheduling steps; traces = executions of the real code.",
		"cooperative scheduling at synchronization operations; priority selects in source order; one publisher",
		"goroutine leak = a goroutine of the bubble with a go-libipni frame after Close and cleanup",
	)
	defer func() {
		if err := r.Finish(); err != nil {
			t.Fatal(err)
		}
	}()
	bound := 2
	if vp.Thorough() {
		bound = 3
	}
	scs := []*sched.Scenario{pendingAnnounceVsClose(), twoExplicitVsClose(), limitedAnnouncesVsClose(), nestedSyncVsClose(), pubsubAnnounceVsClose(1), resendAnnounceVsClose(), explicitVsCloseLastKnown(), explicitVsCloseSeg(1, 1), twoExplicitOfOnePublisherVsClose(), explicitVsClose(1), explicitVsClose(2), announceVsClose(), stalledAnnounceVsClose(false), stalledAnnounceVsClose(true), listenerVsClose()}
	if vp.Thorough() {
		scs = append(scs, pubsubAnnounceVsClose(2))
	}
	for _, c := range []string{"SyncAdChain", "SyncEntries", "SyncOneEntry", "SyncHAMTEntries", "Announce", "OnSyncFinished", "GetLatestSync", "SetLatestSync", "RemoveHandler", "HttpPeerStore", "Close"} {
		scs = append(scs, postClose(c))
	}
	r.Bounds(map[string]any{"preemption_bound": bound, "scenarios": len(scs)})
	budget := 0.0
	if v := os.Getenv("VERIF_BUDGET_S"); v != "" {
		fmt.Sscanf(v, "%g", &budget)
	}
	start := time.Now()
	weight := func(i int) float64 { // the K5 scenarios are nearly sequential and cheap
		if strings.HasPrefix(scs[i].Name, "K14-") {
			// every execution creates a libp2p host and a gossipsub: about
			// ten times the cost of the others per schedule
			return 20
		}
		if i < 9 {
			return 5
		}
		return 1
	}
	for i, sc := range scs {
		x := &sched.Explorer{T: t, R: r, Sc: sc, Bound: bound}
		if budget > 0 && !r.Replaying() {
			left := budget*0.95 - time.Since(start).Seconds()
			tot := 0.0
			for j := i; j < len(scs); j++ {
				tot += weight(j)
			}
			share := left * weight(i) / tot
			if share < 1 {
				share = 1
			}
			x.Deadline = time.Now().Add(time.Duration(share * float64(time.Second)))
		}
		done := x.Explore()
		if !r.Replaying() && done < bound {
			r.NotExhaustive(fmt.Sprintf("%s: time share used up after completing preemption bound %d of %d", sc.Name, done, bound))
		}
	}
	t.Logf("violations: %d", r.Violations())
}
