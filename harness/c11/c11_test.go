// C11: metadata encoding is canonical, round-trips for any protocol set, and
// decoding is safe. Bounded-exhaustive enumeration of protocol collections in
// every construction order and of mutations of their encodings.
package c11

import (
	"bytes"
	"fmt"
	"io"
	"sort"
	"strings"
	"testing"
	"testing/iotest"

	"github.com/ipfs/go-cid"
	"github.com/ipni/go-libipni/metadata"
	"github.com/multiformats/go-multicodec"
	"github.com/multiformats/go-multihash"
	"github.com/multiformats/go-varint"

	"verifharness/vp"
)

// proto is one alphabet symbol: a constructor (fresh value every time, since
// metadata keeps pointers) and a label.
type proto struct {
	label string
	id    multicodec.Code
	mk    func() metadata.Protocol
}

func pieceCid(seed string) cid.Cid {
	h, _ := multihash.Sum([]byte(seed), multihash.SHA2_256, -1)
	return cid.NewCidV1(cid.FilCommitmentUnsealed, h)
}

func unknownProto(code multicodec.Code, n int) proto {
	return proto{
		label: fmt.Sprintf("unk(0x%x,%d)", uint64(code), n),
		id:    code,
		mk: func() metadata.Protocol {
			payload := make([]byte, n)
			for i := range payload {
				payload[i] = byte(i*7 + 3)
			}
			// built the way the decoder builds it: code, length, payload
			b := varint.ToUvarint(uint64(code))
			b = append(b, varint.ToUvarint(uint64(n))...)
			b = append(b, payload...)
			return &metadata.Unknown{Code: code, Payload: b}
		},
	}
}

func gsProto(c int, verified, fast bool) proto {
	return proto{
		label: fmt.Sprintf("gs(%d,%v,%v)", c, verified, fast),
		id:    multicodec.TransportGraphsyncFilecoinv1,
		mk: func() metadata.Protocol {
			return &metadata.GraphsyncFilecoinV1{PieceCID: pieceCid(fmt.Sprint("piece", c)), VerifiedDeal: verified, FastRetrieval: fast}
		},
	}
}

var (
	pBitswap = proto{"bitswap", multicodec.TransportBitswap, func() metadata.Protocol { return &metadata.Bitswap{} }}
	pGateway = proto{"gateway", multicodec.TransportIpfsGatewayHttp, func() metadata.Protocol { return &metadata.IpfsGatewayHttp{} }}
	// the payload-less protocols have value receivers, so a caller may hand
	// them over by value as well; the decoder always produces pointers
	pBitswapV = proto{"bitswap(by-value)", multicodec.TransportBitswap, func() metadata.Protocol { return metadata.Bitswap{} }}
	pGatewayV = proto{"gateway(by-value)", multicodec.TransportIpfsGatewayHttp, func() metadata.Protocol { return metadata.IpfsGatewayHttp{} }}
)

// unknown codes: below all known, between bitswap and graphsync, between
// graphsync and gateway, above all known, and one with a 3-byte varint code.
var unknownCodes = []multicodec.Code{0x01e0, 0x0905, 0x0915, 0x0930, 0x300000}

// idSlots: one entry per distinct protocol ID, each with its variants
// (variant 0 is the default).
func idSlots(thorough bool) [][]proto {
	var gs []proto
	for c := 0; c < 2; c++ {
		for f := 0; f < 4; f++ {
			gs = append(gs, gsProto(c, f&1 != 0, f&2 != 0))
		}
	}
	lens := []int{1, 0, 128}
	if thorough {
		lens = []int{1, 0, 127, 128, 900}
	}
	slots := [][]proto{{pBitswap, pBitswapV}, gs, {pGateway, pGatewayV}}
	for _, code := range unknownCodes {
		var v []proto
		for _, n := range lens {
			v = append(v, unknownProto(code, n))
		}
		slots = append(slots, v)
	}
	return slots
}

func labels(ps []proto) string {
	l := make([]string, len(ps))
	for i, p := range ps {
		l[i] = p.label
	}
	return strings.Join(l, ",")
}

// classSig gives the class of a collection for violation signatures: the
// kinds in ID order.
func classSig(ps []proto) string {
	s := append([]proto(nil), ps...)
	sort.SliceStable(s, func(i, j int) bool { return s[i].id < s[j].id })
	var l []string
	for _, p := range s {
		k := p.label
		if i := strings.IndexByte(k, '('); i >= 0 {
			k = k[:i]
		}
		l = append(l, k)
	}
	return fmt.Sprintf("n=%d:%s", len(ps), strings.Join(l, ">"))
}

// checkCollection checks the canonical-encoding and round-trip clauses for one
// collection in one construction order.
// mdCtx is the metadata context collections are built and decoded in: the
// default one, or one derived from it (once, twice) with WithProtocol.
var (
	mdCtx     = metadata.Default
	ctxPrefix = ""
)

// indepGS is the encoding of a graphsync-filecoin value written down without
// the library: the protocol ID as a varint, then the dag-cbor map of the three
// fields in schema order (PieceCID as a tag-42 link).
func indepGS(g *metadata.GraphsyncFilecoinV1) []byte {
	hdr := func(major byte, n int) []byte {
		switch {
		case n < 24:
			return []byte{major<<5 | byte(n)}
		case n < 256:
			return []byte{major<<5 | 24, byte(n)}
		default:
			return []byte{major<<5 | 25, byte(n >> 8), byte(n)}
		}
	}
	b := varint.ToUvarint(uint64(multicodec.TransportGraphsyncFilecoinv1))
	b = append(b, 0xa3)
	b = append(append(b, hdr(3, len("PieceCID"))...), "PieceCID"...)
	cb := g.PieceCID.Bytes()
	b = append(b, 0xd8, 0x2a)
	b = append(append(b, hdr(2, len(cb)+1)...), 0x00)
	b = append(b, cb...)
	bl := func(v bool) byte {
		if v {
			return 0xf5
		}
		return 0xf4
	}
	b = append(append(b, hdr(3, len("VerifiedDeal"))...), "VerifiedDeal"...)
	b = append(b, bl(g.VerifiedDeal))
	b = append(append(b, hdr(3, len("FastRetrieval"))...), "FastRetrieval"...)
	b = append(b, bl(g.FastRetrieval))
	return b
}

// gsRoundTrip encodes metadata holding one graphsync-filecoin value, compares
// the bytes with the independent encoding, decodes them and compares the
// fields of what comes back with the original's. "" when all is well.
func gsRoundTrip(pc cid.Cid, verified, fast bool) string {
	orig := &metadata.GraphsyncFilecoinV1{PieceCID: pc, VerifiedDeal: verified, FastRetrieval: fast}
	want := indepGS(orig)
	md := mdCtx.New(&metadata.GraphsyncFilecoinV1{PieceCID: pc, VerifiedDeal: verified, FastRetrieval: fast})
	got, err := md.MarshalBinary()
	if err != nil {
		return "encoding failed: " + err.Error()
	}
	if !bytes.Equal(got, want) {
		return fmt.Sprintf("encoding of piece CID %s (verified %v, fast %v) is %x, written down independently it is %x", pc, verified, fast, got, want)
	}
	back := mdCtx.New()
	if err := back.UnmarshalBinary(append([]byte(nil), got...)); err != nil {
		return "decoding failed: " + err.Error()
	}
	g, ok := back.Get(multicodec.TransportGraphsyncFilecoinv1).(*metadata.GraphsyncFilecoinV1)
	if !ok || g == nil {
		return "no graphsync-filecoin protocol after the round trip"
	}
	if !g.PieceCID.Equals(pc) || g.VerifiedDeal != verified || g.FastRetrieval != fast {
		return fmt.Sprintf("round trip of piece CID %s (verified %v, fast %v) returns piece CID %s (verified %v, fast %v)", pc, verified, fast, g.PieceCID, g.VerifiedDeal, g.FastRetrieval)
	}
	return ""
}

// chunkReader hands out at most n bytes per Read.
type chunkReader struct {
	b []byte
	n int
}

func (c *chunkReader) Read(p []byte) (int, error) {
	if len(c.b) == 0 {
		return 0, io.EOF
	}
	k := min(c.n, len(p), len(c.b))
	copy(p, c.b[:k])
	c.b = c.b[k:]
	return k, nil
}

// lastWithEOF delivers what is asked for and, together with the last byte, the
// end-of-data error (the io.Reader contract allows both ways of ending).
type lastWithEOF struct{ b []byte }

func (l *lastWithEOF) Read(p []byte) (int, error) {
	if len(l.b) == 0 {
		return 0, io.EOF
	}
	n := copy(p, l.b)
	l.b = l.b[n:]
	if len(l.b) == 0 {
		return n, io.EOF
	}
	return n, nil
}

// checkReadFrom: the protocols' own decoders (ReadFrom; what a caller uses to
// decode protocol by protocol from a stream) for every protocol value of an
// alphabet, alone and followed by another protocol's bytes, through readers
// that deliver everything at once, byte by byte, in halves, in chunks of 7,
// and the last data together with the end-of-data error. A failure is an
// answer ("an error or metadata ..."); where ReadFrom succeeds, the number of
// bytes it reports as consumed is the length of the value's own encoding and
// that encoding is what was read.
func checkReadFrom(r *vp.Recorder) {
	readers := []struct {
		name string
		mk   func(b []byte) io.Reader
	}{
		{"bytes.Reader", func(b []byte) io.Reader { return bytes.NewReader(b) }},
		{"bytes.Buffer", func(b []byte) io.Reader { return bytes.NewBuffer(append([]byte(nil), b...)) }},
		{"one-byte-reads", func(b []byte) io.Reader { return iotest.OneByteReader(bytes.NewReader(b)) }},
		{"half-reads", func(b []byte) io.Reader { return iotest.HalfReader(bytes.NewReader(b)) }},
		{"chunks-of-7", func(b []byte) io.Reader { return &chunkReader{b: append([]byte(nil), b...), n: 7} }},
		// (iotest.DataErrReader never returns from a Read into an empty
		// buffer while data is left, so it is not used here)
		{"data-with-eof", func(b []byte) io.Reader { return &lastWithEOF{b: append([]byte(nil), b...)} }},
	}
	values := []proto{pBitswap, pGateway, gsProto(0, false, false), gsProto(1, true, true), unknownProto(0x0930, 0), unknownProto(0x0930, 5), unknownProto(0x300000, 200)}
	tails := [][]byte{nil, {0x80, 0x12}, {0x00}}
	for _, p := range values {
		enc, err := p.mk().MarshalBinary()
		if err != nil {
			panic(err)
		}
		for ti, tail := range tails {
			data := append(append([]byte(nil), enc...), tail...)
			for _, rd := range readers {
				key := fmt.Sprintf("readfrom|%s|tail%d|%s", p.label, ti, rd.name)
				if !r.Mine(key) {
					continue
				}
				r.Eval(key, true)
				fresh := map[multicodec.Code]func() interface {
					ReadFrom(io.Reader) (int64, error)
				}{
					multicodec.TransportBitswap:             func() interface{ ReadFrom(io.Reader) (int64, error) } { return &metadata.Bitswap{} },
					multicodec.TransportIpfsGatewayHttp:     func() interface{ ReadFrom(io.Reader) (int64, error) } { return &metadata.IpfsGatewayHttp{} },
					multicodec.TransportGraphsyncFilecoinv1: func() interface{ ReadFrom(io.Reader) (int64, error) } { return &metadata.GraphsyncFilecoinV1{} },
				}
				var v interface {
					ReadFrom(io.Reader) (int64, error)
				}
				if mk, ok := fresh[p.id]; ok {
					v = mk()
				} else {
					v = &metadata.Unknown{}
				}
				var n int64
				var rerr error
				if pn, m := vp.Guard(func() { n, rerr = v.ReadFrom(rd.mk(data)) }); pn {
					r.Violation("readfrom:panic", key, m, nil)
					continue
				}
				if rerr != nil {
					r.Outcome("readfrom-error")
					continue
				}
				back, err := v.(metadata.Protocol).MarshalBinary()
				if err != nil {
					r.Violation("readfrom:decoded-value-not-encodable", key, err.Error(), nil)
					continue
				}
				if n < 0 || n > int64(len(data)) || !bytes.Equal(back, data[:n]) {
					r.Violation("readfrom:consumed-count-is-not-the-length-of-what-was-decoded", key, fmt.Sprintf("%s through %s: ReadFrom reports %d bytes consumed of %d (its own encoding has %d), the decoded value re-encodes to %d bytes", p.label, rd.name, n, len(data), len(enc), len(back)), nil)
					continue
				}
				r.Outcome("readfrom-ok")
			}
		}
	}
}

// checkPieceSequences: graphsync-filecoin values encoded one after the other,
// for every ordered pair of piece CIDs of an alphabet in which CIDs share their
// digest and differ in version or codec, or share version and codec and differ
// in the digest, under equal and different flags: A, B, A.
func checkPieceSequences(r *vp.Recorder) {
	h1, _ := multihash.Sum([]byte("piece-one"), multihash.SHA2_256, -1)
	h2, _ := multihash.Sum([]byte("piece-two"), multihash.SHA2_256, -1)
	pcs := []cid.Cid{
		cid.NewCidV0(h1), cid.NewCidV1(cid.DagProtobuf, h1), cid.NewCidV1(cid.Raw, h1), cid.NewCidV1(cid.FilCommitmentUnsealed, h1), cid.NewCidV1(cid.FilCommitmentSealed, h1),
		cid.NewCidV0(h2), cid.NewCidV1(cid.FilCommitmentUnsealed, h2),
	}
	for i, a := range pcs {
		for j, b := range pcs {
			for fa := 0; fa < 4; fa++ {
				for fb := 0; fb < 4; fb++ {
					key := fmt.Sprintf("piece-sequence|%s%d,%d|flags%d,%d", ctxPrefix, i, j, fa, fb)
					if !r.Mine(key) {
						continue
					}
					r.Eval(key, i != j || fa != fb)
					for step, x := range []struct {
						c cid.Cid
						f int
					}{{a, fa}, {b, fb}, {a, fa}} {
						var why string
						if p, m := vp.Guard(func() { why = gsRoundTrip(x.c, x.f&1 != 0, x.f&2 != 0) }); p {
							r.Violation("piece-sequence:panic", key, m, nil)
							break
						}
						if why != "" {
							r.Violation("piece-sequence:value-encoded-after-another-differs", key, fmt.Sprintf("step %d of the sequence %s, %s, %s: %s", step+1, a, b, a, why), nil)
							break
						}
					}
					r.Outcome("piece-sequence-ok")
				}
			}
		}
	}
}

func checkCollection(r *vp.Recorder, ps []proto, distinctIDs bool) []byte {
	key := "coll|" + ctxPrefix + labels(ps)
	if !r.Mine(key) {
		return nil
	}
	r.Eval(key, len(ps) >= 2)
	vals := make([]metadata.Protocol, len(ps))
	for i, p := range ps {
		vals[i] = p.mk()
	}
	// specification: concatenation of individual encodings in ascending ID order
	type enc struct {
		id multicodec.Code
		b  []byte
	}
	var parts []enc
	for i, p := range ps {
		b, err := ps[i].mk().MarshalBinary()
		if err != nil {
			panic(err)
		}
		if g, ok := ps[i].mk().(*metadata.GraphsyncFilecoinV1); ok && !bytes.Equal(b, indepGS(g)) {
			r.Violation("encode:graphsync-differs-from-the-independent-encoding", key, fmt.Sprintf("%s encodes as %x, written down independently it is %x", p.label, b, indepGS(g)), nil)
			return nil
		}
		parts = append(parts, enc{p.id, b})
	}
	sort.SliceStable(parts, func(i, j int) bool { return parts[i].id < parts[j].id })
	var want []byte
	for _, e := range parts {
		want = append(want, e.b...)
	}
	var got []byte
	var err error
	md := mdCtx.New(vals...)
	if p, m := vp.Guard(func() { got, err = md.MarshalBinary() }); p {
		r.Violation("encode:panic", key, m, nil)
		return nil
	}
	if err != nil {
		r.Violation("encode:error", key, err.Error(), nil)
		return nil
	}
	if distinctIDs {
		if !bytes.Equal(got, want) {
			r.Violation("encode:not-canonical:"+classSig(ps), key, fmt.Sprintf("encoding of [%s] is not the concatenation in ascending ID order:\n got  %x\n want %x", labels(ps), got, want), nil)
			return nil
		}
	} else {
		// equal IDs: any order among equals; compare as ID-sorted multiset of parts
		if len(got) != len(want) {
			r.Violation("encode:not-canonical:"+classSig(ps), key, "encoding has the wrong length", nil)
			return nil
		}
	}
	// Metadata is a sort.Interface of its protocols (Len, Less, Swap are
	// exported): whatever order a caller has put them in, also on metadata that
	// was decoded before, the encoding is the canonical one
	if distinctIDs && len(ps) >= 2 {
		for _, how := range []string{"reversed", "swap-ends", "decoded-then-reversed"} {
			m2 := mdCtx.New()
			if how == "decoded-then-reversed" {
				if err := m2.UnmarshalBinary(append([]byte(nil), got...)); err != nil {
					break // judged below
				}
			} else {
				fresh := make([]metadata.Protocol, len(ps))
				for i, p := range ps {
					fresh[i] = p.mk()
				}
				m2 = mdCtx.New(fresh...)
			}
			switch how {
			case "swap-ends":
				m2.Swap(0, m2.Len()-1)
			default:
				sort.Sort(sort.Reverse(&m2))
			}
			var again []byte
			var aerr error
			if p, m := vp.Guard(func() { again, aerr = m2.MarshalBinary() }); p {
				r.Violation("encode:panic", key, m, nil)
				return nil
			}
			if aerr != nil || !bytes.Equal(again, want) {
				r.Violation("encode:not-canonical-after-the-caller-reordered-the-protocols:"+how, key, fmt.Sprintf("[%s] %s through the metadata's own Swap/Less and encoded: err %v\n got  %x\n want %x", labels(ps), how, aerr, again, want), nil)
				return nil
			}
		}
	}
	// decode
	// the decoder is handed a buffer of the caller's, which the caller reuses
	// as soon as the call has returned (encoding.BinaryUnmarshaler: "must copy
	// the data if it wishes to retain the data after returning")
	md2 := mdCtx.New()
	in := append([]byte(nil), got...)
	if p, m := vp.Guard(func() { err = md2.UnmarshalBinary(in) }); p {
		r.Violation("roundtrip:panic:"+classSig(ps), key, m, nil)
		return got
	}
	for i := range in {
		in[i] = 0xa5
	}
	if err != nil {
		r.Outcome("roundtrip-error")
		r.Violation("roundtrip:error:"+classSig(ps), key, fmt.Sprintf("decoding the encoding of [%s] failed: %v (bytes %x)", labels(ps), err, got), nil)
		return got
	}
	if !md2.Equal(md) {
		r.Outcome("roundtrip-unequal")
		r.Violation("roundtrip:unequal:"+classSig(ps), key, fmt.Sprintf("decode(encode([%s])) has protocols %v, want %v", labels(ps), md2.Protocols(), md.Protocols()), nil)
		return got
	}
	for i, p := range ps {
		g := md2.Get(p.id)
		if g == nil {
			r.Violation("roundtrip:get-missing:"+classSig(ps), key, fmt.Sprintf("Get(0x%x) is nil after round trip of [%s]", uint64(p.id), labels(ps)), nil)
			return got
		}
		if distinctIDs {
			gb, _ := g.MarshalBinary()
			wb, _ := ps[i].mk().MarshalBinary() // New sorts vals in place, so use a fresh value
			if !bytes.Equal(gb, wb) {
				r.Violation("roundtrip:get-differs:"+classSig(ps), key, fmt.Sprintf("Get(0x%x) differs after round trip of [%s]", uint64(p.id), labels(ps)), nil)
				return got
			}
		}
	}
	again, err := md2.MarshalBinary()
	if err != nil || !bytes.Equal(again, got) {
		r.Violation("roundtrip:reencode:"+classSig(ps), key, "re-encoding the decoded metadata gives different bytes", nil)
	}
	r.Outcome("roundtrip-ok")
	if len(ps) >= 3 {
		r.Sample(map[string]any{"protocols": labels(ps), "encoding_hex": fmt.Sprintf("%x", got)})
	}
	return got
}

var kinds = []string{"corpus", "truncation", "byte-substitution", "varint-token", "unknown-length-prefix", "concat2", "concat3", "short", "cbor-length-header"}

func kindIndex(k string) byte {
	for i, s := range kinds {
		if s == k {
			return byte(i)
		}
	}
	panic("unknown kind " + k)
}

// TestChild is the isolated decoder worker (see vp.ServeChild).
// canaryDecode round-trips a fixed valid collection (all three known
// protocols and an unknown one) and says what differs.
func canaryDecode() string {
	ps := []proto{pBitswap, gsProto(1, true, false), pGateway, unknownProto(0x0930, 5)}
	vals := make([]metadata.Protocol, len(ps))
	for i, p := range ps {
		vals[i] = p.mk()
	}
	md := metadata.Default.New(vals...)
	b, err := md.MarshalBinary()
	if err != nil {
		return "encoding the valid metadata failed: " + err.Error()
	}
	back := metadata.Default.New()
	if err := back.UnmarshalBinary(append([]byte(nil), b...)); err != nil {
		return "decoding the valid metadata failed: " + err.Error()
	}
	if !back.Equal(md) {
		return fmt.Sprintf("the valid metadata comes back as %v", back.Protocols())
	}
	again, err := back.MarshalBinary()
	if err != nil || !bytes.Equal(again, b) {
		return "the valid metadata re-encodes differently"
	}
	return ""
}

func TestChild(t *testing.T) {
	vp.ServeChild(func(kind byte, data []byte) vp.Reply {
		var rep vp.Reply
		md := metadata.Default.New()
		var err error
		var p bool
		var m string
		rep.Alloc = vp.BoundedAlloc(allocBound(len(data)), func() {
			md = metadata.Default.New()
			p, m = vp.Guard(func() { err = md.UnmarshalBinary(data) })
		})
		if p {
			rep.Panicked, rep.PanicMsg = true, firstLine(m)
			return rep
		}
		if err != nil {
			rep.Err = err.Error()
			// a rejected input leaves nothing behind: valid metadata decoded
			// right after it is itself
			if why := canaryDecode(); why != "" {
				rep.Flag, rep.Info = "valid-metadata-decodes-differently-after-a-rejected-input", why
			}
			return rep
		}
		rep.OK = true
		var again []byte
		if p, m := vp.Guard(func() { again, err = md.MarshalBinary() }); p {
			rep.Flag, rep.Info = "reencode-panic", firstLine(m)
			return rep
		}
		if err != nil || !bytes.Equal(again, data) {
			rep.Flag = "reencode-differs:" + protoKinds(md)
			rep.Info = fmt.Sprintf("accepted (protocols %v) but re-encodes to %x (err %v)", md.Protocols(), trunc(again), err)
		}
		return rep
	})
}

// culprit names, with an independent walk over the wire format, the protocol
// at which a hostile input stops being skippable: a graphsync-filecoin
// protocol (its DAG-CBOR payload cannot be skipped without the trusted CBOR
// decoder), an unknown protocol whose length prefix exceeds what is present,
// or something else.
func culprit(data []byte) string {
	for len(data) > 0 {
		code, n, err := varint.FromUvarint(data)
		if err != nil {
			return "bad-code-varint"
		}
		switch multicodec.Code(code) {
		case multicodec.TransportBitswap:
			data = data[n:]
		case multicodec.TransportIpfsGatewayHttp:
			if len(data) < n+1 {
				return "gateway-truncated"
			}
			data = data[n+1:]
		case multicodec.TransportGraphsyncFilecoinv1:
			return "graphsync-cbor-declared-length"
		default:
			size, m, err := varint.FromUvarint(data[n:])
			if err != nil {
				return "unknown-bad-length-varint"
			}
			if size > uint64(len(data)-n-m) {
				return "unknown-length-prefix-beyond-input"
			}
			data = data[n+m+int(size):]
		}
	}
	return "well-formed"
}

func allocBound(n int) uint64 { return uint64(64*1024 + 64*n) }

// decoder feeds decoder inputs to the isolated worker and judges the replies.
type decoder struct {
	r     *vp.Recorder
	iso   *vp.Isolate
	batch vp.Batch
	meta  []decMeta
}

type decMeta struct {
	kind       string
	key        string
	data       []byte
	nontrivial bool
}

func (d *decoder) add(kind string, data []byte, nontrivial bool) {
	key := fmt.Sprintf("dec|%x", data)
	if !d.r.Mine(key) {
		return
	}
	data = append([]byte(nil), data...)
	d.meta = append(d.meta, decMeta{kind, key, data, nontrivial})
	if d.batch.Add(kindIndex(kind), data) {
		d.flush()
	}
}

func (d *decoder) flush() {
	if d.batch.Len() == 0 {
		return
	}
	replies, err := d.iso.Run(&d.batch)
	if err != nil {
		panic(err)
	}
	r := d.r
	for i, rep := range replies {
		m := d.meta[i]
		r.Eval(m.key, m.nontrivial)
		data := m.data
		if rep.Died {
			r.Outcome("worker-died")
			r.Violation("decode:fatal:"+culprit(data)+":"+m.kind, m.key, fmt.Sprintf("decoding %d bytes (%x) killed the process (unrecoverable, e.g. out of memory): %s", len(data), trunc(data), firstLine(rep.DiedLog)), nil)
			continue
		}
		bound := allocBound(len(data))
		if rep.Alloc > bound {
			r.Violation("decode:alloc:"+culprit(data), m.key, fmt.Sprintf("decoding %d bytes (%x) allocated %d bytes, bound %d", len(data), trunc(data), rep.Alloc, bound), nil)
		}
		switch {
		case rep.Panicked:
			r.Outcome("panic")
			r.Violation("decode:panic:"+culprit(data)+":"+m.kind, m.key, fmt.Sprintf("decoding %x panicked: %s", trunc(data), rep.PanicMsg), nil)
		case !rep.OK:
			r.Outcome("error")
			if rep.Flag != "" {
				r.Violation("decode:"+rep.Flag+":"+m.kind, m.key, fmt.Sprintf("decoder input %x: %s", trunc(data), rep.Info), nil)
			}
		default:
			r.Outcome("accepted")
			if rep.Flag != "" {
				r.Violation("decode:"+rep.Flag+":"+m.kind, m.key, fmt.Sprintf("decoder input %x: %s", trunc(data), rep.Info), nil)
			}
		}
	}
	d.meta = d.meta[:0]
}

func protoKinds(md metadata.Metadata) string {
	ids := md.Protocols()
	sorted := sort.SliceIsSorted(ids, func(i, j int) bool { return ids[i] < ids[j] })
	return fmt.Sprintf("n=%d,sorted=%v", len(ids), sorted)
}

func trunc(b []byte) []byte {
	if len(b) > 48 {
		return b[:48]
	}
	return b
}

func firstLine(s string) string {
	if i := strings.IndexByte(s, '\n'); i >= 0 {
		return s[:i]
	}
	return s
}

func TestCheck(t *testing.T) {
	r := vp.New("C11", "exploration",
		"collections: every subset of 8 distinct protocol IDs (bitswap, graphsync-filecoin, gateway, 5 unknown codes) of size 1..N in every construction order, those of size <=3 also in metadata contexts derived once and twice from the default one (WithProtocol); every variant combination (8 graphsync values, unknown payload lengths, bitswap and gateway handed over as pointer and by value) for subsets of size <=K in sorted and reversed order; collections with repeated IDs; the protocols of a collection reordered by the caller through the metadata's own sort.Interface (reversed, ends swapped, also on decoded metadata) before encoding; graphsync-filecoin encodings are compared with an encoding written down without the library; every ordered pair of 7 piece CIDs that share digest or codec x flags encoded back to back (A, B, A); the protocols' own ReadFrom through 6 kinds of reader (all at once, byte-wise, halves, chunks of 7, last data together with EOF), alone and followed by other bytes, the consumed count compared with the length of what was decoded; the buffer handed to the decoder is overwritten by the caller right after the call, before the decoded metadata is compared. Decoder: for every corpus encoding every single-byte substitution, every truncation, every boundary varint written at every byte offset over 1..3 bytes, unknown-protocol headers declaring every length of the systematic set (2^k-1, 2^k, 2^k+1 for all k; the 25 values below 2^63 and below 2^64; the size limit +-12) for 6 codes x 3 tails; unknown payloads of every length 0..MaxMetadataSize; graphsync-filecoin with identity piece CIDs of 0..300 digest bytes; two-protocol out-of-order concatenations, and all byte strings of length <=2; after every rejected input the worker decodes a fixed valid collection and compares it. Non-trivial: collections of >=2 protocols; decoder inputs other than the unmodified corpus.",
		"unknown protocols are constructed the way the decoder builds them (payload holds code, length prefix and data)",
		"collections with repeated IDs are only required to be ID-sorted and to round-trip as a multiset (order among equal IDs is not defined by the statement)",
		"allocation bound used: 64 KiB + 64 x input length, measured with runtime/metrics /gc/heap/allocs:bytes (span-granular for small objects)",
		"decoder inputs run in a worker subprocess with a 6 GiB address-space limit; an input on which the worker dies is reported as a violation (fatal) and the worker is restarted",
	)
	defer func() {
		if err := r.Finish(); err != nil {
			t.Fatal(err)
		}
	}()
	thorough := vp.Thorough()
	slots := idSlots(thorough)
	maxN, maxK := 4, 3
	if thorough {
		maxN, maxK = 6, 4
	}
	r.Bounds(map[string]any{"ids": len(slots), "max_collection": maxN, "max_variant_collection": maxK})

	corpus := map[string][]byte{}
	addCorpus := func(b []byte) {
		if b != nil && len(b) <= 160 {
			corpus[string(b)] = b
		}
	}

	// (a) every subset of size <= maxN with default variants, every order
	n := len(slots)
	for mask := 1; mask < 1<<n; mask++ {
		var sub []proto
		for i := 0; i < n; i++ {
			if mask&(1<<i) != 0 {
				sub = append(sub, slots[i][0])
			}
		}
		if len(sub) > maxN {
			continue
		}
		permute(sub, func(p []proto) { checkCollection(r, p, true) })
		// decoder corpus: the specification encoding (same in every shard)
		if len(sub) <= 3 || (thorough && len(sub) <= 4) {
			addCorpus(specEncode(sub))
		}
	}
	// (a') the same collections in contexts derived from the default one with
	// WithProtocol, once and twice (two extra protocol codes registered that
	// the collections do not use): the known protocols stay known
	extraFactory := func() metadata.Protocol { return &metadata.Unknown{} }
	once := metadata.Default.WithProtocol(multicodec.Code(0x3f0001), extraFactory)
	twice := once.WithProtocol(multicodec.Code(0x3f0002), extraFactory)
	for _, dc := range []struct {
		name string
		ctx  metadata.MetadataContext
	}{{"derived-once|", once}, {"derived-twice|", twice}} {
		mdCtx, ctxPrefix = dc.ctx, dc.name
		for mask := 1; mask < 1<<n; mask++ {
			var sub []proto
			for i := 0; i < n; i++ {
				if mask&(1<<i) != 0 {
					sub = append(sub, slots[i][0])
				}
			}
			if len(sub) > 3 {
				continue
			}
			permute(sub, func(p []proto) { checkCollection(r, p, true) })
		}
	}
	mdCtx, ctxPrefix = metadata.Default, ""
	// (b) every variant combination for subsets of size <= maxK, sorted and reversed
	for mask := 1; mask < 1<<n; mask++ {
		var idx []int
		for i := 0; i < n; i++ {
			if mask&(1<<i) != 0 {
				idx = append(idx, i)
			}
		}
		if len(idx) > maxK {
			continue
		}
		var rec func(k int, cur []proto)
		rec = func(k int, cur []proto) {
			if k == len(idx) {
				checkCollection(r, cur, true)
				rev := make([]proto, len(cur))
				for i := range cur {
					rev[len(cur)-1-i] = cur[i]
				}
				if len(cur) > 1 {
					checkCollection(r, rev, true)
				}
				return
			}
			for _, v := range slots[idx[k]] {
				rec(k+1, append(cur[:len(cur):len(cur)], v))
			}
		}
		rec(0, nil)
	}
	// (c) repeated IDs
	dups := [][]proto{
		{pBitswap, pBitswap},
		{gsProto(0, true, false), gsProto(1, false, true)},
		{gsProto(1, false, true), gsProto(0, true, false), pBitswap},
		{unknownProto(0x0930, 1), unknownProto(0x0930, 0), pGateway},
		{pGateway, pGateway, pBitswap, pBitswap},
	}
	for _, d := range dups {
		permute(d, func(p []proto) { checkCollection(r, p, false) })
	}

	// (d) unknown protocols with every payload length up to the size limit the
	// library declares (MaxMetadataSize): alone and next to a known protocol
	for _, code := range []multicodec.Code{0x01e0, 0x300000} {
		for n := 0; n <= metadata.MaxMetadataSize; n++ {
			checkCollection(r, []proto{unknownProto(code, n)}, true)
			if n%64 <= 1 || n >= metadata.MaxMetadataSize-8 {
				checkCollection(r, []proto{pGateway, unknownProto(code, n), pBitswap}, true)
			}
		}
	}

	// (e) graphsync-filecoin with piece CIDs of every length: identity-multihash
	// CIDs with 0..300 digest bytes ("any piece CID"), alone and between others
	for n := 0; n <= 300; n++ {
		digest := make([]byte, n)
		for i := range digest {
			digest[i] = byte(i*5 + 1)
		}
		mh, err := multihash.Encode(digest, multihash.IDENTITY)
		if err != nil {
			panic(err)
		}
		pc := cid.NewCidV1(cid.Raw, mh)
		gp := proto{label: fmt.Sprintf("gs(identity-piece-cid-%d)", n), id: multicodec.TransportGraphsyncFilecoinv1, mk: func() metadata.Protocol {
			return &metadata.GraphsyncFilecoinV1{PieceCID: pc, VerifiedDeal: n%2 == 0, FastRetrieval: n%3 == 0}
		}}
		checkCollection(r, []proto{gp}, true)
		if n%16 <= 1 {
			checkCollection(r, []proto{pGateway, gp, pBitswap}, true)
		}
	}

	// (f) graphsync-filecoin values encoded one after the other
	checkPieceSequences(r)
	// (g) the protocols' own stream decoders
	checkReadFrom(r)
	// (h) the library's constructor for the plain-HTTP transport (HTTPV1) next
	// to every other protocol: what the library encodes it decodes, and the
	// other protocols are all there afterwards
	for _, others := range [][]proto{{pBitswap}, {pGateway}, {gsProto(0, true, false)}, {unknownProto(0x0930, 5)}, {pBitswap, gsProto(1, false, true), pGateway}} {
		key := "coll-with-HTTPV1|" + labels(others)
		if !r.Mine(key) {
			continue
		}
		r.Eval(key, true)
		for _, first := range []bool{true, false} {
			vals := []metadata.Protocol{}
			if first {
				vals = append(vals, metadata.HTTPV1())
			}
			for _, p := range others {
				vals = append(vals, p.mk())
			}
			if !first {
				vals = append(vals, metadata.HTTPV1())
			}
			md := mdCtx.New(vals...)
			var enc []byte
			var err error
			if p, m := vp.Guard(func() { enc, err = md.MarshalBinary() }); p || err != nil {
				r.Violation("encode:error-with-HTTPV1", key, fmt.Sprint(m, err), nil)
				break
			}
			back := mdCtx.New()
			if p, m := vp.Guard(func() { err = back.UnmarshalBinary(append([]byte(nil), enc...)) }); p || err != nil {
				r.Violation("roundtrip:error:collection-with-HTTPV1", key, fmt.Sprintf("the library cannot decode its own encoding %x of [HTTPV1, %s]: %v %s", enc, labels(others), err, m), nil)
				break
			}
			for _, p := range others {
				g := back.Get(p.id)
				wb, _ := p.mk().MarshalBinary()
				if g == nil {
					r.Violation("roundtrip:get-missing:collection-with-HTTPV1", key, fmt.Sprintf("Get(0x%x) is nil after the round trip of [HTTPV1, %s]", uint64(p.id), labels(others)), nil)
					break
				}
				if gb, _ := g.MarshalBinary(); !bytes.Equal(gb, wb) {
					r.Violation("roundtrip:get-differs:collection-with-HTTPV1", key, fmt.Sprintf("Get(0x%x) differs after the round trip of [HTTPV1, %s]", uint64(p.id), labels(others)), nil)
					break
				}
			}
		}
		r.Outcome("with-HTTPV1-ok")
	}

	// decoder inputs
	dec := &decoder{r: r, iso: &vp.Isolate{}}
	defer dec.iso.Close()
	var keys []string
	for k := range corpus {
		keys = append(keys, k)
	}
	sort.Strings(keys)
	boundary := []uint64{0, 1, 2, 127, 128, 1024, 1025, 1 << 16, 1 << 20, 1 << 24, 1 << 26, 1 << 31, 1 << 40, 1 << 62, 1<<63 - 12, 1<<63 - 2, 1<<63 - 1, 1 << 63, 1<<64 - 1}
	// the systematic set for declared lengths: 2^k-1, 2^k, 2^k+1 for every k,
	// the values just below 2^63 (the largest the varint reader accepts; sums
	// with a header size wrap there) and around the declared size limit
	lengthSet := map[uint64]bool{}
	for k := uint(0); k < 64; k++ {
		for _, d := range []uint64{^uint64(0), 0, 1} { // -1, 0, +1
			lengthSet[(uint64(1)<<k)+d] = true
		}
	}
	for d := uint64(0); d <= 24; d++ {
		lengthSet[1<<63-1-d] = true
		lengthSet[^uint64(0)-d] = true
		lengthSet[uint64(metadata.MaxMetadataSize)-12+d] = true
	}
	var lengths []uint64
	for v := range lengthSet {
		lengths = append(lengths, v)
	}
	sort.Slice(lengths, func(i, j int) bool { return lengths[i] < lengths[j] })
	maxCorpus := 40
	if thorough {
		maxCorpus = 400
	}
	if len(keys) > maxCorpus {
		// deterministic spread over the sorted corpus
		step := float64(len(keys)) / float64(maxCorpus)
		var sel []string
		for i := 0; i < maxCorpus; i++ {
			sel = append(sel, keys[int(float64(i)*step)])
		}
		keys = sel
	}
	if i, _ := r.Shard(); i == 0 {
		r.Count("decoder_corpus", int64(len(keys)))
	}
	for _, k := range keys {
		b := corpus[k]
		dec.add("corpus", b, false)
		for cut := 0; cut < len(b); cut++ {
			dec.add("truncation", b[:cut], true)
		}
		for i := range b {
			orig := b[i]
			for v := 0; v < 256; v++ {
				if byte(v) == orig {
					continue
				}
				m := append([]byte(nil), b...)
				m[i] = byte(v)
				dec.add("byte-substitution", m, true)
			}
		}
		for i := 0; i <= len(b); i++ {
			for w := 0; w <= 3 && i+w <= len(b); w++ {
				for _, v := range boundary {
					var m []byte
					m = append(m, b[:i]...)
					m = append(m, varint.ToUvarint(v)...)
					m = append(m, b[i+w:]...)
					dec.add("varint-token", m, true)
				}
			}
		}
	}
	// hostile prefixes for unknown protocols: code then length
	for _, code := range []uint64{0x01e0, 0x0930, 0x300000, 0, 1, 1<<63 - 1} {
		for _, v := range lengths {
			for _, tail := range [][]byte{nil, {1}, bytes.Repeat([]byte{7}, 64)} {
				m := append(varint.ToUvarint(code), varint.ToUvarint(v)...)
				m = append(m, tail...)
				dec.add("unknown-length-prefix", m, true)
			}
		}
	}
	// graphsync-filecoin code followed by CBOR headers declaring large lengths
	gsCode := varint.ToUvarint(uint64(multicodec.TransportGraphsyncFilecoinv1))
	for _, major := range []byte{0x40, 0x60, 0x80, 0xa0} {
		for _, arg := range [][]byte{{0x17}, {0x18, 0xff}, {0x19, 0xff, 0xff}, {0x1a, 0x00, 0x0f, 0xff, 0xff}, {0x1a, 0x00, 0xff, 0xff, 0xff}, {0x1a, 0x7f, 0xff, 0xff, 0xff}, {0x1b, 0, 0, 0, 0x7f, 0xff, 0xff, 0xff, 0xff}, {0x1b, 0xff, 0xff, 0xff, 0xff, 0xff, 0xff, 0xff, 0xff}} {
			hdr := append([]byte{major | arg[0]}, arg[1:]...)
			dec.add("cbor-length-header", append(append([]byte(nil), gsCode...), hdr...), true)
			dec.add("cbor-length-header", append(append(append([]byte(nil), gsCode...), 0xa1), hdr...), true)
		}
	}
	// out-of-order and repeated concatenations of two and three valid encodings
	var singles [][]byte
	for _, s := range slots {
		b, _ := s[0].mk().MarshalBinary()
		singles = append(singles, b)
	}
	for i := range singles {
		for j := range singles {
			dec.add("concat2", append(append([]byte(nil), singles[i]...), singles[j]...), true)
			for k := range singles {
				m := append(append(append([]byte(nil), singles[i]...), singles[j]...), singles[k]...)
				dec.add("concat3", m, true)
			}
		}
	}
	// all byte strings of length <= 2
	dec.add("short", []byte{}, true)
	for a := 0; a < 256; a++ {
		dec.add("short", []byte{byte(a)}, true)
		for b := 0; b < 256; b++ {
			dec.add("short", []byte{byte(a), byte(b)}, true)
		}
	}
	dec.flush()
	r.Count("worker_deaths", int64(dec.iso.Deaths))
	t.Logf("violations: %d", r.Violations())
}

// specEncode is the specification encoding: individual encodings
// concatenated in ascending ID order.
func specEncode(ps []proto) []byte {
	s := append([]proto(nil), ps...)
	sort.SliceStable(s, func(i, j int) bool { return s[i].id < s[j].id })
	var out []byte
	for _, p := range s {
		b, err := p.mk().MarshalBinary()
		if err != nil {
			panic(err)
		}
		out = append(out, b...)
	}
	return out
}

func permute(ps []proto, f func([]proto)) {
	p := append([]proto(nil), ps...)
	var rec func(k int)
	rec = func(k int) {
		if k == len(p) {
			f(append([]proto(nil), p...))
			return
		}
		for i := k; i < len(p); i++ {
			p[k], p[i] = p[i], p[k]
			rec(k + 1)
			p[k], p[i] = p[i], p[k]
		}
	}
	rec(0)
}
