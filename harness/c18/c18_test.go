// C18: signed ingest and register requests are accepted only from the
// provider named. Bounded-exhaustive enumeration of requests, signer/provider
// pairs and envelope alterations against an accept/reject specification.
package c18

import (
	"bytes"
	"encoding/json"
	"errors"
	"fmt"
	"strings"
	"testing"

	"github.com/ipni/go-libipni/ingest/model"
	"github.com/libp2p/go-libp2p/core/crypto"
	"github.com/libp2p/go-libp2p/core/peer"
	"github.com/libp2p/go-libp2p/core/record"
	recpb "github.com/libp2p/go-libp2p/core/record/pb"
	"github.com/multiformats/go-multiaddr"
	"github.com/multiformats/go-multihash"
	"github.com/multiformats/go-varint"
	"google.golang.org/protobuf/proto"

	"verifharness/fixture"
	"verifharness/vp"
)

func firstLine(s string) string {
	if i := strings.IndexByte(s, '\n'); i >= 0 {
		return s[:i]
	}
	return s
}

type ingestArgs struct {
	label string
	mh    multihash.Multihash
	ctx   []byte
	md    []byte
	addrs []string
}

func ingestAlphabet() []ingestArgs {
	var out []ingestArgs
	mhs := []struct {
		n  string
		mh multihash.Multihash
	}{{"sha256", fixture.Mh("x", multihash.SHA2_256, -1)}, {"sha512", fixture.Mh("x", multihash.SHA2_512, -1)}, {"identity", fixture.Mh("x", multihash.IDENTITY, -1)}}
	for _, m := range mhs {
		for _, c := range []int{0, 64} {
			for _, d := range []int{0, 40, 1000, 1024} { // up to the schema's metadata limit
				for a := 1; a <= 2; a++ {
					addrs := []string{"/ip4/1.2.3.4/tcp/7777", "/dns4/example.com/tcp/443/https"}[:a]
					out = append(out, ingestArgs{fmt.Sprintf("%s,ctx%d,md%d,addrs%d", m.n, c, d, a), m.mh, fixture.Bytes(c, 1), fixture.Bytes(d, 2), addrs})
				}
			}
		}
	}
	// addresses of an ingest request are plain strings: legal but unusual
	// spellings of a multiaddr, strings that are no multiaddr, repeats, none
	odd := [][]string{
		{"/ip4/127.0.0.1/tcp/7777/"},
		{"/ip6/0:0:0:0:0:0:0:1/tcp/80"},
		{"/ip6/2001:DB8::1/tcp/443/https"},
		{"/ip4/1.2.3.4/tcp/03104"},
		{"/ip4/1.2.3.4/tcp/80/ipfs/" + fixture.Key("ed25519", 3).ID.String()},
		{"/DNS4/example.com/tcp/80"},
		{"not a multiaddr", ""},
		{"/ip4/1.2.3.4/tcp/7777", "/ip4/1.2.3.4/tcp/7777", " /ip4/1.2.3.4/tcp/7777 "},
		{},
		nil,
	}
	for i, a := range odd {
		out = append(out, ingestArgs{fmt.Sprintf("sha256,ctx8,md8,odd-addrs%d", i), mhs[0].mh, fixture.Bytes(8, 1), fixture.Bytes(8, 2), a})
	}
	return out
}

// spec: an envelope read by reader R is accepted iff it is intact, was sealed
// for R's domain and payload type, and the peer ID of the sealing key equals
// the provider named inside.

type reader struct {
	name string
	read func([]byte) (named peer.ID, fields string, err error)
}

func ingestFields(r *model.IngestRequest) string {
	return fmt.Sprintf("mh=%x ctx=%x md=%x addrs=%v", []byte(r.Multihash), r.ContextID, r.Metadata, r.Addrs)
}

// errRequestReturnedWithError marks a reader that rejected an envelope and
// handed the request inside it to the caller all the same.
var errRequestReturnedWithError = errors.New("the reader returned an error together with the decoded request")

var readers = []reader{
	{"ingest", func(b []byte) (peer.ID, string, error) {
		r, err := model.ReadIngestRequest(b)
		if err != nil {
			if r != nil {
				// "returns the request only if ...": a rejected envelope
				// yields no request
				return "", "", fmt.Errorf("%w: %v (request for provider %s with addresses %v)", errRequestReturnedWithError, err, r.ProviderID, r.Addrs)
			}
			return "", "", err
		}
		return r.ProviderID, ingestFields(r), nil
	}},
	{"register", func(b []byte) (peer.ID, string, error) {
		r, err := model.ReadRegisterRequest(b)
		if err != nil {
			if r != nil {
				return "", "", fmt.Errorf("%w: %v (request of peer %s)", errRequestReturnedWithError, err, r.PeerID)
			}
			return "", "", err
		}
		var a []string
		for _, m := range r.Addrs {
			a = append(a, m.String())
		}
		return r.PeerID, fmt.Sprintf("addrs=%v", a), nil
	}},
}

// foreignDomainRecord has the ingest payload type and JSON shape but another
// signing domain.
type foreignDomainRecord struct {
	model.IngestRequest
	domain string
}

func (f *foreignDomainRecord) Domain() string { return f.domain }
func (f *foreignDomainRecord) MarshalRecord() ([]byte, error) {
	return json.Marshal(&f.IngestRequest)
}

func mustJSON(v any) []byte {
	b, err := json.Marshal(v)
	if err != nil {
		panic(err)
	}
	return b
}

// sealRaw builds a signed envelope for an arbitrary domain (record.Seal refuses
// the empty one), the way record.Seal does for a record's own domain.
func sealRaw(domain string, payloadType, payload []byte, key crypto.PrivKey) ([]byte, error) {
	var unsigned []byte
	for _, f := range [][]byte{[]byte(domain), payloadType, payload} {
		unsigned = append(unsigned, varint.ToUvarint(uint64(len(f)))...)
		unsigned = append(unsigned, f...)
	}
	sig, err := key.Sign(unsigned)
	if err != nil {
		return nil, err
	}
	pk, err := crypto.PublicKeyToProto(key.GetPublic())
	if err != nil {
		return nil, err
	}
	return proto.Marshal(&recpb.Envelope{PublicKey: pk, PayloadType: payloadType, Payload: payload, Signature: sig})
}

// rawRecord is a record with freely chosen signing domain, payload type and
// payload bytes.
type rawRecord struct {
	domain  string
	codec   []byte
	payload []byte
}

func (f *rawRecord) Domain() string                 { return f.domain }
func (f *rawRecord) Codec() []byte                  { return f.codec }
func (f *rawRecord) MarshalRecord() ([]byte, error) { return f.payload, nil }
func (f *rawRecord) UnmarshalRecord([]byte) error   { return nil }

func TestCheck(t *testing.T) {
	r := vp.New("C18", "exploration",
		"requests: 48 ingest argument combinations (metadata of 0, 40, 1000 and the maximal 1024 bytes; context ID empty and of the maximal 64 bytes) plus 10 with unusual address strings (non-canonical multiaddr spellings, non-multiaddr strings, repeats, none), register requests with 1..3 addresses, and both kinds with addresses that carry a /p2p component naming the request's own provider, its signer or a third identity (4 forms, alone and next to a plain address); hand-built ingest requests with sequence numbers 0, 1, 2^63-1 and 2^64-1 sealed with record.Seal and read by the library's reader and through libp2p's typed-record interface of IngestRequest (own and foreign domains); every (signing key, named provider) pair over 4 key types with named = signer, another identity of the same type, and an identity of another type; for sealed envelopes of each key type: every single-bit flip, field-level replacement of key / payload type / payload / signature, envelopes sealed for another domain or replayed to the other reader. Non-trivial: every case except the unaltered own-key request. Distinct = distinct (reader, request, signer, named, alteration).",
		"accept/reject is judged semantically: an altered byte string that decodes to the same (key, payload type, payload, signature) as the original is not counted as an alteration",
		"keys: two identities per key type; RSA 2048",
	)
	defer func() {
		if err := r.Finish(); err != nil {
			t.Fatal(err)
		}
	}()
	thorough := vp.Thorough()
	kts := fixture.KeyTypes

	expect := func(key, rdr string, data []byte, wantAccept bool, wantNamed peer.ID, wantFields string, sigAccept, why string) {
		rd := readers[0]
		if rdr == "register" {
			rd = readers[1]
		}
		var named peer.ID
		var fields string
		var err error
		if pn, m := vp.Guard(func() { named, fields, err = rd.read(data) }); pn {
			r.Violation(rdr+":panic", key, firstLine(m), nil)
			return
		}
		if err == nil {
			r.Outcome(rdr + "-accepted")
		} else {
			r.Outcome(rdr + "-rejected")
		}
		if wantAccept {
			if err != nil {
				r.Violation(rdr+":rejected-own-request", key, fmt.Sprintf("a request made by the library's constructor was rejected: %v", err), nil)
				return
			}
			if named != wantNamed || fields != wantFields {
				r.Violation(rdr+":fields-differ", key, fmt.Sprintf("returned request differs from the constructor arguments: got %s %s want %s %s", named, fields, wantNamed, wantFields), nil)
			}
			return
		}
		if err == nil {
			r.Violation(rdr+":accepted:"+sigAccept, key, fmt.Sprintf("%s request accepted although %s (named provider %s)", rdr, why, named), nil)
			return
		}
		if errors.Is(err, errRequestReturnedWithError) {
			r.Violation(rdr+":rejected-request-still-returned:"+sigAccept, key, fmt.Sprintf("%s (the envelope: %s)", err, why), nil)
			return
		}
		// a rejection is not remembered as anything else: the same bytes again, to
		// the same reader, are rejected again (the readers are package-level
		// functions; anything they keep is shared by all callers)
		for rep := 2; rep <= 3; rep++ {
			var err2 error
			if pn, m := vp.Guard(func() { _, _, err2 = rd.read(data) }); pn {
				r.Violation(rdr+":panic", key, fmt.Sprintf("presentation %d: %s", rep, firstLine(m)), nil)
				return
			}
			if err2 == nil {
				r.Violation(rdr+":accepted-when-presented-again:"+sigAccept, key, fmt.Sprintf("a request rejected at first (%s) is accepted at presentation %d", why, rep), nil)
				return
			}
		}
	}

	// 1. signer / named pairs, all requests
	ia := ingestAlphabet()
	for _, kt := range kts {
		signer := fixture.Key(kt, 0)
		nameds := []struct {
			label string
			id    *fixture.Identity
		}{{"self", signer}, {"same-type", fixture.Key(kt, 1)}}
		for _, ot := range kts {
			if ot != kt {
				nameds = append(nameds, struct {
					label string
					id    *fixture.Identity
				}{"other-type-" + ot, fixture.Key(ot, 0)})
			}
		}
		for _, nm := range nameds {
			for _, a := range ia {
				key := fmt.Sprintf("pair|ingest|%s|%s|%s", kt, nm.label, a.label)
				if !r.Mine(key) {
					continue
				}
				r.Eval(key, nm.label != "self")
				// what the request is built from is written down before the
				// call (the arguments stay the caller's: the constructor gets
				// private copies of them, and they are compared afterwards)
				want := ingestFields(&model.IngestRequest{Multihash: a.mh, ContextID: a.ctx, Metadata: a.md, Addrs: a.addrs})
				if len(a.ctx) == 0 || len(a.md) == 0 {
					// JSON turns empty into null/nil; compare through the same formatting
					want = fmt.Sprintf("mh=%x ctx=%x md=%x addrs=%v", []byte(a.mh), a.ctx, a.md, a.addrs)
				}
				argMh, argCtx, argMd := append(multihash.Multihash(nil), a.mh...), append([]byte(nil), a.ctx...), append([]byte(nil), a.md...)
				var argAddrs []string
				if a.addrs != nil {
					argAddrs = append([]string{}, a.addrs...)
				}
				argsBefore := fmt.Sprintf("mh=%x ctx=%x md=%x addrs=%q", []byte(argMh), argCtx, argMd, argAddrs)
				data, err := model.MakeIngestRequest(nm.id.ID, signer.Priv, argMh, argCtx, argMd, argAddrs)
				if err != nil {
					r.Violation("ingest:make-error", key, err.Error(), nil)
					continue
				}
				if after := fmt.Sprintf("mh=%x ctx=%x md=%x addrs=%q", []byte(argMh), argCtx, argMd, argAddrs); after != argsBefore {
					r.Violation("ingest:constructor-changed-its-arguments", key, fmt.Sprintf("before %s\nafter  %s", argsBefore, after), nil)
					continue
				}
				expect(key, "ingest", data, nm.label == "self", nm.id.ID, want, "foreign-signer", "it was sealed by "+signer.ID.String()+", not by the provider it names")
				if nm.label == "self" {
					r.Sample(map[string]any{"reader": "ingest", "key_type": kt, "request": a.label, "envelope_bytes": len(data)})
				}
			}
			for na := 1; na <= 3; na++ {
				key := fmt.Sprintf("pair|register|%s|%s|%d", kt, nm.label, na)
				if !r.Mine(key) {
					continue
				}
				r.Eval(key, nm.label != "self")
				addrs := []string{"/ip4/1.2.3.4/tcp/9999", "/ip6/2001:db8::1/tcp/443/https", "/dns/example.com/tcp/80/http"}[:na]
				data, err := model.MakeRegisterRequest(nm.id.ID, signer.Priv, addrs)
				if err != nil {
					r.Violation("register:make-error", key, err.Error(), nil)
					continue
				}
				expect(key, "register", data, nm.label == "self", nm.id.ID, fmt.Sprintf("addrs=%v", addrs), "foreign-signer", "it was sealed by another identity than the provider it names")
			}
			// addresses that are built from identities: each address form closed by
			// (or consisting of) a /p2p/ component that names the provider of the
			// same request, its signer, or a third identity; alone and next to a
			// plain address, in both orders
			for wi, who := range []peer.ID{nm.id.ID, signer.ID, fixture.Key(kt, 1).ID, fixture.Key("ed25519", 1).ID} {
				forms := []string{"/ip4/1.2.3.4/tcp/1/p2p/" + who.String(), "/p2p/" + who.String(), "/ip4/1.2.3.4/tcp/1/p2p/" + who.String() + "/p2p-circuit", "/dns4/example.com/tcp/443/https/p2p/" + who.String()}
				for fi, form := range forms {
					for li, addrs := range [][]string{{form}, {"/ip4/9.9.9.9/tcp/9", form}, {form, "/ip4/9.9.9.9/tcp/9"}, {form, form}} {
						key := fmt.Sprintf("pair|identity-addresses|%s|%s|who%d|form%d|list%d", kt, nm.label, wi, fi, li)
						if !r.Mine(key) {
							continue
						}
						r.Eval(key, true)
						a := ia[5]
						want := ingestFields(&model.IngestRequest{Multihash: a.mh, ContextID: a.ctx, Metadata: a.md, Addrs: addrs})
						data, err := model.MakeIngestRequest(nm.id.ID, signer.Priv, a.mh, a.ctx, a.md, append([]string{}, addrs...))
						if err != nil {
							r.Violation("ingest:make-error", key, err.Error(), nil)
						} else {
							expect(key, "ingest", data, nm.label == "self", nm.id.ID, want, "foreign-signer", "it was sealed by "+signer.ID.String()+", not by the provider it names")
						}
						data, err = model.MakeRegisterRequest(nm.id.ID, signer.Priv, append([]string{}, addrs...))
						if err != nil {
							r.Violation("register:make-error", key, err.Error(), nil)
						} else {
							expect(key, "register", data, nm.label == "self", nm.id.ID, fmt.Sprintf("addrs=%v", addrs), "foreign-signer", "it was sealed by another identity than the provider it names")
						}
					}
				}
			}
			// address lists with an unparseable entry at every position: the
			// constructor refuses, or what it builds reads back with every address
			if nm.label == "self" {
				good := []string{"/ip4/1.2.3.4/tcp/9999", "/ip6/2001:db8::1/tcp/443/https", "/dns/example.com/tcp/80/http"}
				for n := 1; n <= 4; n++ {
					for badAt := 0; badAt < n; badAt++ {
						for bi, bad := range []string{"not-a-multiaddr", "", "/ip4/999.1.1.1/tcp/1"} {
							key := fmt.Sprintf("register-bad-address|%s|n%d|at%d|b%d", kt, n, badAt, bi)
							if !r.Mine(key) {
								continue
							}
							r.Eval(key, true)
							var addrs []string
							for i, g := 0, 0; i < n; i++ {
								if i == badAt {
									addrs = append(addrs, bad)
								} else {
									addrs = append(addrs, good[g%len(good)])
									g++
								}
							}
							var data []byte
							var merr error
							if pn, pm := vp.Guard(func() { data, merr = model.MakeRegisterRequest(nm.id.ID, signer.Priv, addrs) }); pn {
								r.Violation("register:make-panic", key, firstLine(pm), nil)
								continue
							}
							if merr != nil {
								r.Outcome("register-bad-address-refused")
								continue
							}
							rec, rerr := model.ReadRegisterRequest(data)
							if rerr != nil {
								r.Violation("register:constructed-request-rejected", key, fmt.Sprintf("MakeRegisterRequest accepted %q but ReadRegisterRequest rejects the result: %v", addrs, rerr), nil)
								continue
							}
							if len(rec.Addrs) != len(addrs) {
								r.Violation("register:fields-not-returned:addresses", key, fmt.Sprintf("a request built from %d addresses %q reads back with %d: %v", len(addrs), addrs, len(rec.Addrs), rec.Addrs), nil)
							}
						}
					}
				}
			}
		}
	}

	// 1b. the sequence number is a dimension of a request too, and the
	// constructors always take it from the clock: requests built by hand with
	// sequence numbers 0, 1 and the largest, sealed the way libp2p seals a
	// record (record.Seal uses the record's own Domain and Codec), are read by
	// the library's reader with all their fields; and a genuine request is also
	// read through libp2p's typed-record interface of IngestRequest
	// (ConsumeTypedEnvelope: the record's Domain, Codec and UnmarshalRecord),
	// which refuses the same request sealed for another domain.
	for _, kt := range kts {
		signer := fixture.Key(kt, 0)
		a := ia[5]
		for _, seq := range []uint64{0, 1, 1<<63 - 1, 1<<64 - 1} {
			key := fmt.Sprintf("sequence|%s|%d", kt, seq)
			if !r.Mine(key) {
				continue
			}
			r.Eval(key, true)
			req := &model.IngestRequest{Multihash: a.mh, ProviderID: signer.ID, ContextID: a.ctx, Metadata: a.md, Addrs: a.addrs, Seq: seq}
			// the record's accessors are read-only: asked for its domain and
			// payload type before it is sealed, the request is what it was
			if dom, codec := req.Domain(), req.Codec(); dom != model.IngestRequestEnvelopeDomain || !bytes.Equal(codec, model.IngestRequestEnvelopePayloadType) || req.Seq != seq || ingestFields(req) != ingestFields(&model.IngestRequest{Multihash: a.mh, ContextID: a.ctx, Metadata: a.md, Addrs: a.addrs}) {
				r.Violation("ingest:request-changed-by-its-own-accessors", key, fmt.Sprintf("after Domain() (%q) and Codec() a request built with sequence number %d has sequence number %d", dom, seq, req.Seq), nil)
				continue
			}
			var env *record.Envelope
			var serr error
			if pn, pm := vp.Guard(func() { env, serr = record.Seal(req, signer.Priv) }); pn {
				r.Violation("ingest:seal-panic", key, firstLine(pm), nil)
				continue
			}
			if serr != nil {
				r.Violation("ingest:request-with-this-sequence-number-cannot-be-sealed", key, fmt.Sprintf("record.Seal of an ingest request with sequence number %d: %v", seq, serr), nil)
				continue
			}
			data, err := env.Marshal()
			if err != nil {
				panic(err)
			}
			got, rerr := model.ReadIngestRequest(data)
			if rerr != nil {
				r.Violation("ingest:rejected-own-request:by-sequence-number", key, fmt.Sprintf("a request with sequence number %d sealed by its provider was rejected: %v", seq, rerr), nil)
				continue
			}
			if got.ProviderID != signer.ID || got.Seq != seq || ingestFields(got) != ingestFields(req) {
				r.Violation("ingest:fields-differ:by-sequence-number", key, fmt.Sprintf("read back provider %s seq %d %s, sealed provider %s seq %d %s", got.ProviderID, got.Seq, ingestFields(got), signer.ID, seq, ingestFields(req)), nil)
				continue
			}
			// the typed-record route, for the request sealed above and for one
			// made by the constructor
			made, err := model.MakeIngestRequest(signer.ID, signer.Priv, a.mh, a.ctx, a.md, a.addrs)
			if err != nil {
				panic(err)
			}
			for which, d := range map[string][]byte{"hand-built": data, "constructor-made": made} {
				dest := &model.IngestRequest{}
				var tenv *record.Envelope
				var terr error
				if pn, pm := vp.Guard(func() { tenv, terr = record.ConsumeTypedEnvelope(d, dest) }); pn {
					r.Violation("ingest:typed-envelope-panic", key, firstLine(pm), nil)
					continue
				}
				if terr != nil || tenv == nil {
					r.Violation("ingest:typed-record-route-rejects-own-request", key, fmt.Sprintf("record.ConsumeTypedEnvelope with an IngestRequest as destination rejects a %s request: %v", which, terr), nil)
					continue
				}
				if !bytes.Equal(tenv.PayloadType, dest.Codec()) || dest.ProviderID != signer.ID || (which == "hand-built" && (dest.Seq != seq || ingestFields(dest) != ingestFields(req))) {
					r.Violation("ingest:typed-record-route-fields-differ", key, fmt.Sprintf("%s request read through ConsumeTypedEnvelope: provider %s seq %d %s", which, dest.ProviderID, dest.Seq, ingestFields(dest)), nil)
				}
			}
			// the same payload sealed for other domains: refused by that route too
			for _, dom := range []string{"", "indexer-ingest-request-xyz", "libp2p-peer-record"} {
				fr := &foreignDomainRecord{IngestRequest: *req, domain: dom}
				fenv, ferr := sealRaw(fr.domain, fr.Codec(), mustJSON(&fr.IngestRequest), signer.Priv)
				if ferr != nil {
					panic(ferr)
				}
				dest := &model.IngestRequest{}
				var terr error
				if pn, pm := vp.Guard(func() { _, terr = record.ConsumeTypedEnvelope(fenv, dest) }); pn {
					r.Violation("ingest:typed-envelope-panic", key, firstLine(pm), nil)
					continue
				}
				if terr == nil {
					r.Violation("ingest:typed-record-route-accepts-foreign-domain", key, fmt.Sprintf("an envelope sealed for the domain %q is accepted by ConsumeTypedEnvelope with an IngestRequest (sequence number %d) as destination", dom, seq), nil)
				}
			}
			r.Outcome("sequence-ok")
		}
	}

	// 2. envelope alterations
	for _, kt := range kts {
		signer := fixture.Key(kt, 0)
		other := fixture.Key(kt, 1)
		a := ia[5]
		good := map[string][]byte{}
		var err error
		good["ingest"], err = model.MakeIngestRequest(signer.ID, signer.Priv, a.mh, a.ctx, a.md, a.addrs)
		if err != nil {
			panic(err)
		}
		good["register"], err = model.MakeRegisterRequest(signer.ID, signer.Priv, []string{"/ip4/1.2.3.4/tcp/9999"})
		if err != nil {
			panic(err)
		}
		// a second valid request by the same signer (for payload / signature swaps) and one by another identity
		good2 := map[string][]byte{}
		good2["ingest"], _ = model.MakeIngestRequest(signer.ID, signer.Priv, ia[0].mh, ia[0].ctx, ia[0].md, ia[0].addrs)
		good2["register"], _ = model.MakeRegisterRequest(signer.ID, signer.Priv, []string{"/ip4/5.6.7.8/tcp/1"})
		goodOther := map[string][]byte{}
		goodOther["ingest"], _ = model.MakeIngestRequest(other.ID, other.Priv, a.mh, a.ctx, a.md, a.addrs)
		goodOther["register"], _ = model.MakeRegisterRequest(other.ID, other.Priv, []string{"/ip4/1.2.3.4/tcp/9999"})

		for _, rdr := range []string{"ingest", "register"} {
			orig := good[rdr]
			origEnv, err := record.UnmarshalEnvelope(orig)
			if err != nil {
				panic(err)
			}
			// every single-bit flip
			step := 1
			if !thorough && kt == "rsa" {
				step = 3 // quick: every third bit of the long RSA envelope
			}
			for bit := 0; bit < len(orig)*8; bit += step {
				key := fmt.Sprintf("flip|%s|%s|%d", rdr, kt, bit)
				if !r.Mine(key) {
					continue
				}
				r.Eval(key, true)
				m := append([]byte(nil), orig...)
				m[bit/8] ^= 1 << (bit % 8)
				// semantic tolerance: same decoded envelope => not an alteration
				if e2, err := record.UnmarshalEnvelope(m); err == nil && e2.Equal(origEnv) {
					r.Count("flips_without_semantic_change", 1)
					continue
				}
				expect(key, rdr, m, false, "", "", "bit-flip", fmt.Sprintf("bit %d of the sealed envelope was flipped", bit))
			}
			// field-level replacements
			var pe, pe2, peo recpb.Envelope
			if err := proto.Unmarshal(orig, &pe); err != nil {
				panic(err)
			}
			proto.Unmarshal(good2[rdr], &pe2)
			proto.Unmarshal(goodOther[rdr], &peo)
			type alt struct {
				name string
				mod  func(e *recpb.Envelope)
			}
			alts := []alt{
				{"key-of-other-identity", func(e *recpb.Envelope) { e.PublicKey = peo.PublicKey }},
				{"key-of-other-type", func(e *recpb.Envelope) {
					for _, ot := range kts {
						if ot != kt {
							pk, _ := crypto.PublicKeyToProto(fixture.Key(ot, 0).Priv.GetPublic())
							e.PublicKey = pk
							return
						}
					}
				}},
				{"payload-type-changed", func(e *recpb.Envelope) { e.PayloadType = append(append([]byte(nil), e.PayloadType...), 'x') }},
				{"payload-type-empty", func(e *recpb.Envelope) { e.PayloadType = nil }},
				{"payload-of-other-request", func(e *recpb.Envelope) { e.Payload = pe2.Payload }},
				{"payload-byte-changed", func(e *recpb.Envelope) {
					p := append([]byte(nil), e.Payload...)
					p[len(p)/2] ^= 0x01
					e.Payload = p
				}},
				{"signature-of-other-request", func(e *recpb.Envelope) { e.Signature = pe2.Signature }},
				{"signature-of-other-identity", func(e *recpb.Envelope) { e.Signature = peo.Signature }},
				{"signature-empty", func(e *recpb.Envelope) { e.Signature = nil }},
				{"signature-truncated", func(e *recpb.Envelope) { e.Signature = e.Signature[:len(e.Signature)-1] }},
				{"key-and-signature-of-other-identity", func(e *recpb.Envelope) { e.PublicKey = peo.PublicKey; e.Signature = peo.Signature }},
			}
			for _, al := range alts {
				key := fmt.Sprintf("field|%s|%s|%s", rdr, kt, al.name)
				if !r.Mine(key) {
					continue
				}
				r.Eval(key, true)
				e := proto.Clone(&pe).(*recpb.Envelope)
				al.mod(e)
				m, err := proto.Marshal(e)
				if err != nil {
					panic(err)
				}
				expect(key, rdr, m, false, "", "", "field:"+al.name, "envelope field altered: "+al.name)
			}
			// replay to the other reader
			otherReader := "register"
			if rdr == "register" {
				otherReader = "ingest"
			}
			key := fmt.Sprintf("cross|%s->%s|%s", rdr, otherReader, kt)
			if r.Mine(key) {
				r.Eval(key, true)
				expect(key, otherReader, orig, false, "", "", "cross-reader", "it is a "+rdr+" request")
			}
		}
		// same payload type and content, sealed for another domain
		for _, dom := range []string{"", "indexer-ingest-request-recorD", "libp2p-peer-record", "x"} {
			key := fmt.Sprintf("domain|%s|%q", kt, dom)
			if !r.Mine(key) {
				continue
			}
			r.Eval(key, true)
			if dom == "" {
				// record.Seal refuses an empty domain; nothing to feed
				continue
			}
			fr := &foreignDomainRecord{IngestRequest: model.IngestRequest{Multihash: a.mh, ProviderID: signer.ID, ContextID: a.ctx, Metadata: a.md, Addrs: a.addrs, Seq: 1}, domain: dom}
			env, err := record.Seal(fr, signer.Priv)
			if err != nil {
				continue
			}
			m, err := env.Marshal()
			if err != nil {
				continue
			}
			expect(key, "ingest", m, false, "", "", "foreign-domain", fmt.Sprintf("it was sealed for domain %q", dom))
		}
	}
	// the provider named is the signer's own peer ID under another multihash
	// code (same digest bytes): a different identity, which no key owns
	for _, kt := range kts {
		signer := fixture.Key(kt, 0)
		dm, err := multihash.Decode([]byte(signer.ID))
		if err != nil {
			panic(err)
		}
		for _, code := range []uint64{multihash.IDENTITY, multihash.SHA2_256, multihash.SHA1, multihash.SHA2_512, multihash.KECCAK_256, 0x55} {
			if code == dm.Code {
				continue
			}
			enc, err := multihash.Encode(dm.Digest, code)
			if err != nil {
				continue
			}
			relabelled, err := peer.IDFromBytes(enc)
			if err != nil || relabelled == signer.ID {
				continue
			}
			for _, rdr := range []string{"ingest", "register"} {
				key := fmt.Sprintf("relabelled-id|%s|%s|code%x", rdr, kt, code)
				if !r.Mine(key) {
					continue
				}
				r.Eval(key, true)
				var rec record.Record
				if rdr == "ingest" {
					rec = &model.IngestRequest{Multihash: fixture.Mh("c18-relabel", multihash.SHA2_256, -1), ProviderID: relabelled, ContextID: []byte("ctx"), Metadata: []byte("md"), Addrs: []string{"/ip4/1.2.3.4/tcp/9999"}, Seq: 1}
				} else {
					pr := peer.NewPeerRecord()
					pr.PeerID = relabelled
					pr.Addrs = []multiaddr.Multiaddr{multiaddr.StringCast("/ip4/1.2.3.4/tcp/9999")}
					rec = pr
				}
				env, err := record.Seal(rec, signer.Priv)
				if err != nil {
					r.Outcome("relabelled-seal-refused")
					continue
				}
				data, err := env.Marshal()
				if err != nil {
					continue
				}
				expect(key, rdr, data, false, "", "", "provider-id-is-the-signers-digest-under-another-hash-code", fmt.Sprintf("it names %s, which is the signer's digest under multihash code 0x%x, not the signer %s", relabelled, code, signer.ID))
			}
		}
	}
	// domain and payload type varied independently: a genuine request payload,
	// sealed by the provider it names, for every combination of {right, other}
	// domain x {right, other} payload type; only (right, right) may be accepted
	for _, kt := range kts {
		signer := fixture.Key(kt, 0)
		ingestPayload, err := (&model.IngestRequest{Multihash: fixture.Mh("c18-type", multihash.SHA2_256, -1), ProviderID: signer.ID, ContextID: []byte("ctx"), Metadata: []byte("md"), Addrs: []string{"/ip4/1.2.3.4/tcp/9999"}, Seq: 1}).MarshalRecord()
		if err != nil {
			panic(err)
		}
		pr := peer.NewPeerRecord()
		pr.PeerID = signer.ID
		pr.Addrs = []multiaddr.Multiaddr{multiaddr.StringCast("/ip4/1.2.3.4/tcp/9999")}
		registerPayload, err := pr.MarshalRecord()
		if err != nil {
			panic(err)
		}
		for _, rd := range []struct {
			reader, domain string
			codec, payload []byte
		}{
			{"ingest", model.IngestRequestEnvelopeDomain, model.IngestRequestEnvelopePayloadType, ingestPayload},
			{"register", peer.PeerRecordEnvelopeDomain, peer.PeerRecordEnvelopePayloadType, registerPayload},
		} {
			domains := []string{rd.domain, rd.domain + "x", "libp2p-peer-record", "indexer-ingest-request-record", "x"}
			codecs := [][]byte{rd.codec, append(append([]byte(nil), rd.codec...), 'x'), peer.PeerRecordEnvelopePayloadType, model.IngestRequestEnvelopePayloadType, {0x99, 0x99}, {}}
			for di, dom := range domains {
				for ci, codec := range codecs {
					rightDomain, rightCodec := dom == rd.domain, bytes.Equal(codec, rd.codec)
					key := fmt.Sprintf("domain-x-type|%s|%s|d%d|c%d", rd.reader, kt, di, ci)
					if !r.Mine(key) {
						continue
					}
					r.Eval(key, !(rightDomain && rightCodec))
					env, err := record.Seal(&rawRecord{domain: dom, codec: codec, payload: rd.payload}, signer.Priv)
					if err != nil {
						r.Outcome("seal-refused")
						continue
					}
					m, err := env.Marshal()
					if err != nil {
						continue
					}
					var rerr error
					pn, pm := vp.Guard(func() {
						if rd.reader == "ingest" {
							_, rerr = model.ReadIngestRequest(m)
						} else {
							_, rerr = model.ReadRegisterRequest(m)
						}
					})
					switch {
					case pn:
						r.Violation(rd.reader+":panic:domain-x-type", key, firstLine(pm), nil)
					case rightDomain && rightCodec && rerr != nil:
						r.Violation(rd.reader+":rejected:own-domain-and-type", key, rerr.Error(), nil)
					case !(rightDomain && rightCodec) && rerr == nil:
						what := "another payload type"
						if !rightDomain {
							what = "another domain"
							if !rightCodec {
								what = "another domain and payload type"
							}
						}
						r.Violation(rd.reader+":accepted:"+strings.ReplaceAll(what, " ", "-"), key, fmt.Sprintf("%s request accepted although it was sealed for %s (domain %q, payload type %q)", rd.reader, what, dom, codec), nil)
					default:
						r.Outcome("domain-x-type-ok")
					}
				}
			}
		}
	}
	t.Logf("violations: %d", r.Violations())
}
