// Package vp is the result recorder shared by all harness packages. Every
// harness test (TestCheck) creates one Recorder, reports each evaluated case
// to it, and calls Finish, which writes a shard result file that
// cmd/verifctl merges into /verif/evidence/<id>.json.
package vp

import (
	"encoding/binary"
	"encoding/json"
	"fmt"
	"hash/fnv"
	"os"
	"runtime"
	"runtime/debug"
	"sort"
	"strconv"
	"strings"
	"sync"
	"time"
)

// Violation is one property violation found by a harness.
type Violation struct {
	// Signature identifies the failing input / call site / history class. It
	// is what known_findings.txt entries are matched against.
	Signature string `json:"signature"`
	// Case is the replay key: running the harness with VERIF_REPLAY_KEY=Case
	// re-executes exactly this case.
	Case string `json:"case"`
	// Message says what was observed and what was expected.
	Message string `json:"message"`
	// Detail is free-form data for the replay file (schedule, input bytes...).
	Detail any `json:"detail,omitempty"`
}

// Result is what one shard writes.
type Result struct {
	Property    string   `json:"property_id"`
	Tier        string   `json:"tier"`
	Seed        int64    `json:"seed"`
	Shard       int      `json:"shard"`
	Shards      int      `json:"shards"`
	Level       string   `json:"level"`
	Rule        string   `json:"rule"`
	Assumptions []string `json:"assumptions"`
	Bounds      any      `json:"bounds,omitempty"`

	Evaluations int64 `json:"evaluations"`
	Distinct    int64 `json:"distinct_nontrivial"`
	States      int64 `json:"states"`
	Transitions int64 `json:"transitions"`
	Traces      int64 `json:"traces_validated_against_impl"`
	// HashFile holds the 8-byte hashes of distinct states so that the driver
	// can merge state counts of shards exactly.
	HashFile string `json:"hash_file,omitempty"`

	Samples    []any            `json:"samples"`
	Violations []Violation      `json:"violations"`
	NViol      int64            `json:"n_violations"`
	Exhaustive bool             `json:"exhaustive"`
	Notes      []string         `json:"notes,omitempty"`
	Counters   map[string]int64 `json:"counters,omitempty"`
	Outcomes   map[string]int64 `json:"outcomes,omitempty"`
	WallS      float64          `json:"wall_s"`
	Replay     bool             `json:"replay"`
	ReplayHit  int64            `json:"replay_hit"`
}

// Recorder accumulates a Result. It is safe for concurrent use.
type Recorder struct {
	mu       sync.Mutex
	res      Result
	distinct map[uint64]struct{}
	states   map[uint64]struct{}
	start    time.Time
	out      string
	replay   string
	deadline time.Time
	cut      bool
	maxViol  int
	single   bool
	sigCount map[string]int
}

// Env values.
func Tier() string {
	t := os.Getenv("VERIF_TIER")
	if t != "thorough" {
		return "quick"
	}
	return t
}

func Thorough() bool { return Tier() == "thorough" }

func Seed() int64 {
	s, _ := strconv.ParseInt(os.Getenv("VERIF_SEED"), 10, 64)
	return s
}

func shardEnv() (int, int) {
	s := os.Getenv("VERIF_SHARD")
	if s == "" {
		return 0, 1
	}
	parts := strings.Split(s, "/")
	if len(parts) != 2 {
		return 0, 1
	}
	i, _ := strconv.Atoi(parts[0])
	n, _ := strconv.Atoi(parts[1])
	if n <= 0 {
		return 0, 1
	}
	return i, n
}

// New creates the recorder for a property.
func New(property, level, rule string, assumptions ...string) *Recorder {
	i, n := shardEnv()
	r := &Recorder{
		distinct: map[uint64]struct{}{},
		states:   map[uint64]struct{}{},
		start:    time.Now(),
		out:      os.Getenv("VERIF_OUT"),
		replay:   os.Getenv("VERIF_REPLAY_KEY"),
		maxViol:  40,
		sigCount: map[string]int{},
	}
	r.res = Result{
		Property: property, Tier: Tier(), Seed: Seed(), Shard: i, Shards: n,
		Level: level, Rule: rule, Assumptions: assumptions, Exhaustive: true,
		Counters: map[string]int64{}, Outcomes: map[string]int64{},
		Replay: r.replay != "",
	}
	if b := os.Getenv("VERIF_BUDGET_S"); b != "" {
		if s, err := strconv.ParseFloat(b, 64); err == nil && s > 0 {
			r.deadline = r.start.Add(time.Duration(s * float64(time.Second)))
		}
	}
	r.startWatchdog()
	return r
}

func hash64(s string) uint64 {
	h := fnv.New64a()
	h.Write([]byte(s))
	return h.Sum64()
}

// Hash64 exposes the key hash.
func Hash64(s string) uint64 { return hash64(s) }

// Shard returns this process's shard index and the number of shards.
func (r *Recorder) Shard() (int, int) {
	if r.single {
		return 0, 1
	}
	return r.res.Shard, r.res.Shards
}

// Single makes Shard report (0,1) from now on: for harnesses that hand whole
// scenarios to shards and do not want the explorer to split them further.
func Single(r *Recorder) *Recorder {
	r.single = true
	return r
}

// Replaying reports whether a single case is being replayed.
func (r *Recorder) Replaying() bool { return r.replay != "" }

// ReplayKey returns the case key being replayed ("" when not replaying).
func (r *Recorder) ReplayKey() string { return r.replay }

// Mine says whether the case with this key is to be evaluated by this shard
// (hash partition, so equal keys always land in the same shard and the sum of
// per-shard distinct counts is the exact global count). In replay mode only
// the replayed case is mine.
func (r *Recorder) Mine(key string) bool {
	if r.replay != "" {
		if key == r.replay {
			r.mu.Lock()
			r.res.ReplayHit++
			r.mu.Unlock()
			return true
		}
		return false
	}
	if r.res.Shards <= 1 {
		return true
	}
	return int(hash64(key)%uint64(r.res.Shards)) == r.res.Shard
}

// MineIndex partitions by index instead of by key (for generators whose
// sub-trees are expensive to enumerate). In replay mode every index is mine
// and the harness filters with Mine / ReplayKey further down.
func (r *Recorder) MineIndex(i int) bool {
	if r.replay != "" {
		return true
	}
	if r.res.Shards <= 1 {
		return true
	}
	return i%r.res.Shards == r.res.Shard
}

// Eval records one evaluated case. key identifies the case (or its
// equivalence class, for the distinct count); nontrivial says whether it
// counts as a non-trivial case by the harness's stated rule.
func (r *Recorder) Eval(key string, nontrivial bool) {
	r.mu.Lock()
	r.res.Evaluations++
	if nontrivial {
		r.distinct[hash64(key)] = struct{}{}
	}
	r.mu.Unlock()
}

// EvalN records n evaluations that share one distinct key.
func (r *Recorder) EvalN(key string, n int64, nontrivial bool) {
	r.mu.Lock()
	r.res.Evaluations += n
	if nontrivial {
		r.distinct[hash64(key)] = struct{}{}
	}
	r.mu.Unlock()
}

// State records a visited state (model_checking evidence) by canonical key.
func (r *Recorder) State(key string) bool {
	h := hash64(key)
	r.mu.Lock()
	_, seen := r.states[h]
	if !seen {
		r.states[h] = struct{}{}
	}
	r.mu.Unlock()
	return !seen
}

// Transition counts n explored transitions.
func (r *Recorder) Transition(n int64) {
	r.mu.Lock()
	r.res.Transitions += n
	r.mu.Unlock()
}

// Trace counts n complete executions of the real implementation.
func (r *Recorder) Trace(n int64) {
	r.mu.Lock()
	r.res.Traces += n
	r.mu.Unlock()
}

// Count adds to a named counter reported in the evidence.
func (r *Recorder) Count(name string, n int64) {
	r.mu.Lock()
	r.res.Counters[name] += n
	r.mu.Unlock()
}

// Outcome counts one observed outcome class (to show exploration is not
// vacuous: many executions with one outcome mean nothing collided).
func (r *Recorder) Outcome(name string) {
	r.mu.Lock()
	if len(r.res.Outcomes) < 4096 || r.res.Outcomes[name] > 0 {
		r.res.Outcomes[name]++
	}
	r.mu.Unlock()
}

// Sample keeps up to 6 sample cases, written into the evidence.
func (r *Recorder) Sample(v any) {
	r.mu.Lock()
	if len(r.res.Samples) < 24 {
		r.res.Samples = append(r.res.Samples, v)
	}
	r.mu.Unlock()
}

// Note adds a free-text note to the evidence.
func (r *Recorder) Note(format string, a ...any) {
	r.mu.Lock()
	if len(r.res.Notes) < 50 {
		r.res.Notes = append(r.res.Notes, fmt.Sprintf(format, a...))
	}
	r.mu.Unlock()
}

// Bounds records the bounds of this run (free-form).
func (r *Recorder) Bounds(v any) {
	r.mu.Lock()
	r.res.Bounds = v
	r.mu.Unlock()
}

// NotExhaustive marks the run as having been cut (budget, divergence, cap).
func (r *Recorder) NotExhaustive(why string) {
	r.mu.Lock()
	r.res.Exhaustive = false
	if len(r.res.Notes) < 50 {
		r.res.Notes = append(r.res.Notes, "not exhaustive: "+why)
	}
	r.mu.Unlock()
}

// OverBudget reports whether the internal time budget (VERIF_BUDGET_S) has
// run out. The first time it does, the run is marked non-exhaustive.
func (r *Recorder) OverBudget() bool {
	if r.deadline.IsZero() {
		return false
	}
	if time.Now().Before(r.deadline) {
		return false
	}
	r.mu.Lock()
	first := !r.cut
	r.cut = true
	r.mu.Unlock()
	if first {
		r.NotExhaustive("internal time budget reached")
	}
	return true
}

// Violation records a violation. At most 3 full records are kept per
// signature and 40 in total; all are counted.
func (r *Recorder) Violation(sig, caseKey, msg string, detail any) {
	r.mu.Lock()
	r.res.NViol++
	r.sigCount[sig]++
	if r.sigCount[sig] <= 3 && len(r.res.Violations) < r.maxViol {
		r.res.Violations = append(r.res.Violations, Violation{Signature: sig, Case: caseKey, Message: msg, Detail: detail})
	}
	r.mu.Unlock()
}

// Violations returns the number of violations so far.
func (r *Recorder) Violations() int64 {
	r.mu.Lock()
	defer r.mu.Unlock()
	return r.res.NViol
}

// Guard runs f and converts a panic into an error string with stack.
// LibraryPanics, when set (by test packages built with the instrumentation
// overlay: vsched.TakePanics), returns and clears the panics that the overlay
// recovered at the top of goroutines spawned by the library.
var LibraryPanics func() []string

// startWatchdog: a harness that makes no progress (no evaluation, state,
// trace or transition recorded) for ten minutes of real time is stuck; dump the
// goroutines and exit with status 3, which the driver reports as a machinery
// error, instead of hanging without bound (go test's own timeout is disabled).
func (r *Recorder) startWatchdog() {
	go func() {
		last, since := int64(-1), time.Now()
		for {
			time.Sleep(15 * time.Second)
			r.mu.Lock()
			cur := r.res.Evaluations + r.res.Transitions + r.res.Traces + int64(len(r.states))
			r.mu.Unlock()
			if cur != last {
				last, since = cur, time.Now()
				continue
			}
			if time.Since(since) > 10*time.Minute {
				buf := make([]byte, 1<<22)
				buf = buf[:runtime.Stack(buf, true)]
				fmt.Fprintf(os.Stderr, "WATCHDOG(vp): nothing recorded for %v; goroutines:\n%s\n", time.Since(since).Round(time.Second), buf)
				os.Exit(3)
			}
		}
	}()
}

// Guard runs f and reports a panic of f itself or, with the overlay, of a
// goroutine the library spawned while f ran (f is expected to wait for
// quiescence before it returns).
func Guard(f func()) (panicked bool, msg string) {
	if LibraryPanics != nil {
		LibraryPanics()
	}
	defer func() {
		if e := recover(); e != nil {
			panicked = true
			msg = fmt.Sprintf("%v\n%s", e, debug.Stack())
			return
		}
		if LibraryPanics != nil {
			if ps := LibraryPanics(); len(ps) > 0 {
				panicked, msg = true, ps[0]
			}
		}
	}()
	f()
	return
}

// Finish writes the shard result.
func (r *Recorder) Finish() error {
	r.mu.Lock()
	defer r.mu.Unlock()
	r.res.Distinct = int64(len(r.distinct))
	r.res.States = int64(len(r.states))
	r.res.WallS = time.Since(r.start).Seconds()
	// signature summary
	sigs := make([]string, 0, len(r.sigCount))
	for s := range r.sigCount {
		sigs = append(sigs, s)
	}
	sort.Strings(sigs)
	for _, s := range sigs {
		r.res.Counters["violations["+s+"]"] = int64(r.sigCount[s])
	}
	if r.out == "" {
		b, _ := json.MarshalIndent(r.res, "", " ")
		fmt.Println(string(b))
		return nil
	}
	if len(r.states) > 0 {
		hf := r.out + ".states"
		buf := make([]byte, 0, 8*len(r.states))
		for h := range r.states {
			buf = binary.LittleEndian.AppendUint64(buf, h)
		}
		if err := os.WriteFile(hf, buf, 0o644); err != nil {
			return err
		}
		r.res.HashFile = hf
	}
	b, err := json.Marshal(r.res)
	if err != nil {
		return err
	}
	tmp := r.out + ".tmp"
	if err := os.WriteFile(tmp, b, 0o644); err != nil {
		return err
	}
	return os.Rename(tmp, r.out)
}
