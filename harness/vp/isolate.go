package vp

import (
	"bufio"
	"encoding/binary"
	"encoding/json"
	"fmt"
	"io"
	"os"
	"os/exec"
	"runtime"
	"runtime/metrics"
	"syscall"
)

// Reply is what an isolated worker reports for one input.
type Reply struct {
	Panicked bool   `json:"p,omitempty"`
	PanicMsg string `json:"pm,omitempty"`
	Err      string `json:"e,omitempty"`
	OK       bool   `json:"ok,omitempty"`   // call succeeded (no error)
	Alloc    uint64 `json:"a,omitempty"`    // bytes allocated by the call
	Flag     string `json:"f,omitempty"`    // handler-specific verdict ("" = fine)
	Info     string `json:"i,omitempty"`    // handler-specific detail
	Died     bool   `json:"died,omitempty"` // set by the parent: worker process died on this input
	DiedLog  string `json:"-"`
}

var allocSample = []metrics.Sample{{Name: "/gc/heap/allocs:bytes"}}

// AllocBytes returns the cumulative bytes allocated by the process.
func AllocBytes() uint64 {
	metrics.Read(allocSample)
	return allocSample[0].Value.Uint64()
}

// ServeChild is the body of TestChild in harness packages whose decoders can
// be driven to unrecoverable failures (fatal out-of-memory): it reads
// length-prefixed inputs from stdin and writes one JSON reply line per input.
// The address space is limited so that a runaway allocation kills only this
// worker, quickly, instead of the machine.
func ServeChild(handler func(kind byte, input []byte) Reply) {
	if os.Getenv("VERIF_CHILD") == "" {
		return
	}
	limit := uint64(6 << 30)
	_ = syscall.Setrlimit(syscall.RLIMIT_AS, &syscall.Rlimit{Cur: limit, Max: limit})
	in := bufio.NewReaderSize(os.Stdin, 1<<16)
	out := bufio.NewWriterSize(os.Stdout, 1<<16)
	enc := json.NewEncoder(out)
	var hdr [5]byte
	for {
		if _, err := io.ReadFull(in, hdr[:]); err != nil {
			out.Flush()
			os.Exit(0)
		}
		n := binary.LittleEndian.Uint32(hdr[:4])
		buf := make([]byte, n)
		if _, err := io.ReadFull(in, buf); err != nil {
			out.Flush()
			os.Exit(0)
		}
		rep := handler(hdr[4], buf)
		enc.Encode(&rep)
		if in.Buffered() == 0 {
			out.Flush()
		}
	}
}

// Isolate runs inputs through a worker subprocess (the same test binary
// running TestChild) and survives the worker's death.
type Isolate struct {
	cmd    *exec.Cmd
	stdin  io.WriteCloser
	stdout *bufio.Reader
	stderr *os.File
	Deaths int
}

type isoItem struct {
	kind  byte
	input []byte
}

func (is *Isolate) start() error {
	cmd := exec.Command(os.Args[0], "-test.run", "^TestChild$", "-test.count=1", "-test.timeout=0")
	cmd.Env = append(os.Environ(), "VERIF_CHILD=1", "GOMAXPROCS=2", "GOTRACEBACK=single")
	stdin, err := cmd.StdinPipe()
	if err != nil {
		return err
	}
	stdout, err := cmd.StdoutPipe()
	if err != nil {
		return err
	}
	f, err := os.CreateTemp(os.Getenv("VERIF_WORK"), "child-stderr-*")
	if err == nil {
		cmd.Stderr = f
		is.stderr = f
	}
	if err := cmd.Start(); err != nil {
		return err
	}
	is.cmd, is.stdin, is.stdout = cmd, stdin, bufio.NewReaderSize(stdout, 1<<16)
	return nil
}

func (is *Isolate) stop() {
	if is.cmd == nil {
		return
	}
	is.stdin.Close()
	is.cmd.Process.Kill()
	is.cmd.Wait()
	is.cmd = nil
	if is.stderr != nil {
		is.stderr.Close()
		os.Remove(is.stderr.Name())
		is.stderr = nil
	}
}

// Close stops the worker.
func (is *Isolate) Close() { is.stop() }

func (is *Isolate) stderrHead() string {
	if is.stderr == nil {
		return ""
	}
	b := make([]byte, 300)
	n, _ := is.stderr.ReadAt(b, 0)
	return string(b[:n])
}

// Batch holds inputs to be run together (bounded so that pipes cannot fill).
type Batch struct {
	items []isoItem
	bytes int
}

// Add queues an input; it reports whether the batch should now be run.
func (b *Batch) Add(kind byte, input []byte) bool {
	b.items = append(b.items, isoItem{kind, input})
	b.bytes += len(input) + 5
	return len(b.items) >= 128 || b.bytes >= 16<<10
}

// Len is the number of queued inputs.
func (b *Batch) Len() int { return len(b.items) }

// Run runs the batch; replies[i] corresponds to the i-th added input. An input
// on which the worker died gets Died=true; the worker is restarted and the rest
// of the batch is run.
func (is *Isolate) Run(b *Batch) ([]Reply, error) {
	replies := make([]Reply, len(b.items))
	pos := 0
	for pos < len(b.items) {
		if is.cmd == nil {
			if err := is.start(); err != nil {
				return nil, err
			}
		}
		w := bufio.NewWriterSize(is.stdin, 1<<16)
		var hdr [5]byte
		for _, it := range b.items[pos:] {
			binary.LittleEndian.PutUint32(hdr[:4], uint32(len(it.input)))
			hdr[4] = it.kind
			w.Write(hdr[:])
			w.Write(it.input)
		}
		werr := w.Flush()
		died := false
		for pos < len(b.items) {
			line, err := is.stdout.ReadBytes('\n')
			if err != nil {
				died = true
				break
			}
			if err := json.Unmarshal(line, &replies[pos]); err != nil {
				return nil, fmt.Errorf("bad reply from worker: %v: %q", err, line)
			}
			pos++
		}
		if died || (werr != nil && pos < len(b.items)) {
			replies[pos] = Reply{Died: true, DiedLog: is.stderrHead()}
			is.Deaths++
			pos++
			is.stop()
		}
	}
	b.items = b.items[:0]
	b.bytes = 0
	return replies, nil
}

// PreciseAlloc runs f and returns the exact number of heap bytes it
// allocated (runtime.ReadMemStats flushes the per-P caches, unlike the
// span-granular runtime/metrics counter). It is slow (stops the world), so
// harnesses use AllocBytes first and confirm with PreciseAlloc, taking the
// minimum of the runs, before reporting an allocation-bound violation.
func PreciseAlloc(f func()) uint64 {
	var a, b runtime.MemStats
	runtime.ReadMemStats(&a)
	f()
	runtime.ReadMemStats(&b)
	return b.TotalAlloc - a.TotalAlloc
}

// BoundedAlloc measures f cheaply and, only when the cheap measure exceeds
// bound, re-runs f (which must be repeatable) twice under the precise measure
// and returns the minimum observed.
func BoundedAlloc(bound uint64, f func()) uint64 {
	before := AllocBytes()
	f()
	used := AllocBytes() - before
	if used <= bound {
		return used
	}
	for i := 0; i < 2; i++ {
		if u := PreciseAlloc(f); u < used {
			used = u
		}
	}
	return used
}
