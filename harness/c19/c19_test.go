// C19: find responses written by the server helper are read back identically
// by the find client; content negotiation, key parsing and API errors.
// Bounded-exhaustive enumeration over an in-memory HTTP network.
package c19

import (
	"bytes"
	"context"
	"encoding/hex"
	"encoding/json"
	"errors"
	"fmt"
	"io"
	"mime"
	"net/http"
	"strconv"
	"strings"
	"testing"

	"github.com/ipfs/go-cid"
	"github.com/ipni/go-libipni/apierror"
	client "github.com/ipni/go-libipni/find/client"
	"github.com/ipni/go-libipni/find/model"
	"github.com/ipni/go-libipni/rwriter"
	"github.com/libp2p/go-libp2p/core/peer"
	"github.com/multiformats/go-multiaddr"
	"github.com/multiformats/go-multihash"

	"verifharness/fixture"
	"verifharness/memnet"
	"verifharness/vp"
)

func firstLine(s string) string {
	if i := strings.IndexByte(s, '\n'); i >= 0 {
		return s[:i]
	}
	return s
}

// server state shared with the handler (one request at a time per process)
type server struct {
	preferJSON bool
	// extra options of the response writer (custom path type names)
	opts        []rwriter.Option
	gotPathType string
	// missFor: multihashes (as strings of their bytes) for which the server
	// has no results
	missFor map[string]bool
	results []model.ProviderResult
	// what the handler observed
	// errVia: how the handler writes an error reply once it has a response
	// writer: "" on the http.ResponseWriter it was given, "wrapper" with
	// http.Error on the library's writer (which is an http.ResponseWriter
	// too), "wrapper-writeheader" with WriteHeader and Write on it
	errVia   string
	// viaEncoder: in streaming mode the handler writes each result with the
	// response writer's own encoder (ResponseWriter.Encoder()) instead of
	// going through the provider response writer; it does not call Flush
	// (which the type offers but nothing requires)
	viaEncoder bool
	gotMh    multihash.Multihash
	gotCid   cid.Cid
	newErr   error
	panicked string
}

// handler uses the response writer the documented way: errors are written
// with their status.
func (s *server) ServeHTTP(w http.ResponseWriter, r *http.Request) {
	defer func() {
		if e := recover(); e != nil {
			s.panicked = fmt.Sprint(e)
			http.Error(w, "panic", 599)
		}
	}()
	s.gotMh, s.gotCid, s.newErr = nil, cid.Undef, nil
	s.gotPathType = ""
	rw, err := rwriter.New(w, r, append([]rwriter.Option{rwriter.WithPreferJson(s.preferJSON)}, s.opts...)...)
	if err != nil {
		s.newErr = err
		writeErr(w, err)
		return
	}
	s.gotMh, s.gotCid, s.gotPathType = rw.Multihash(), rw.Cid(), rw.PathType()
	pw := rwriter.NewProviderResponseWriter(rw)
	results := s.results
	if s.missFor[string(rw.Multihash())] {
		results = nil
	}
	if s.viaEncoder && rw.IsND() {
		if len(results) == 0 {
			writeErr(w, apierror.New(nil, http.StatusNotFound))
			return
		}
		for _, pr := range results {
			if err := rw.Encoder().Encode(pr); err != nil {
				writeErr(w, err)
				return
			}
		}
		return
	}
	ew := w
	switch s.errVia {
	case "wrapper":
		ew = pw
	case "wrapper-writeheader":
		ew = headerFirst{pw}
	}
	for _, pr := range results {
		if err := pw.WriteProviderResult(pr); err != nil {
			writeErr(ew, err)
			return
		}
	}
	if err := pw.Close(); err != nil {
		writeErr(ew, err)
	}
}

// headerFirst makes http.Error's calls explicit: Header, WriteHeader, Write on
// the wrapped writer, nothing else.
type headerFirst struct{ w http.ResponseWriter }

func (h headerFirst) Header() http.Header         { return h.w.Header() }
func (h headerFirst) WriteHeader(status int)      { h.w.WriteHeader(status) }
func (h headerFirst) Write(b []byte) (int, error) { return h.w.Write(b) }

func writeErr(w http.ResponseWriter, err error) {
	var ae *apierror.Error
	if errors.As(err, &ae) {
		http.Error(w, ae.Error(), ae.Status())
		return
	}
	http.Error(w, err.Error(), http.StatusInternalServerError)
}

type resKind struct{ ctx, md, addrs int }

func (k resKind) String() string { return fmt.Sprintf("c%dm%da%d", k.ctx, k.md, k.addrs) }

func bytesKind(k int, salt byte) []byte {
	switch k {
	case 0:
		return nil
	case 1:
		return []byte{}
	default:
		return []byte{0x00, 0xff, salt, '"', '\n'}
	}
}

var provAddrs = []multiaddr.Multiaddr{multiaddr.StringCast("/ip4/1.2.3.4/tcp/80/http"), multiaddr.StringCast("/dns4/p.example/tcp/443/https")}

func (k resKind) build(i int) model.ProviderResult {
	return model.ProviderResult{
		ContextID: bytesKind(k.ctx, byte(i)),
		Metadata:  bytesKind(k.md, byte(i+100)),
		Provider:  &peer.AddrInfo{ID: fixture.Key("ed25519", i%3).ID, Addrs: append([]multiaddr.Multiaddr(nil), provAddrs[:k.addrs]...)},
	}
}

func sameResult(a, b model.ProviderResult) bool {
	if a.Provider == nil || b.Provider == nil {
		return false
	}
	if !a.Equal(b) {
		return false
	}
	if len(a.Provider.Addrs) != len(b.Provider.Addrs) {
		return false
	}
	for i := range a.Provider.Addrs {
		if !a.Provider.Addrs[i].Equal(b.Provider.Addrs[i]) {
			return false
		}
	}
	return true
}

func sameResults(got, want []model.ProviderResult) bool {
	if len(got) != len(want) {
		return false
	}
	for i := range got {
		if !sameResult(got[i], want[i]) {
			return false
		}
	}
	return true
}

type env struct {
	r   *vp.Recorder
	n   *memnet.Net
	srv *server
	hc  *http.Client
}

func (e *env) get(path string, accepts []string) (status int, ct string, body []byte, err error) {
	req, err := http.NewRequest(http.MethodGet, "http://find.test:80"+path, nil)
	if err != nil {
		return 0, "", nil, err
	}
	for _, a := range accepts {
		req.Header.Add("Accept", a)
	}
	resp, err := e.hc.Do(req)
	if err != nil {
		return 0, "", nil, err
	}
	defer resp.Body.Close()
	body, err = io.ReadAll(resp.Body)
	return resp.StatusCode, resp.Header.Get("Content-Type"), body, err
}

// acceptSpec: which formats the client declared acceptable; malformed => bad.
func acceptSpec(accepts []string) (json, nd, bad bool) {
	for _, a := range accepts {
		for _, part := range strings.Split(a, ",") {
			mt, _, err := mime.ParseMediaType(part)
			if err != nil {
				bad = true
				continue
			}
			switch mt {
			case "application/json":
				json = true
			case "application/x-ndjson":
				nd = true
			case "*/*":
				json, nd = true, true
			}
		}
	}
	return
}

func TestCheck(t *testing.T) {
	r := vp.New("C19", "exploration",
		"result lists: every list of 0..N results over 27 result kinds, plus lists of 8, 16, 40, 200 and 1000 results (responses too large for a declared content length), plus every ordered pair of kinds and [A,B,A] / [A,A,A] lists about one provider with equal context ID and metadata bytes (exact repeats, results differing only in their addresses) ({context ID nil/empty/binary} x {metadata nil/empty/binary} x {provider with 0..2 addresses}), written through rwriter (+ProviderResponseWriter) by an in-memory HTTP server and read back by find/client.Find / FindBatch (JSON-preferring server; batches of 1..4 multihashes in every pattern of hits and misses) and raw NDJSON/JSON requests; keys: multihashes of 5 hash functions in base58 and hex, CIDv0/v1 strings; Accept headers: every sequence of <=2 header values over 9 values, both server preferences; 12 request path shapes, and 9 more against a server whose resource types are renamed (WithMultihashPathType / WithCidPathType); apierror: every status 400..599 x 5 messages through EncodeError/DecodeError and FromResponse, bare and inside 5 shapes of error chains (wrapped once / twice, joined first / second, API error wrapping a plain chain). Non-trivial: lists with >=1 result, negotiation/path cases other than the plain JSON request.",
		"the find client sends no Accept header, so client read-back is checked against a server created with WithPreferJson(true); the strict server is checked with raw requests",
		"nil and empty context ID / metadata are equal (the JSON encoding omits both)",
		"a key that is both valid base58 and valid hex is only required not to decode to a different valid multihash",
		"when several acceptable formats are offered the server may choose any of them; when a malformed element stands next to acceptable ones the server may reject or serve an acceptable format",
	)
	defer func() {
		if err := r.Finish(); err != nil {
			t.Fatal(err)
		}
	}()
	thorough := vp.Thorough()
	n := memnet.New()
	srv := &server{preferJSON: true}
	stop := n.Serve("find.test:80", srv)
	defer stop()
	e := &env{r: r, n: n, srv: srv, hc: n.Client()}
	cl, err := client.New("http://find.test:80", client.WithClient(n.Client()))
	if err != nil {
		t.Fatal(err)
	}
	ctx := context.Background()
	mh := fixture.Mh("content", multihash.SHA2_256, -1)

	var kinds []resKind
	for c := 0; c < 3; c++ {
		for m := 0; m < 3; m++ {
			for a := 0; a < 3; a++ {
				kinds = append(kinds, resKind{c, m, a})
			}
		}
	}
	maxList := 2
	if thorough {
		maxList = 3
	}
	var lists [][]int
	var gen func(cur []int)
	gen = func(cur []int) {
		lists = append(lists, append([]int(nil), cur...))
		if len(cur) == maxList {
			return
		}
		for i := range kinds {
			gen(append(cur, i))
		}
	}
	gen(nil)
	if !thorough {
		// plus a diagonal of 3-result lists
		for i := range kinds {
			lists = append(lists, []int{i, (i + 5) % len(kinds), (i + 11) % len(kinds)})
		}
	}
	// long lists: responses that no longer fit a server's write buffer are sent
	// without a declared length (chunked); read-back must not depend on that
	for _, n := range []int{8, 16, 40, 200, 1000} {
		var l []int
		for i := 0; i < n; i++ {
			l = append(l, (i*7+3)%len(kinds))
		}
		lists = append(lists, l)
	}
	// lists whose results are about the same provider and carry the same
	// context ID and metadata bytes wherever their kinds agree (a value store
	// hands back what was stored: exact repeats, the same provider with other
	// addresses, the same value again after another one): every ordered pair
	// of kinds, and [A, B, A] for a diagonal
	nPositional := len(lists)
	for i := range kinds {
		for j := range kinds {
			lists = append(lists, []int{i, j})
		}
		lists = append(lists, []int{i, (i + 5) % len(kinds), i}, []int{i, i, i})
	}
	// the same provider once more, each result with an address list of its own
	// (a provider is reachable at different addresses per context: extended
	// providers): equally long and different, in every ordered pair of kinds
	// that carry addresses, and as [A, B, A] / [A, B, C] sequences
	nSameAddrs := len(lists)
	for i := range kinds {
		for j := range kinds {
			if kinds[i].addrs > 0 && kinds[j].addrs > 0 {
				lists = append(lists, []int{i, j})
			}
		}
		if kinds[i].addrs > 0 {
			lists = append(lists, []int{i, i, i}, []int{i, (i + 5) % len(kinds), i, i})
		}
	}
	r.Bounds(map[string]any{"result_kinds": len(kinds), "result_lists": len(lists)})

	// 1. read-back of every result list
	for li, l := range lists {
		sameInstance := li >= nPositional
		var names []string
		for _, i := range l {
			names = append(names, kinds[i].String())
		}
		key := "list|" + strings.Join(names, ",")
		if len(l) > 6 {
			key = fmt.Sprintf("list|long-%d-results", len(l))
		}
		if sameInstance {
			key = "list-same-provider-and-values|" + strings.Join(names, ",")
		}
		ownAddrs := li >= nSameAddrs
		if ownAddrs {
			key = "list-same-provider-own-addresses-per-result|" + strings.Join(names, ",")
		}
		if !r.Mine(key) {
			continue
		}
		r.Eval(key, len(l) > 0)
		var want []model.ProviderResult
		for j, i := range l {
			if sameInstance {
				j = 0
			}
			pr := kinds[i].build(j)
			if ownAddrs {
				// position pos gets the address set pos%3 (so [A, B, A, A] ends
				// with the first set again after two others)
				for ai := range pr.Provider.Addrs {
					pr.Provider.Addrs[ai] = multiaddr.StringCast(fmt.Sprintf("/ip4/10.%d.%d.1/tcp/80/http", len(want)%3, ai))
				}
			}
			want = append(want, pr)
		}
		srv.results, srv.preferJSON, srv.panicked = want, true, ""
		// (a) the find client
		var resp *model.FindResponse
		var err error
		if pn, pm := vp.Guard(func() { resp, err = cl.Find(ctx, mh) }); pn {
			r.Violation("client:panic", key, firstLine(pm), nil)
			continue
		}
		if srv.panicked != "" {
			r.Violation("server:panic", key, srv.panicked, nil)
			continue
		}
		if err != nil || resp == nil {
			r.Violation("client:error", key, fmt.Sprintf("Find failed: %v", err), nil)
			continue
		}
		if len(l) == 0 {
			if len(resp.MultihashResults) != 0 {
				r.Violation("client:nonempty-for-empty", key, "client got results for an empty result set", nil)
			}
		} else if len(resp.MultihashResults) != 1 || !bytes.Equal(resp.MultihashResults[0].Multihash, mh) || !sameResults(resp.MultihashResults[0].ProviderResults, want) {
			r.Violation("client:readback-differs", key, fmt.Sprintf("client read back %s, server wrote %s", fmtResp(resp), fmtResults(want)), nil)
			continue
		}
		// FindBatch over two multihashes gives the results twice, in order
		if len(l) <= 1 {
			mh2 := fixture.Mh("content2", multihash.SHA2_256, -1)
			br, err := client.FindBatch(ctx, cl, []multihash.Multihash{mh, mh2})
			if err != nil || br == nil {
				r.Violation("client:batch-error", key, fmt.Sprint(err), nil)
			} else if len(l) == 0 && len(br.MultihashResults) != 0 {
				r.Violation("client:batch-nonempty-for-empty", key, "", nil)
			} else if len(l) == 1 && (len(br.MultihashResults) != 2 || !bytes.Equal(br.MultihashResults[1].Multihash, mh2) || !sameResults(br.MultihashResults[1].ProviderResults, want)) {
				r.Violation("client:batch-differs", key, "FindBatch results differ from what was written", nil)
			}
		}
		// (b) raw JSON and NDJSON on the wire, both server preferences
		for _, pv := range []struct {
			pref bool
			via  string
			enc  bool
		}{{true, "", false}, {false, "", false}, {true, "wrapper", false}, {false, "wrapper", false}, {false, "wrapper-writeheader", false}, {false, "", true}} {
			pref := pv.pref
			srv.preferJSON, srv.errVia, srv.viaEncoder = pref, pv.via, pv.enc
			for _, mode := range []string{"application/json", "application/x-ndjson"} {
				status, ct, body, err := e.get("/multihash/"+mh.B58String(), []string{mode})
				if err != nil {
					r.Violation("wire:transport-error", key, err.Error(), nil)
					continue
				}
				if len(l) == 0 {
					if status != http.StatusNotFound {
						how := "on the handler's own writer"
						if pv.via != "" {
							how = "through the library's response writer (" + pv.via + ")"
						}
						r.Violation("wire:empty-not-404:"+mode, key, fmt.Sprintf("empty result set, not-found written %s, answered with status %d body %q", how, status, body), nil)
					}
					continue
				}
				if status != 200 {
					r.Violation("wire:status:"+mode, key, fmt.Sprintf("status %d body %q", status, body), nil)
					continue
				}
				if mode == "application/json" {
					fr, err := model.UnmarshalFindResponse(body)
					if err != nil || !strings.HasPrefix(ct, "application/json") || len(fr.MultihashResults) != 1 || !sameResults(fr.MultihashResults[0].ProviderResults, want) {
						r.Violation("wire:json-differs", key, fmt.Sprintf("ct=%q err=%v body=%q", ct, err, body), nil)
					}
					dec := json.NewDecoder(bytes.NewReader(body))
					var v any
					if dec.Decode(&v) != nil || dec.More() {
						r.Violation("wire:json-not-one-document", key, fmt.Sprintf("body %q", body), nil)
					}
				} else {
					if !strings.HasPrefix(ct, "application/x-ndjson") {
						r.Violation("wire:ndjson-content-type", key, ct, nil)
					}
					if len(body) == 0 || body[len(body)-1] != '\n' {
						r.Violation("wire:ndjson-line-incomplete", key, fmt.Sprintf("streamed body does not end with a newline: %q", body), nil)
						continue
					}
					lines := bytes.Split(body[:len(body)-1], []byte{'\n'})
					var got []model.ProviderResult
					bad := false
					for _, ln := range lines {
						var pr model.ProviderResult
						if err := json.Unmarshal(ln, &pr); err != nil {
							bad = true
							break
						}
						got = append(got, pr)
					}
					if bad || !sameResults(got, want) {
						r.Violation("wire:ndjson-lines-differ", key, fmt.Sprintf("%d lines for %d results: %q", len(lines), len(want), body), nil)
					}
				}
			}
		}
		srv.errVia, srv.viaEncoder = "", false
		r.Outcome(fmt.Sprintf("readback-%d", len(l)))
		if len(l) == 2 {
			r.Sample(map[string]any{"results": names})
		}
	}

	// 2. keys
	oneResult := []model.ProviderResult{kinds[13].build(0)}
	type keyCase struct {
		label, path string
		mh          multihash.Multihash
		c           cid.Cid
	}
	var keyCases []keyCase
	for _, hf := range []struct {
		n    string
		code uint64
		l    int
	}{{"sha2-256", multihash.SHA2_256, -1}, {"sha2-512", multihash.SHA2_512, -1}, {"sha2-256-20", multihash.SHA2_256, 20}, {"blake2b-256", multihash.BLAKE2B_MIN + 31, -1}, {"identity", multihash.IDENTITY, -1}} {
		for i := 0; i < 3; i++ {
			m := fixture.Mh(fmt.Sprint("k", i), hf.code, hf.l)
			keyCases = append(keyCases,
				keyCase{"b58-" + hf.n, "/multihash/" + m.B58String(), m, cid.Undef},
				keyCase{"hex-" + hf.n, "/multihash/" + hex.EncodeToString(m), m, cid.Undef},
				keyCase{"cidv1-" + hf.n, "/cid/" + cid.NewCidV1(cid.Raw, m).String(), m, cid.NewCidV1(cid.Raw, m)},
				keyCase{"cidv1-dagjson-" + hf.n, "/cid/" + cid.NewCidV1(0x0129, m).String(), m, cid.NewCidV1(0x0129, m)},
			)
			if hf.n == "sha2-256" {
				keyCases = append(keyCases, keyCase{"cidv0", "/cid/" + cid.NewCidV0(m).String(), m, cid.NewCidV0(m)})
			}
		}
	}
	// every identity multihash with a payload of 0..2 bytes, requested the way
	// the find client does (base58). Some of these base58 strings are also
	// well-formed hex strings (base58 has every hex digit except 0): all of
	// those are requested, and of the others every payload of <=1 byte and every
	// 16th of the rest. The base58 reading is the one that must be served.
	isHex := func(s string) bool {
		_, err := hex.DecodeString(s)
		return err == nil
	}
	ambiguousKeys := 0
	for n := 0; n <= 2; n++ {
		for v := 0; v < 1<<(8*n); v++ {
			payload := make([]byte, n)
			for i := 0; i < n; i++ {
				payload[i] = byte(v >> (8 * (n - 1 - i)))
			}
			m, err := multihash.Encode(payload, multihash.IDENTITY)
			if err != nil {
				panic(err)
			}
			b58 := multihash.Multihash(m).B58String()
			switch {
			case isHex(b58):
				ambiguousKeys++
				keyCases = append(keyCases, keyCase{"b58-also-hex-identity", "/multihash/" + b58, m, cid.Undef})
			case n <= 1 || v%16 == 0:
				keyCases = append(keyCases, keyCase{"b58-short-identity", "/multihash/" + b58, m, cid.Undef})
			}
		}
	}
	// the same from the other side: every string of length 2 and 4 over the 21
	// characters that are both hex and base58 digits whose base58 decoding is a
	// well-formed multihash (any code, consistent length)
	const both = "123456789ABCDEFabcdef"
	var strs []string
	for _, a := range both {
		for _, b := range both {
			strs = append(strs, string([]rune{a, b}))
			for _, c := range both {
				for _, d := range both {
					strs = append(strs, string([]rune{a, b, c, d}))
				}
			}
		}
	}
	for _, str := range strs {
		m, err := multihash.FromB58String(str)
		if err != nil {
			continue
		}
		if _, err := multihash.Decode(m); err != nil {
			continue
		}
		ambiguousKeys++
		keyCases = append(keyCases, keyCase{"b58-also-hex", "/multihash/" + str, m, cid.Undef})
	}
	if i, _ := r.Shard(); i == 0 {
		r.Count("base58_keys_that_are_also_hex", int64(ambiguousKeys))
	}
	for i, kc := range keyCases {
		key := fmt.Sprintf("key|%s|%d", kc.label, i)
		if !r.Mine(key) {
			continue
		}
		r.Eval(key, true)
		srv.results, srv.preferJSON, srv.panicked = oneResult, true, ""
		status, _, body, err := e.get(kc.path, []string{"application/json"})
		if err != nil || srv.panicked != "" {
			r.Violation("key:panic-or-transport", key, fmt.Sprint(err, srv.panicked), nil)
			continue
		}
		hexAmbiguous := strings.HasPrefix(kc.label, "hex-") && !strings.ContainsAny(hex.EncodeToString(kc.mh), "0")
		if status != 200 {
			if hexAmbiguous && status >= 400 && status < 500 {
				r.Count("hex_keys_that_are_also_base58_rejected", 1)
				continue
			}
			r.Violation("key:rejected:"+kc.label, key, fmt.Sprintf("valid key %s answered %d %q", kc.path, status, body), nil)
			continue
		}
		if !bytes.Equal(srv.gotMh, kc.mh) {
			r.Violation("key:wrong-multihash:"+kc.label, key, fmt.Sprintf("writer reports multihash %x for key %s, meant %x", []byte(srv.gotMh), kc.path, []byte(kc.mh)), nil)
		}
		if kc.c.Defined() && !srv.gotCid.Equals(kc.c) {
			r.Violation("key:wrong-cid:"+kc.label, key, fmt.Sprintf("writer reports cid %s, meant %s", srv.gotCid, kc.c), nil)
		}
		fr, err := model.UnmarshalFindResponse(body)
		if err != nil || len(fr.MultihashResults) != 1 || !bytes.Equal(fr.MultihashResults[0].Multihash, kc.mh) {
			r.Violation("key:response-multihash:"+kc.label, key, fmt.Sprintf("response does not carry the requested multihash: %q", body), nil)
		}
		r.Outcome("key-ok")
	}

	// 3. Accept negotiation
	acceptVals := []string{"application/json", "application/x-ndjson", "*/*", "text/html", "application/json;q=0.9", ";;", "application/json, application/x-ndjson", "text/html, */*", "application/x-ndjson, ;;"}
	var acceptSeqs [][]string
	acceptSeqs = append(acceptSeqs, nil)
	for _, a := range acceptVals {
		acceptSeqs = append(acceptSeqs, []string{a})
		for _, b := range acceptVals {
			acceptSeqs = append(acceptSeqs, []string{a, b})
		}
	}
	for _, pref := range []bool{true, false} {
		for _, acc := range acceptSeqs {
			key := fmt.Sprintf("accept|pref=%v|%q", pref, acc)
			if !r.Mine(key) {
				continue
			}
			r.Eval(key, len(acc) != 1 || acc[0] != "application/json")
			srv.results, srv.preferJSON, srv.panicked = oneResult, pref, ""
			status, ct, body, err := e.get("/multihash/"+mh.B58String(), acc)
			if err != nil || srv.panicked != "" {
				r.Violation("accept:panic-or-transport", key, fmt.Sprint(err, srv.panicked), nil)
				continue
			}
			okJSON, okND, bad := acceptSpec(acc)
			switch {
			case bad && !okJSON && !okND:
				if status < 400 || status > 499 {
					r.Violation("accept:malformed-not-4xx", key, fmt.Sprintf("malformed Accept %q answered %d", acc, status), nil)
				}
			case bad:
				// a malformed element next to acceptable ones: the server may
				// reject the request or serve one of the acceptable formats
				isND := strings.HasPrefix(ct, "application/x-ndjson")
				isJSON := strings.HasPrefix(ct, "application/json")
				if !(status >= 400 && status <= 499) && !(status == 200 && ((isND && okND) || (isJSON && okJSON))) {
					r.Violation("accept:mixed-malformed", key, fmt.Sprintf("Accept %q answered %d %q", acc, status, ct), nil)
				}
			case len(acc) == 0:
				if pref {
					if status != 200 || !strings.HasPrefix(ct, "application/json") {
						r.Violation("accept:absent-with-prefer-json", key, fmt.Sprintf("no Accept header on a JSON-preferring server: %d %q", status, ct), nil)
					}
				} else if status < 400 || status > 499 {
					r.Violation("accept:absent-strict-not-4xx", key, fmt.Sprintf("no Accept header on a strict server answered %d", status), nil)
				}
			case !okJSON && !okND:
				if status < 400 || status > 499 {
					r.Violation("accept:unsupported-not-4xx", key, fmt.Sprintf("unsupported Accept %q answered %d %q", acc, status, ct), nil)
				}
			default:
				isND := strings.HasPrefix(ct, "application/x-ndjson")
				isJSON := strings.HasPrefix(ct, "application/json")
				if status != 200 || (isND && !okND) || (isJSON && !okJSON) || (!isND && !isJSON) {
					r.Violation("accept:unacceptable-format", key, fmt.Sprintf("Accept %q (json ok=%v, ndjson ok=%v) answered %d with %q", acc, okJSON, okND, status, ct), nil)
				}
			}
			if status >= 400 {
				var ae *apierror.Error
				if srv.newErr == nil || !errors.As(srv.newErr, &ae) || ae.Status() != status {
					r.Violation("accept:error-not-apierror", key, fmt.Sprintf("status %d but the writer returned %v", status, srv.newErr), nil)
				}
				_ = body
			}
			r.Outcome(fmt.Sprintf("accept-%d", status))
		}
	}

	// 1b. batches in which some multihashes have results and others have none,
	// in every arrangement of up to 4: each entry of the batch response is for
	// a multihash that has results, carries those results, and the entries come
	// in the order of the request
	for n := 1; n <= 4; n++ {
		for mask := 0; mask < 1<<n; mask++ {
			key := fmt.Sprintf("batch|n=%d|hits=%0*b", n, n, mask)
			if !r.Mine(key) {
				continue
			}
			r.Eval(key, true)
			var batch []multihash.Multihash
			var wantMhs []multihash.Multihash
			srv.missFor = map[string]bool{}
			for i := 0; i < n; i++ {
				m := fixture.Mh(fmt.Sprintf("batch-content-%d", i), multihash.SHA2_256, -1)
				batch = append(batch, m)
				if mask&(1<<i) != 0 {
					wantMhs = append(wantMhs, m)
				} else {
					srv.missFor[string(m)] = true
				}
			}
			srv.results, srv.preferJSON, srv.panicked = oneResult, true, ""
			br, err := client.FindBatch(ctx, cl, batch)
			srv.missFor = nil
			if err != nil || br == nil {
				r.Violation("client:batch-error", key, fmt.Sprint(err), nil)
				continue
			}
			ok := len(br.MultihashResults) == len(wantMhs)
			for i := 0; ok && i < len(wantMhs); i++ {
				ok = bytes.Equal(br.MultihashResults[i].Multihash, wantMhs[i]) && sameResults(br.MultihashResults[i].ProviderResults, oneResult)
			}
			if !ok {
				r.Violation("client:batch-differs:hits-and-misses", key, fmt.Sprintf("FindBatch over %d multihashes (hit pattern %0*b) returned %s", n, n, mask, fmtResp(br)), nil)
			}
			r.Outcome("batch-ok")
		}
	}

	// 4. request paths
	b58 := mh.B58String()
	paths := []struct {
		p    string
		want int // 200, or 400 class
	}{
		{"/multihash/" + b58, 200}, {"/cid/" + cid.NewCidV1(cid.Raw, mh).String(), 200}, {"/x/multihash/" + b58, 200}, {"/ipni/v1/cid/" + cid.NewCidV1(cid.Raw, mh).String(), 200},
		{"/multihash/", 400}, {"/" + b58, 400}, {"/", 400}, {"/other/" + b58, 400}, {"/multihash/%20" + b58 + "%20", 200}, {"/multihash/not-a-key!", 400},
		{"/cid/" + fixture.Mh("content", multihash.SHA2_512, -1).B58String(), 400}, {"/multihash/" + hex.EncodeToString(mh[:len(mh)-1]), 400}, {"/multihash/" + b58 + "/", 400},
	}
	for _, pc := range paths {
		key := "path|" + pc.p
		if !r.Mine(key) {
			continue
		}
		r.Eval(key, true)
		srv.results, srv.preferJSON, srv.panicked = oneResult, true, ""
		status, _, body, err := e.get(pc.p, []string{"application/json"})
		if err != nil || srv.panicked != "" {
			r.Violation("path:panic-or-transport", key, fmt.Sprint(err, srv.panicked), nil)
			continue
		}
		if pc.want == 200 {
			if status != 200 || !bytes.Equal(srv.gotMh, mh) {
				r.Violation("path:valid-rejected", key, fmt.Sprintf("%s answered %d %q (multihash %x)", pc.p, status, body, []byte(srv.gotMh)), nil)
			}
		} else if status == 200 {
			// acceptable only if the writer resolved it to some multihash other than a wrong valid one
			r.Violation("path:invalid-accepted", key, fmt.Sprintf("%s answered 200 for multihash %x", pc.p, []byte(srv.gotMh)), nil)
		} else if status < 400 || status > 499 {
			r.Violation("path:not-4xx", key, fmt.Sprintf("%s answered %d", pc.p, status), nil)
		} else {
			var ae *apierror.Error
			if !errors.As(srv.newErr, &ae) {
				r.Violation("path:error-not-apierror", key, fmt.Sprint(srv.newErr), nil)
			}
		}
		r.Outcome(fmt.Sprintf("path-%d", status))
	}

	// 4b. the same with the resource types renamed by the server's options:
	// the configured names select multihash / CID parsing, the default names
	// are then unknown resource types
	srv.opts = []rwriter.Option{rwriter.WithMultihashPathType("mh"), rwriter.WithCidPathType("c")}
	cidStr := cid.NewCidV1(cid.Raw, mh).String()
	for _, pc := range []struct {
		p, typ string
		want   int
	}{
		{"/mh/" + b58, "mh", 200}, {"/c/" + cidStr, "c", 200}, {"/ipni/v1/mh/" + b58, "mh", 200}, {"/mh/" + hex.EncodeToString(mh), "mh", 200},
		{"/multihash/" + b58, "", 400}, {"/cid/" + cidStr, "", 400}, {"/c/" + fixture.Mh("content", multihash.SHA2_512, -1).B58String(), "", 400}, {"/mh/", "", 400}, {"/MH/" + b58, "", 400},
	} {
		key := "path-renamed|" + pc.p
		if !r.Mine(key) {
			continue
		}
		r.Eval(key, true)
		srv.results, srv.preferJSON, srv.panicked = oneResult, true, ""
		status, _, body, err := e.get(pc.p, []string{"application/json"})
		switch {
		case err != nil || srv.panicked != "":
			r.Violation("path:panic-or-transport", key, fmt.Sprint(err, srv.panicked), nil)
		case pc.want == 200 && (status != 200 || !bytes.Equal(srv.gotMh, mh) || srv.gotPathType != pc.typ):
			r.Violation("path:valid-rejected:renamed-resource-types", key, fmt.Sprintf("%s answered %d %q (multihash %x, path type %q)", pc.p, status, body, []byte(srv.gotMh), srv.gotPathType), nil)
		case pc.want != 200 && status == 200:
			r.Violation("path:invalid-accepted:renamed-resource-types", key, fmt.Sprintf("%s answered 200 for multihash %x", pc.p, []byte(srv.gotMh)), nil)
		case pc.want != 200 && (status < 400 || status > 499):
			r.Violation("path:not-4xx", key, fmt.Sprintf("%s answered %d", pc.p, status), nil)
		}
		r.Outcome(fmt.Sprintf("path-renamed-%d", status))
	}
	srv.opts = nil

	// 5. API errors keep status and message
	msgs := []string{"", "not found", "ünïcödé ✓", `{"Message":"x","Status":1}`, "multi word message: with colon", "unsupported media type: [text/%2A]", "100% of %s %d %v%", "%!d(MISSING)"}
	for status := 400; status <= 599; status++ {
		for mi, msg := range msgs {
			key := fmt.Sprintf("apierror|%d|%d", status, mi)
			if !r.Mine(key) {
				continue
			}
			r.Eval(key, true)
			orig := apierror.New(errors.New(msg), status)
			var back error
			if pn, pm := vp.Guard(func() { back = apierror.DecodeError(apierror.EncodeError(orig)) }); pn {
				r.Violation("apierror:panic", key, firstLine(pm), nil)
				continue
			}
			var ae *apierror.Error
			if !errors.As(back, &ae) || ae.Status() != status || ae.Error() != msg {
				r.Violation("apierror:encode-decode", key, fmt.Sprintf("(%d, %q) came back as %v", status, msg, back), nil)
			}
			// the one-line text of an API error (what a handler writes with
			// http.Error(w, e.Text(), e.Status())) is the status, its standard
			// text and the message, before and after encode/decode; and the
			// error it wraps is the one it was made from
			wantText := strconv.Itoa(status)
			if t := http.StatusText(status); t != "" {
				wantText += " " + t
			}
			wantText += ": " + msg
			if got := orig.Text(); got != wantText {
				r.Violation("apierror:text", key, fmt.Sprintf("Text() of (%d, %q) is %q, want %q", status, msg, got, wantText), nil)
			} else if ae != nil && ae.Text() != wantText {
				r.Violation("apierror:text", key, fmt.Sprintf("Text() of (%d, %q) after encode/decode is %q, want %q", status, msg, ae.Text(), wantText), nil)
			}
			if u := errors.Unwrap(error(orig)); u == nil || u.Error() != msg {
				r.Violation("apierror:unwrap", key, fmt.Sprintf("Unwrap of (%d, %q) gives %v", status, msg, u), nil)
			}
			fr := apierror.FromResponse(status, []byte(msg+"\n"))
			if !errors.As(fr, &ae) || ae.Status() != status || (msg != "" && ae.Error() != msg) {
				r.Violation("apierror:from-response", key, fmt.Sprintf("FromResponse(%d, %q) = %v", status, msg, fr), nil)
			}
			r.Outcome("apierror-ok")
			// the same API error inside an error chain (Go's error model: an error
			// that wraps an API error is one, errors.As finds it): the status
			// must survive, the message is the one of the whole chain
			shapes := []struct {
				name string
				err  error
			}{
				{"wrapped", fmt.Errorf("find failed: %w", orig)},
				{"wrapped-twice", fmt.Errorf("outer: %w", fmt.Errorf("inner: %w", orig))},
				{"joined-first", errors.Join(orig, errors.New("other"))},
				{"joined-second", errors.Join(errors.New("other"), orig)},
				{"api-error-wrapping-plain", apierror.New(fmt.Errorf("ctx: %w", errors.New(msg)), status)},
			}
			for _, sh := range shapes {
				r.Eval(key+"|"+sh.name, true)
				var back error
				if pn, pm := vp.Guard(func() { back = apierror.DecodeError(apierror.EncodeError(sh.err)) }); pn {
					r.Violation("apierror:panic", key+"|"+sh.name, firstLine(pm), nil)
					continue
				}
				var ae *apierror.Error
				if !errors.As(back, &ae) || ae.Status() != status || ae.Error() != sh.err.Error() {
					r.Violation("apierror:encode-decode:"+sh.name, key+"|"+sh.name, fmt.Sprintf("an error chain holding API error (%d, %q), message %q, came back as %v (%T)", status, msg, sh.err.Error(), back, back), nil)
				}
			}
		}
	}
	t.Logf("violations: %d", r.Violations())
}

func fmtResults(l []model.ProviderResult) string {
	var s []string
	for _, pr := range l {
		id := "?"
		na := 0
		if pr.Provider != nil {
			id = pr.Provider.ID.ShortString()
			na = len(pr.Provider.Addrs)
		}
		s = append(s, fmt.Sprintf("(%s ctx=%x md=%x addrs=%d)", id, pr.ContextID, pr.Metadata, na))
	}
	return "[" + strings.Join(s, " ") + "]"
}

func fmtResp(r *model.FindResponse) string {
	if len(r.MultihashResults) == 0 {
		return "[]"
	}
	return fmtResults(r.MultihashResults[0].ProviderResults)
}
