// Package schedfx connects the sync fixture (syncfx) with the cooperative
// scheduler: publisher requests and block-hook calls become scheduling points
// with content-derived thread names, and every publisher is warmed up in
// free-running mode so that the explored part contains only the requests of
// the operations under test.
package schedfx

import (
	"context"
	"fmt"
	"sort"
	"strings"
	"testing/synctest"
	"time"

	"github.com/ipfs/go-cid"
	cidlink "github.com/ipld/go-ipld-prime/linking/cid"
	"github.com/ipni/go-libipni/announce"
	"github.com/ipni/go-libipni/dagsync"
	"github.com/ipni/go-libipni/verifshim/vsched"
	"github.com/libp2p/go-libp2p"
	pubsub "github.com/libp2p/go-libp2p-pubsub"
	"github.com/libp2p/go-libp2p/core/peer"

	"verifharness/fixture"
	"verifharness/sched"
	"verifharness/syncfx"
)

// World is a scheduled sync world.
type World struct {
	*syncfx.World
	E      *sched.Exec
	Chains []*syncfx.Chain
	Lst    *syncfx.Listener
	// FailReq: request positions (publisher index, chain index, occurrence)
	// answered with 500.
	FailReq map[string]bool
	// StallBlock: block requests (publisher index, chain index) that are never
	// answered: the handler waits until the request is cancelled.
	StallBlock map[string]bool
	// Topic and StopPubsub are set with Options.Pubsub.
	Topic      *pubsub.Topic
	StopPubsub func()
}

// Options for New.
type Options struct {
	Pubs     int
	ChainLen int
	SubOpts  []dagsync.Option
	Announce bool // configure an announce receiver
	NoWarmup bool
	NoLatest bool // do not record the warm-up advertisement as latest synced
	// Prestore copies every chain block into the destination store before the
	// explored part: syncs then make no block requests (stored blocks are
	// reported, not requested), which removes blocking points that properties
	// about notifications and shutdown do not care about.
	Prestore  bool
	KeyOffset int
	// AllowPeer, when set, is the receiver's allow filter (default: allow all).
	AllowPeer func(peer.ID) bool
	// Pubsub: the subscriber is created with a libp2p host (no transports) and
	// its announce receiver listens on a real gossipsub topic of that host
	// (World.Topic), so that announcements can arrive through the receiver's
	// pubsub watcher goroutine. Implies Announce.
	Pubsub bool
	// Resend (with Pubsub): the receiver republishes direct announcements on
	// the topic (announce.WithResend(true)).
	Resend bool
}

// New builds the world in free-running mode: publishers with chains, the
// subscriber, a listener, and one warm-up sync of the oldest advertisement of
// every publisher (explicit head: it fixes no latest-synced value).
func New(e *sched.Exec, o Options) *World {
	w := &World{World: syncfx.NewWorld(), E: e, FailReq: map[string]bool{}, StallBlock: map[string]bool{}}
	for i := 0; i < o.Pubs; i++ {
		id := fixture.Key("ed25519", o.KeyOffset+i)
		p := w.AddPub(id, true)
		ch := syncfx.BuildAdChain(p.Src, id, o.ChainLen, syncfx.DefaultProto, fmt.Sprintf("pub%d", i))
		w.Chains = append(w.Chains, ch)
	}
	opts := o.SubOpts
	allow := o.AllowPeer
	if allow == nil {
		allow = func(peer.ID) bool { return true }
	}
	if o.Pubsub {
		self := fixture.Key("ed25519", 90+o.KeyOffset)
		h, err := libp2p.New(libp2p.NoListenAddrs, libp2p.Identity(self.Priv))
		if err != nil {
			panic(err)
		}
		psCtx, psCancel := context.WithCancel(context.Background())
		ps, err := pubsub.NewGossipSub(psCtx, h)
		if err != nil {
			panic(err)
		}
		topic, err := ps.Join("/indexer/ingest/schedfx")
		if err != nil {
			panic(err)
		}
		w.Host, w.Topic = h, topic
		w.StopPubsub = func() {
			topic.Close()
			psCancel()
			h.Close()
			// gossipsub's background loops notice their cancelled context only
			// when they wake: let virtual time pass
			time.Sleep(30 * time.Minute)
		}
		opts = append(opts, dagsync.RecvAnnounce("", announce.WithTopic(topic), announce.WithAllowPeer(allow), announce.WithResend(o.Resend)))
	} else if o.Announce {
		opts = append(opts, dagsync.RecvAnnounce("", announce.WithAllowPeer(allow)))
	}
	w.NewSubscriber(opts...)
	if !o.NoWarmup {
		for i, p := range w.Pubs {
			c0 := w.Chains[i].Cids[0]
			if _, err := w.Sub.SyncAdChain(context.Background(), p.AddrInfo(), dagsync.WithHeadAdCid(c0)); err != nil {
				panic(fmt.Sprintf("warm-up sync failed: %v", err))
			}
			// the oldest advertisement counts as synced before the explored part
			// starts: an explicit-head sync records no latest-synced value itself
			if !o.NoLatest {
				if err := w.Sub.SetLatestSync(p.Ident.ID, c0); err != nil {
					panic(err)
				}
			}
			p.ResetLog()
		}
		w.ResetHooks()
	}
	if o.Prestore {
		for i, p := range w.Pubs {
			for _, c := range w.Chains[i].Cids {
				if b, ok := p.Src.Get(c); ok && !w.Dst.Has(c) {
					w.Dst.Put(c, b)
				}
			}
		}
	}
	// let every goroutine of the warm-up come to rest first (the losing one of
	// the two concurrent discovery requests is cancelled and its handler
	// returns late)
	synctest.Wait()
	// observation of requests and hook calls starts only now: nothing of the
	// warm-up (whose two concurrent discovery requests arrive in either order)
	// is logged or gated
	for i, p := range w.Pubs {
		pi, ch := i, w.Chains[i]
		p.Gate = func(rq *syncfx.Req) {
			what := reqWhat(ch, rq)
			vsched.Name(fmt.Sprintf("pub%d.req:%s#%d", pi, what, rq.N))
			e.Log("pub%d req-begin %s", pi, what)
			vsched.Point("request")
		}
		p.After = func(rq *syncfx.Req) { e.Log("pub%d req-end %s", pi, reqWhat(ch, rq)) }
		p.Script = func(rq *syncfx.Req) *syncfx.Fault {
			if rq.Kind == "block" && w.StallBlock[fmt.Sprintf("%d|%d", pi, ch.Index(rq.Cid))] {
				return &syncfx.Fault{Kind: "stall"}
			}
			if w.FailReq[fmt.Sprintf("%d|%d|%d", pi, ch.Index(rq.Cid), rq.N)] && rq.Kind == "block" {
				return &syncfx.Fault{Kind: "status", Status: 500}
			}
			return nil
		}
	}
	w.Dst.OnWrite = func(c cid.Cid) {
		pi, bi := w.Locate(c)
		e.Log("store-write pub%d block[%d]", pi, bi)
	}
	w.HookGate = func(h syncfx.HookCall) {
		pi, bi := w.Locate(h.Cid)
		e.Log("hook %s pub%d block[%d]", h.Tag, pi, bi)
	}
	w.Lst = w.Listen()
	return w
}

// CloseGuarded is the clean-up of a scheduled world. It must never hang: a
// Subscriber.Close that does not return (a Close of the explored part is stuck,
// a lock was left held) is recorded in Exec.CleanupHung, and the periodic
// sweeper of the subscriber's own address book is then stopped directly, since
// while a ticker runs in the bubble virtual time never rests and the bubble can
// never report the goroutines that are left.
func (w *World) CloseGuarded() {
	e := w.E
	if !e.Guarded("Subscriber.Close in the clean-up", func() { w.Sub.Close() }) {
		e.Guarded("stopping the subscriber's address book", func() {
			if ps := w.Sub.HttpPeerStore(); ps != nil {
				ps.Close()
			}
		})
	}
	w.CloseRest()
	if w.StopPubsub != nil {
		e.Guarded("shutting down pubsub and the host", w.StopPubsub)
	}
}

func reqWhat(ch *syncfx.Chain, rq *syncfx.Req) string {
	if rq.Kind == "block" {
		return fmt.Sprintf("block[%d]", ch.Index(rq.Cid))
	}
	return rq.Kind
}

// Locate returns (publisher index, chain index) of a CID, or (-1,-1).
func (w *World) Locate(c cid.Cid) (int, int) {
	for pi, ch := range w.Chains {
		if i := ch.Index(c); i >= 0 {
			return pi, i
		}
	}
	return -1, -1
}

// Latest returns the chain index of the latest-synced ad of a publisher (-1 none, -2 foreign).
func (w *World) Latest(pi int) int {
	l := w.Sub.GetLatestSync(w.Pubs[pi].Ident.ID)
	if l == nil {
		return -1
	}
	if i := w.Chains[pi].Index(l.(cidlink.Link).Cid); i >= 0 {
		return i
	}
	return -2
}

// EventStr renders an event as "pubP[i] count=N err=..".
func (w *World) EventStr(ev dagsync.SyncFinished) string {
	pi := -1
	for i, p := range w.Pubs {
		if p.Ident.ID == ev.PeerID {
			pi = i
		}
	}
	bi := -2
	if pi >= 0 {
		bi = w.Chains[pi].Index(ev.Cid)
	}
	s := fmt.Sprintf("pub%d[%d] count=%d", pi, bi, ev.Count)
	if ev.Err != nil {
		s += " err"
	}
	return s
}

// SyncSpan is one sync of a publisher reconstructed from the observation log:
// the hook calls it made, in order, and the log positions it spans.
type SyncSpan struct {
	Pub        int
	Blocks     []int
	Tag        string
	Begin, End int // log indices of its first request / last hook
}

// ParseLog extracts per-publisher request brackets and hook calls.
type LogView struct {
	Hooks    map[int][]int    // per publisher: chain indices in hook order
	HookTags map[int][]string // per publisher: tag of each hook call
	HookPos  map[int][]int    // per publisher: log position of each hook call
	ReqPos   map[int][][2]int // per publisher: [begin,end] log positions of requests
	ReqWhat  map[int][]string
	Lines    []string
}

func ParseLog(obs []string) *LogView {
	v := &LogView{Hooks: map[int][]int{}, HookTags: map[int][]string{}, HookPos: map[int][]int{}, ReqPos: map[int][][2]int{}, ReqWhat: map[int][]string{}, Lines: obs}
	open := map[string]int{}
	for i, l := range obs {
		f := strings.Fields(l)
		switch {
		case len(f) == 4 && f[0] == "hook":
			var pi, bi int
			fmt.Sscanf(f[2], "pub%d", &pi)
			fmt.Sscanf(f[3], "block[%d]", &bi)
			v.Hooks[pi] = append(v.Hooks[pi], bi)
			v.HookTags[pi] = append(v.HookTags[pi], f[1])
			v.HookPos[pi] = append(v.HookPos[pi], i)
		case len(f) == 3 && f[1] == "req-begin":
			open[f[0]+" "+f[2]] = i
		case len(f) == 3 && f[1] == "req-end":
			var pi int
			fmt.Sscanf(f[0], "pub%d", &pi)
			if b, ok := open[f[0]+" "+f[2]]; ok {
				v.ReqPos[pi] = append(v.ReqPos[pi], [2]int{b, i})
				v.ReqWhat[pi] = append(v.ReqWhat[pi], f[2])
				delete(open, f[0]+" "+f[2])
			}
		}
	}
	return v
}

// Runs splits a hook sequence into maximal runs of consecutive descending
// chain indices (each sync reports head, head-1, ...).
func Runs(blocks []int) [][]int {
	var out [][]int
	for i, b := range blocks {
		if i > 0 && blocks[i-1] == b+1 {
			out[len(out)-1] = append(out[len(out)-1], b)
		} else {
			out = append(out, []int{b})
		}
	}
	return out
}

// SortedKeys returns the keys of a map[string]string sorted.
func SortedKeys(m map[string]string) []string {
	var l []string
	for k := range m {
		l = append(l, k)
	}
	sort.Strings(l)
	return l
}
