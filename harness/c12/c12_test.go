// C12: double-hash encryption round-trips, is deterministic and fails closed;
// value keys split back; second hash; reader-privacy find returns exactly what
// was indexed. Bounded-exhaustive enumeration.
package c12

import (
	"bytes"
	"context"
	"encoding/json"
	"fmt"
	"net/http"
	"sort"
	"strings"
	"time"
	"testing"

	"github.com/ipni/go-libipni/dhash"
	client "github.com/ipni/go-libipni/find/client"
	oldclient "github.com/ipni/go-libipni/find/client/http"
	"github.com/ipni/go-libipni/find/model"
	"github.com/libp2p/go-libp2p/core/peer"
	b58 "github.com/mr-tron/base58/base58"
	"github.com/multiformats/go-multihash"

	"verifharness/fixture"
	"verifharness/memnet"
	"verifharness/vp"
)

type pass struct {
	label string
	b     []byte
}

func passphrases(thorough bool) []pass {
	var ps []pass
	maxLen := 40
	step := 1
	if !thorough {
		step = 3
	}
	for n := 0; n <= maxLen; n += step {
		ps = append(ps, pass{fmt.Sprintf("pat%d", n), fixture.Bytes(n, 0x5a)})
	}
	for _, c := range []struct {
		name string
		code uint64
		l    int
	}{{"sha2-256", multihash.SHA2_256, -1}, {"sha2-512", multihash.SHA2_512, -1}, {"sha2-256-20", multihash.SHA2_256, 20}, {"blake2b-256", multihash.BLAKE2B_MIN + 31, -1}, {"identity", multihash.IDENTITY, -1}} {
		ps = append(ps, pass{"mh-" + c.name, fixture.Mh("content-"+c.name, c.code, c.l)})
	}
	return ps
}

func payloadLens(thorough bool) []int {
	var l []int
	for n := 0; n <= 80; n++ {
		if thorough || n <= 33 || n%16 <= 1 {
			l = append(l, n)
		}
	}
	l = append(l, 1024)
	if thorough {
		l = append(l, 65536)
	}
	return l
}

func TestCheck(t *testing.T) {
	r := vp.New("C12", "exploration",
		"nested loops: payload lengths x passphrases for round trip and determinism; for each ciphertext of a sub-grid every truncation length and every single-bit flip and every other passphrase, each rejection followed by a decryption of the genuine ciphertext; for every passphrase length 1..136 (thorough 1..264) every one-bit neighbour at every byte position (thorough: every bit) and the one-byte shorter / longer neighbours, through DecryptAES, DecryptValueKey and DecryptMetadata; every nonce length 0..16; value keys for 4 key types x context-ID lengths 0..64, split right away and split after a whole batch of 65 keys was created; second hash over 6 hash functions; every call sequence of length <=4 over encrypt/decrypt/second-hash of 3 pairs (history determinism, results scribbled over after use); every index of 2 multihashes x subsets of 3 records through the dhash functions and DHashClient.Find, with every stored value truncated to every length; client.FindBatch for every list of <=3 over 8 multihashes (identity and sha2-512 ones agreeing in their first 34 / 40 bytes among them) against the single lookups; the same workflow over the HTTP dhstore client with metadata of 1 .. 1024 bytes (every length around the encoded-size thresholds near the maximum) and context IDs of 0 / 63 / 64 bytes, and with clients built from 9 combinations of the options that say where provider information comes from (metadata-only, a providers URL knowing all / one / unreachable, preload, both orders, the deprecated wrapper). Non-trivial: everything except zero-length payload with zero-length passphrase.",
		"patterned payload/passphrase bytes; only single-bit flips and truncations of ciphertexts (other alterations rest on AES-GCM authentication, trusted)",
		"the find workflow is driven through an in-memory DHStoreAPI and, for a subset, through the HTTP dhstore client and the provider cache over an in-memory network",
	)
	defer func() {
		if err := r.Finish(); err != nil {
			t.Fatal(err)
		}
	}()
	thorough := vp.Thorough()
	ps := passphrases(thorough)
	lens := payloadLens(thorough)
	r.Bounds(map[string]any{"passphrases": len(ps), "payload_lengths": len(lens)})

	// 1. round trip and determinism
	for _, n := range lens {
		for _, p := range ps {
			key := fmt.Sprintf("rt|%d|%s", n, p.label)
			if !r.Mine(key) {
				continue
			}
			r.Eval(key, n > 0 || len(p.b) > 0)
			payload := fixture.Bytes(n, 0x11)
			checkRoundTrip(r, key, payload, p)
		}
	}
	// 2. tampering
	tLens := []int{0, 1, 15, 16, 17, 32, 80}
	tPass := []pass{ps[0], ps[1], ps[len(ps)-5], ps[len(ps)-1]}
	if thorough {
		tLens = []int{0, 1, 2, 11, 12, 13, 15, 16, 17, 31, 32, 33, 64, 80}
		tPass = append(tPass, ps[len(ps)-3], ps[len(ps)/2])
	}
	for _, n := range tLens {
		for pi, p := range tPass {
			key := fmt.Sprintf("tamper|%d|%s", n, p.label)
			if !r.Mine(key) {
				continue
			}
			other := tPass[(pi+1)%len(tPass)]
			checkTamper(r, key, fixture.Bytes(n, 0x22), p, other)
		}
	}
	// 3. nonce lengths
	for nl := 0; nl <= 16; nl++ {
		key := fmt.Sprintf("nonce|%d", nl)
		if !r.Mine(key) {
			continue
		}
		r.Eval(key, true)
		payload := fixture.Bytes(20, 3)
		pw := []byte("passphrase")
		nonce, ct, err := dhash.EncryptAES(payload, pw)
		if err != nil {
			r.Violation("EncryptAES:error", key, err.Error(), nil)
			continue
		}
		nn := make([]byte, nl)
		copy(nn, nonce)
		var out []byte
		p, m := vp.Guard(func() { out, err = dhash.DecryptAES(nn, ct, pw) })
		switch {
		case p:
			r.Violation("DecryptAES:panic:nonce-length", key, fmt.Sprintf("DecryptAES with a %d-byte nonce panicked: %s", nl, firstLine(m)), nil)
		case nl == len(nonce):
			if err != nil || !bytes.Equal(out, payload) {
				r.Violation("DecryptAES:roundtrip", key, fmt.Sprintf("DecryptAES with the right nonce failed: %v", err), nil)
			}
		case err == nil:
			r.Violation("DecryptAES:accepted-wrong-nonce", key, fmt.Sprintf("DecryptAES with a %d-byte nonce returned data", nl), nil)
		}
	}
	// 3b. passphrase neighbourhoods: decryption fails closed for every
	// passphrase that differs in one bit at any position, or is one byte
	// shorter or longer, at every passphrase length (value keys, which are
	// peer ID || context ID, reach about 102 bytes; hash-input buffers of
	// implementations tend to be multiples of 64)
	checkNeighbours(r, thorough)
	// 4. value keys
	checkValueKeys(r, thorough)
	checkValueKeysHeld(r)
	// 5. second hash
	checkSecondHash(r)
	// 6. history determinism
	checkHistories(r, thorough)
	// 7. find workflow
	checkFind(r, thorough)
	t.Logf("violations: %d", r.Violations())
}

func firstLine(s string) string {
	if i := strings.IndexByte(s, '\n'); i >= 0 {
		return s[:i]
	}
	return s
}

func checkRoundTrip(r *vp.Recorder, key string, payload []byte, p pass) {
	type res struct {
		nonce, ct []byte
		err       error
	}
	enc := func() (x res) {
		x.nonce, x.ct, x.err = dhash.EncryptAES(payload, p.b)
		return
	}
	var a, b res
	if pn, m := vp.Guard(func() { a = enc(); b = enc() }); pn {
		r.Violation("EncryptAES:panic", key, firstLine(m), nil)
		return
	}
	if a.err != nil || b.err != nil {
		r.Violation("EncryptAES:error", key, fmt.Sprint(a.err, b.err), nil)
		return
	}
	if !bytes.Equal(a.nonce, b.nonce) || !bytes.Equal(a.ct, b.ct) {
		r.Violation("EncryptAES:nondeterministic", key, "two encryptions of the same inputs differ", nil)
	}
	var out []byte
	var err error
	if pn, m := vp.Guard(func() { out, err = dhash.DecryptAES(a.nonce, a.ct, p.b) }); pn {
		r.Violation("DecryptAES:panic", key, firstLine(m), nil)
		return
	}
	if err != nil || !bytes.Equal(out, payload) {
		r.Violation("DecryptAES:roundtrip", key, fmt.Sprintf("decrypt(encrypt(x)) != x (err %v)", err), nil)
	}
	// the value-key and metadata wrappers
	for _, w := range []struct {
		name string
		enc  func([]byte, []byte) ([]byte, error)
		dec  func([]byte, []byte) ([]byte, error)
	}{
		{"ValueKey", func(a, b []byte) ([]byte, error) { return dhash.EncryptValueKey(a, b) }, func(a, b []byte) ([]byte, error) { return dhash.DecryptValueKey(a, b) }},
		{"Metadata", dhash.EncryptMetadata, dhash.DecryptMetadata},
	} {
		var e1, e2, d []byte
		var err error
		if pn, m := vp.Guard(func() {
			e1, err = w.enc(payload, p.b)
			if err != nil {
				return
			}
			e2, _ = w.enc(payload, p.b)
			d, err = w.dec(e1, p.b)
		}); pn {
			r.Violation(w.name+":panic", key, firstLine(m), nil)
			continue
		}
		if err != nil || !bytes.Equal(d, payload) {
			r.Violation(w.name+":roundtrip", key, fmt.Sprintf("Decrypt%s(Encrypt%s(x)) != x for payload length %d (err %v)", w.name, w.name, len(payload), err), nil)
		}
		if !bytes.Equal(e1, e2) {
			r.Violation(w.name+":nondeterministic", key, "two encryptions differ", nil)
		}
	}
	r.Outcome("roundtrip")
	if len(payload) == 17 {
		r.Sample(map[string]any{"payload_len": len(payload), "passphrase": p.label, "ciphertext_hex": fmt.Sprintf("%x%x", a.nonce, a.ct)})
	}
}

func checkTamper(r *vp.Recorder, key string, payload []byte, p, other pass) {
	decs := []struct {
		name string
		enc  func([]byte, []byte) ([]byte, error)
		dec  func([]byte, []byte) ([]byte, error)
	}{
		{"ValueKey", func(a, b []byte) ([]byte, error) { return dhash.EncryptValueKey(a, b) }, func(a, b []byte) ([]byte, error) { return dhash.DecryptValueKey(a, b) }},
		{"Metadata", dhash.EncryptMetadata, dhash.DecryptMetadata},
	}
	for _, w := range decs {
		ct, err := w.enc(payload, p.b)
		if err != nil {
			r.Violation(w.name+":encrypt-error", key, err.Error(), nil)
			continue
		}
		pristine := append([]byte(nil), ct...)
		try := func(kind string, in []byte, pw []byte) {
			r.Eval(fmt.Sprintf("%s|%s|%s|%x", key, w.name, kind, in), true)
			var out []byte
			var err error
			pn, m := vp.Guard(func() { out, err = w.dec(in, pw) })
			if pn {
				r.Outcome("panic")
				cls := "len>=12"
				if len(in) < 12 {
					cls = "len<12"
				}
				r.Violation("Decrypt"+w.name+":panic:"+kind+":"+cls, key, fmt.Sprintf("Decrypt%s of %d bytes (%s of a %d-byte ciphertext) panicked: %s", w.name, len(in), kind, len(ct), firstLine(m)), nil)
				return
			}
			if err == nil {
				r.Outcome("accepted-tampered")
				r.Violation("Decrypt"+w.name+":accepted:"+kind, key, fmt.Sprintf("Decrypt%s returned %d bytes of data for a %s ciphertext", w.name, len(out), kind), nil)
				return
			}
			r.Outcome("rejected")
			// a rejected input leaves nothing behind: the genuine ciphertext (a
			// fresh copy of it) decrypts to the payload right afterwards
			if out2, err2 := w.dec(append([]byte(nil), pristine...), p.b); err2 != nil || !bytes.Equal(out2, payload) {
				r.Violation("Decrypt"+w.name+":genuine-ciphertext-fails-after-a-rejected-one:"+kind, key, fmt.Sprintf("after a %s input was rejected, the genuine ciphertext decrypts to %d bytes, err %v (payload %d bytes)", kind, len(out2), err2, len(payload)), nil)
			}
		}
		for cut := 0; cut < len(ct); cut++ {
			try("truncation", ct[:cut], p.b)
		}
		for bit := 0; bit < len(ct)*8; bit++ {
			m := append([]byte(nil), ct...)
			m[bit/8] ^= 1 << (bit % 8)
			try("bit-flip", m, p.b)
		}
		if !bytes.Equal(p.b, other.b) {
			try("other-passphrase", ct, other.b)
		}
		try("appended-byte", append(append([]byte(nil), ct...), 0), p.b)
	}
}

func checkNeighbours(r *vp.Recorder, thorough bool) {
	maxLen, bits := 136, []uint{0}
	if thorough {
		maxLen, bits = 264, []uint{0, 1, 2, 3, 4, 5, 6, 7}
	}
	payload := fixture.Bytes(24, 0x33)
	apis := []struct {
		name string
		enc  func(payload, pass []byte) (blob [][]byte, err error)
		dec  func(blob [][]byte, pass []byte) ([]byte, error)
	}{
		{"AES", func(pl, pw []byte) ([][]byte, error) {
			n, c, err := dhash.EncryptAES(pl, pw)
			return [][]byte{n, c}, err
		}, func(b [][]byte, pw []byte) ([]byte, error) { return dhash.DecryptAES(b[0], b[1], pw) }},
		{"ValueKey", func(pl, pw []byte) ([][]byte, error) {
			e, err := dhash.EncryptValueKey(pl, pw)
			return [][]byte{e}, err
		}, func(b [][]byte, pw []byte) ([]byte, error) { return dhash.DecryptValueKey(b[0], pw) }},
		{"Metadata", func(pl, pw []byte) ([][]byte, error) {
			e, err := dhash.EncryptMetadata(pl, pw)
			return [][]byte{e}, err
		}, func(b [][]byte, pw []byte) ([]byte, error) { return dhash.DecryptMetadata(b[0], pw) }},
	}
	for n := 1; n <= maxLen; n++ {
		key := fmt.Sprintf("neighbours|%d", n)
		if !r.Mine(key) {
			continue
		}
		pw := fixture.Bytes(n, 0x6b)
		var others []pass
		for i := 0; i < n; i++ {
			for _, b := range bits {
				o := append([]byte(nil), pw...)
				o[i] ^= 1 << b
				others = append(others, pass{fmt.Sprintf("bit %d of byte %d flipped", b, i), o})
			}
		}
		others = append(others, pass{"last byte dropped", append([]byte(nil), pw[:n-1]...)}, pass{"one byte appended", append(append([]byte(nil), pw...), 0)}, pass{"one byte prepended", append([]byte{0}, pw...)})
		for _, api := range apis {
			var blob [][]byte
			var err error
			if pn, m := vp.Guard(func() { blob, err = api.enc(payload, pw) }); pn || err != nil {
				r.Violation("Encrypt"+api.name+":error", key, fmt.Sprintf("passphrase of %d bytes: %v %s", n, err, firstLine(m)), nil)
				continue
			}
			for _, o := range others {
				r.Eval(key+"|"+api.name+"|"+o.label, true)
				var out []byte
				var derr error
				pn, m := vp.Guard(func() { out, derr = api.dec(blob, o.b) })
				switch {
				case pn:
					r.Violation("Decrypt"+api.name+":panic:other-passphrase", key+"|"+o.label, firstLine(m), nil)
				case derr == nil:
					r.Violation("Decrypt"+api.name+":accepted-other-passphrase", key+"|"+o.label, fmt.Sprintf("Decrypt%s with a %d-byte passphrase whose neighbour (%s) was used to encrypt returned data (equal to the payload: %v)", api.name, n, o.label, bytes.Equal(out, payload)), nil)
				}
			}
		}
	}
}

func checkValueKeys(r *vp.Recorder, thorough bool) {
	for _, kt := range fixture.KeyTypes {
		for k := 0; k < 2; k++ {
			id := fixture.Key(kt, k)
			for n := 0; n <= 64; n++ {
				key := fmt.Sprintf("vk|%s#%d|%d", kt, k, n)
				if !r.Mine(key) {
					continue
				}
				r.Eval(key, true)
				ctx := fixture.Bytes(n, 0x77)
				var pid peer.ID
				var got []byte
				var err error
				if pn, m := vp.Guard(func() {
					vk := dhash.CreateValueKey(id.ID, ctx)
					pid, got, err = dhash.SplitValueKey(vk)
				}); pn {
					r.Violation("ValueKey:panic", key, firstLine(m), nil)
					continue
				}
				if err != nil || pid != id.ID || !bytes.Equal(got, ctx) {
					r.Violation("ValueKey:split-mismatch:"+kt, key, fmt.Sprintf("SplitValueKey(CreateValueKey(%s, %d-byte ctx)) = (%s, %d bytes, %v)", id.ID, n, pid, len(got), err), nil)
				}
				r.Outcome("vk-ok")
			}
		}
	}
}

// checkValueKeysHeld: all value keys of a batch are created first (as when a
// store is populated) and split only afterwards: a key a caller holds is not
// affected by the keys created after it.
func checkValueKeysHeld(r *vp.Recorder) {
	key := "vk-held"
	if !r.Mine(key) {
		return
	}
	r.Eval(key, true)
	type item struct {
		id  peer.ID
		ctx []byte
		vk  []byte
	}
	for _, order := range []string{"growing", "shrinking"} {
		var items []item
		for i := 0; i <= 64; i++ {
			n := i
			if order == "shrinking" {
				n = 64 - i
			}
			id := fixture.Key(fixture.KeyTypes[i%len(fixture.KeyTypes)], i%2).ID
			ctx := fixture.Bytes(n, byte(0x30+i))
			items = append(items, item{id, ctx, dhash.CreateValueKey(id, ctx)})
		}
		for i, it := range items {
			pid, got, err := dhash.SplitValueKey(it.vk)
			if err != nil || pid != it.id || !bytes.Equal(got, it.ctx) {
				r.Violation("ValueKey:held-key-changed-by-later-keys", key, fmt.Sprintf("%s batch: value key %d of 65, split after the whole batch was created, gives (%s, %d bytes, %v), built from (%s, %d bytes)", order, i, pid, len(got), err, it.id, len(it.ctx)), nil)
				return
			}
		}
	}
	r.Outcome("vk-held-ok")
}

func checkSecondHash(r *vp.Recorder) {
	codes := []struct {
		name string
		code uint64
		l    int
	}{{"sha2-256", multihash.SHA2_256, -1}, {"sha2-512", multihash.SHA2_512, -1}, {"sha2-256-20", multihash.SHA2_256, 20}, {"blake2b-256", multihash.BLAKE2B_MIN + 31, -1}, {"sha3-256", multihash.SHA3_256, -1}, {"identity", multihash.IDENTITY, -1}}
	seen := map[string]string{}
	for _, c := range codes {
		for i := 0; i < 4; i++ {
			key := fmt.Sprintf("second|%s|%d", c.name, i)
			mh := fixture.Mh(fmt.Sprint("data", i), c.code, c.l)
			var a, b multihash.Multihash
			if pn, m := vp.Guard(func() { a = dhash.SecondMultihash(mh); b = dhash.SecondMultihash(mh) }); pn {
				if r.Mine(key) {
					r.Violation("SecondMultihash:panic", key, firstLine(m), nil)
				}
				continue
			}
			if prev, ok := seen[string(a)]; ok && r.Mine(key) {
				r.Violation("SecondMultihash:collision", key, "same second hash as "+prev, nil)
			}
			seen[string(a)] = key
			if !r.Mine(key) {
				continue
			}
			r.Eval(key, true)
			dec, err := multihash.Decode(a)
			if err != nil || dec.Code != multihash.DBL_SHA2_256 || dec.Length != 32 {
				r.Violation("SecondMultihash:not-dbl-sha2-256", key, fmt.Sprintf("second hash is not a dbl-sha2-256 multihash: %v %+v", err, dec), nil)
			}
			if !bytes.Equal(a, b) {
				r.Violation("SecondMultihash:nondeterministic", key, "two calls differ", nil)
			}
			if bytes.Equal(a, mh) {
				r.Violation("SecondMultihash:equals-input", key, "second hash equals the input", nil)
			}
		}
	}
}

// checkHistories: every sequence of <= depth calls over 3 pairs; each result
// is compared with a first-call baseline and then overwritten, so shared
// scratch state or aliasing between calls shows as a changed later result.
func checkHistories(r *vp.Recorder, thorough bool) {
	type pair struct{ payload, pw []byte }
	pairs := []pair{
		{fixture.Bytes(5, 1), fixture.Mh("a", multihash.SHA2_256, -1)},
		{fixture.Bytes(40, 2), fixture.Mh("b", multihash.SHA2_256, -1)},
		{fixture.Bytes(0, 3), []byte{}},
	}
	type baseline struct{ enc, second []byte }
	base := make([]baseline, len(pairs))
	for i, p := range pairs {
		e, err := dhash.EncryptValueKey(p.payload, p.pw)
		if err != nil {
			panic(err)
		}
		base[i] = baseline{append([]byte(nil), e...), append([]byte(nil), dhash.SecondMultihash(p.pw)...)}
	}
	ops := []string{"enc0", "enc1", "enc2", "dec0", "dec1", "dec2", "sec0", "sec1", "sec2"}
	depth := 3
	if thorough {
		depth = 5
	}
	scribble := func(b []byte) {
		for i := range b {
			b[i] ^= 0xff
		}
	}
	var rec func(seq []int)
	rec = func(seq []int) {
		if len(seq) > 0 {
			key := fmt.Sprintf("hist|%v", seq)
			if r.Mine(key) {
				r.Eval(key, len(seq) > 1)
				for step, o := range seq {
					i := o % 3
					p := pairs[i]
					switch o / 3 {
					case 0:
						e, err := dhash.EncryptValueKey(p.payload, p.pw)
						if err != nil || !bytes.Equal(e, base[i].enc) {
							r.Violation("history:encrypt-changed", key, fmt.Sprintf("step %d (%s): encryption differs from the first-call baseline after %v", step, ops[o], seq[:step]), nil)
						}
						scribble(e)
					case 1:
						d, err := dhash.DecryptValueKey(append([]byte(nil), base[i].enc...), p.pw)
						if err != nil || !bytes.Equal(d, p.payload) {
							r.Violation("history:decrypt-changed", key, fmt.Sprintf("step %d (%s): decryption wrong after %v (err %v)", step, ops[o], seq[:step], err), nil)
						}
						scribble(d)
					case 2:
						s := dhash.SecondMultihash(p.pw)
						if !bytes.Equal(s, base[i].second) {
							r.Violation("history:second-hash-changed", key, fmt.Sprintf("step %d (%s): second hash differs after %v", step, ops[o], seq[:step]), nil)
						}
						scribble(s)
					}
				}
			}
		}
		if len(seq) == depth {
			return
		}
		for o := range ops {
			rec(append(seq[:len(seq):len(seq)], o))
		}
	}
	rec(nil)
}

// ---- find workflow ----

type record struct {
	prov *fixture.Identity
	ctx  []byte
	md   []byte
}

type memStore struct {
	mh map[string][][]byte
	md map[string][]byte
}

func newStore() *memStore { return &memStore{mh: map[string][][]byte{}, md: map[string][]byte{}} }

func (s *memStore) put(mh multihash.Multihash, rec record) {
	vk := dhash.CreateValueKey(rec.prov.ID, rec.ctx)
	evk, err := dhash.EncryptValueKey(vk, mh)
	if err != nil {
		panic(err)
	}
	k := string(dhash.SecondMultihash(mh))
	s.mh[k] = append(s.mh[k], evk)
	emd, err := dhash.EncryptMetadata(rec.md, vk)
	if err != nil {
		panic(err)
	}
	s.md[string(dhash.SHA256(vk, nil))] = emd
}

func (s *memStore) FindMultihash(_ context.Context, dmh multihash.Multihash) ([]model.EncryptedMultihashResult, error) {
	evks, ok := s.mh[string(dmh)]
	if !ok {
		return nil, nil
	}
	return []model.EncryptedMultihashResult{{Multihash: dmh, EncryptedValueKeys: evks}}, nil
}

func (s *memStore) FindMetadata(_ context.Context, hvk []byte) ([]byte, error) {
	return s.md[string(hvk)], nil
}

func resultSet(resp *model.FindResponse, mh multihash.Multihash) ([]string, error) {
	var out []string
	if len(resp.MultihashResults) > 1 {
		return nil, fmt.Errorf("%d multihash results", len(resp.MultihashResults))
	}
	for _, mr := range resp.MultihashResults {
		if !bytes.Equal(mr.Multihash, mh) {
			return nil, fmt.Errorf("result for another multihash")
		}
		for _, pr := range mr.ProviderResults {
			id := ""
			if pr.Provider != nil {
				id = pr.Provider.ID.String()
			}
			out = append(out, fmt.Sprintf("%s|%x|%x", id, pr.ContextID, pr.Metadata))
		}
	}
	sort.Strings(out)
	return out, nil
}

// checkFindBatch: the batch helper (client.FindBatch) over a store populated
// through the dhash functions: for every list of <= 3 multihashes (repeats
// included) over an alphabet of indexed and never-indexed multihashes, among
// them long ones that agree in their first 34 / 40 bytes (identity multihashes
// and sha2-512 digests): the batch answer is what the single lookups give, in
// the order asked.
func checkFindBatch(r *vp.Recorder) {
	common := fixture.Bytes(48, 77)
	idMh := func(tail byte) multihash.Multihash {
		m, err := multihash.Encode(append(append([]byte(nil), common[:38]...), tail, tail), multihash.IDENTITY)
		if err != nil {
			panic(err)
		}
		return m
	}
	s512 := func(tail byte) multihash.Multihash {
		d := append(append([]byte(nil), common...), bytes.Repeat([]byte{tail}, 16)...)
		m, err := multihash.Encode(d, multihash.SHA2_512)
		if err != nil {
			panic(err)
		}
		return m
	}
	alpha := []multihash.Multihash{
		fixture.Mh("batch-1", multihash.SHA2_256, -1), fixture.Mh("batch-2", multihash.SHA2_256, -1),
		idMh(1), idMh(2), s512(1), s512(2), fixture.Mh("batch-never-indexed", multihash.SHA2_256, -1), idMh(3),
	}
	indexed := len(alpha) - 2 // the last two are never indexed (one short, one long with the common prefix)
	st := newStore()
	for i := 0; i < indexed; i++ {
		st.put(alpha[i], record{fixture.Key("ed25519", i%3), []byte{byte(i), 'c'}, []byte{0x80, 0x12, byte(i)}})
		if i%2 == 0 {
			st.put(alpha[i], record{fixture.Key("rsa", 0), []byte{byte(i), 'd'}, []byte{0x90, 0x12, byte(i)}})
		}
	}
	cl, err := client.NewDHashClient(client.WithDHStoreAPI(st), client.WithMetadataOnly(true))
	if err != nil {
		panic(err)
	}
	ctx := context.Background()
	single := make([][]string, len(alpha))
	for i, mh := range alpha {
		resp, err := cl.Find(ctx, mh)
		if err != nil {
			r.Violation("find-batch:single-find-error", "find-batch|setup", err.Error(), nil)
			return
		}
		if len(resp.MultihashResults) > 0 {
			single[i], _ = resultSet(resp, mh)
		}
		if (i < indexed) != (len(single[i]) > 0) {
			r.Violation("find-batch:single-find-wrong", "find-batch|setup", fmt.Sprintf("multihash %d: %d results", i, len(single[i])), nil)
			return
		}
	}
	var lists [][]int
	var gen func(cur []int)
	gen = func(cur []int) {
		if len(cur) > 0 {
			lists = append(lists, append([]int(nil), cur...))
		}
		if len(cur) == 3 {
			return
		}
		for i := range alpha {
			gen(append(cur, i))
		}
	}
	gen(nil)
	for _, l := range lists {
		key := fmt.Sprintf("find-batch|%v", l)
		if !r.Mine(key) {
			continue
		}
		r.Eval(key, len(l) > 1)
		var batch []multihash.Multihash
		var want []string
		for _, i := range l {
			batch = append(batch, alpha[i])
			if len(single[i]) > 0 {
				want = append(want, fmt.Sprintf("%x=%v", []byte(alpha[i]), single[i]))
			}
		}
		var resp *model.FindResponse
		var err error
		if pn, m := vp.Guard(func() { resp, err = client.FindBatch(ctx, cl, batch) }); pn {
			r.Violation("find-batch:panic", key, firstLine(m), nil)
			continue
		}
		if err != nil || resp == nil {
			r.Violation("find-batch:error", key, fmt.Sprint(err), nil)
			continue
		}
		var got []string
		for _, mr := range resp.MultihashResults {
			one, _ := resultSet(&model.FindResponse{MultihashResults: []model.MultihashResult{mr}}, mr.Multihash)
			got = append(got, fmt.Sprintf("%x=%v", []byte(mr.Multihash), one))
		}
		if strings.Join(got, ";") != strings.Join(want, ";") {
			r.Violation("find-batch:differs-from-the-single-lookups", key, fmt.Sprintf("FindBatch over multihashes %v of the alphabet returned\n %v\nthe single lookups give\n %v", l, got, want), nil)
			continue
		}
		r.Outcome("find-batch-ok")
	}
}

func checkFind(r *vp.Recorder, thorough bool) {
	checkFindBatch(r)
	mhs := []multihash.Multihash{fixture.Mh("content-1", multihash.SHA2_256, -1), fixture.Mh("content-2", multihash.SHA2_512, -1)}
	unknown := fixture.Mh("never-indexed", multihash.SHA2_256, -1)
	recs := []record{
		{fixture.Key("ed25519", 0), []byte("ctx-a"), []byte("metadata-one")},
		{fixture.Key("rsa", 0), []byte{}, []byte{0x80, 0x12}},
		{fixture.Key("ed25519", 0), fixture.Bytes(64, 9), fixture.Bytes(200, 4)},
	}
	ctx := context.Background()
	for m0 := 0; m0 < 8; m0++ {
		for m1 := 0; m1 < 8; m1++ {
			key := fmt.Sprintf("find|%03b|%03b", m0, m1)
			if !r.Mine(key) {
				continue
			}
			r.Eval(key, m0|m1 != 0)
			st := newStore()
			want := make([][]string, 2)
			for mi, mask := range []int{m0, m1} {
				for i, rec := range recs {
					if mask&(1<<i) != 0 {
						st.put(mhs[mi], rec)
						want[mi] = append(want[mi], fmt.Sprintf("%s|%x|%x", rec.prov.ID, rec.ctx, rec.md))
					}
				}
				sort.Strings(want[mi])
			}
			cl, err := client.NewDHashClient(client.WithDHStoreAPI(st), client.WithMetadataOnly(true))
			if err != nil {
				panic(err)
			}
			for mi, mh := range append(mhs, unknown) {
				var resp *model.FindResponse
				var err error
				if pn, m := vp.Guard(func() { resp, err = cl.Find(ctx, mh) }); pn {
					r.Violation("find:panic", key, firstLine(m), nil)
					continue
				}
				if err != nil || resp == nil {
					r.Violation("find:error", key, fmt.Sprint(err), nil)
					continue
				}
				got, err := resultSet(resp, mh)
				var w []string
				if mi < 2 {
					w = want[mi]
				}
				if err != nil || strings.Join(got, ",") != strings.Join(w, ",") {
					r.Violation("find:wrong-results", key, fmt.Sprintf("Find(mh%d) = %v (%v), indexed %v", mi, got, err, w), nil)
				}
				if len(w) == 0 && len(resp.MultihashResults) != 0 {
					r.Violation("find:nonempty-for-unindexed", key, "non-empty response for a multihash with no records", nil)
				}
			}
			// hostile store: every stored value truncated to every length
			if m0 == 7 && (m1 == 0 || thorough) {
				checkHostile(r, key, st, cl, mhs[0], want[0])
			}
			r.Outcome(fmt.Sprintf("find-%d-%d", len(want[0]), len(want[1])))
		}
	}
	checkFindHTTP(r, "find-http", mhs, recs, unknown)
	// the same index read by clients built from every combination of the
	// constructor options that say where provider information comes from: a
	// providers URL of its own (knowing every provider, or only the first),
	// metadata-only (provider information is then not consulted at all, whatever
	// else is configured), in both option orders, and the deprecated wrapper
	for _, cfg := range findHTTPConfigs {
		checkFindHTTPCfg(r, "find-http|options="+cfg, cfg, mhs, recs, unknown)
	}
	// the same over HTTP with records at the size limits: metadata of every
	// length around the 1 KiB maximum (and some below; never empty: metadata starts with a protocol ID), context IDs empty and
	// of the maximal 64 bytes, three records per index
	for _, mdLen := range []int{1, 2, 255, 256, 512, 700, 767, 768, 791, 792, 800, 1000, 1023, 1024} {
		for _, ctxLen := range []int{0, 64} {
			// (provider, context ID) pairs are distinct: the third record has
			// the first one's provider and always a context ID of its own
			big := []record{
				{recs[0].prov, fixture.Bytes(ctxLen, 31), fixture.Bytes(mdLen, 41)},
				{recs[1].prov, fixture.Bytes(ctxLen, 32), fixture.Bytes(mdLen, 42)},
				{recs[2].prov, fixture.Bytes(63, 33), fixture.Bytes(mdLen, 43)},
			}
			checkFindHTTP(r, fmt.Sprintf("find-http|md=%d|ctx=%d", mdLen, ctxLen), mhs, big, unknown)
		}
	}
}

func checkHostile(r *vp.Recorder, key string, st *memStore, cl *client.DHashClient, mh multihash.Multihash, want []string) {
	ctx := context.Background()
	k := string(dhash.SecondMultihash(mh))
	orig := st.mh[k]
	legit := map[string]bool{}
	for _, w := range want {
		legit[w] = true
	}
	run := func(kind string) {
		r.Eval(key+"|hostile|"+kind, true)
		// FindAsync is run on a goroutine of the harness (Find starts its own,
		// where a panic would take the whole process down unrecoverably)
		var resp *model.FindResponse
		var err error
		resCh := make(chan model.ProviderResult)
		type done struct {
			pn  bool
			msg string
		}
		doneCh := make(chan done, 1)
		go func() {
			var ferr error
			pn, m := vp.Guard(func() { ferr = cl.FindAsync(ctx, mh, resCh) })
			if pn {
				func() {
					defer func() { recover() }()
					close(resCh)
				}()
			}
			err = ferr
			doneCh <- done{pn, m}
		}()
		var prs []model.ProviderResult
		for pr := range resCh {
			prs = append(prs, pr)
		}
		d := <-doneCh
		resp = &model.FindResponse{}
		if len(prs) > 0 {
			resp.MultihashResults = []model.MultihashResult{{Multihash: mh, ProviderResults: prs}}
		}
		if pn, m := d.pn, d.msg; pn {
			cls := kind
			if i := strings.IndexByte(kind, '='); i >= 0 {
				cls = kind[:i]
			}
			r.Violation("find:panic-on-hostile-store:"+cls, key, fmt.Sprintf("Find panicked with %s: %s", kind, firstLine(m)), nil)
			return
		}
		if err != nil {
			return
		}
		got, _ := resultSet(resp, mh)
		for _, g := range got {
			if !legit[g] {
				r.Violation("find:data-from-hostile-store", key, fmt.Sprintf("Find returned %s, which was never indexed (%s)", g, kind), nil)
			}
		}
	}
	for i := range orig {
		for cut := 0; cut < len(orig[i]); cut++ {
			mod := make([][]byte, len(orig))
			copy(mod, orig)
			mod[i] = orig[i][:cut]
			st.mh[k] = mod
			run(fmt.Sprintf("value-key-truncated-len=%d", cut))
		}
	}
	st.mh[k] = orig
	for hk, emd := range st.md {
		for cut := 0; cut < len(emd); cut++ {
			st.md[hk] = emd[:cut]
			run(fmt.Sprintf("metadata-truncated-len=%d", cut))
		}
		st.md[hk] = emd
	}
}

// checkFindHTTP drives the same workflow through the HTTP dhstore client and
// the provider cache over the in-memory network.
func checkFindHTTP(r *vp.Recorder, key string, mhs []multihash.Multihash, recs []record, unknown multihash.Multihash) {
	checkFindHTTPCfg(r, key, "", mhs, recs, unknown)
}

var findHTTPConfigs = []string{
	"metadata-only", "providers-url-full", "providers-url-full,preload",
	"metadata-only,providers-url-partial", "providers-url-partial,metadata-only",
	"metadata-only,providers-url-unreachable", "metadata-only,providers-url-partial,preload",
	"legacy-wrapper-full", "legacy-wrapper-partial,metadata-only",
	"pcache-ttl-0", "pcache-ttl-1ns,providers-url-full", "pcache-ttl-neg", "pcache-ttl-1h,preload",
}

func checkFindHTTPCfg(r *vp.Recorder, key, cfg string, mhs []multihash.Multihash, recs []record, unknown multihash.Multihash) {
	if !r.Mine(key) {
		return
	}
	r.Eval(key, true)
	st := newStore()
	for _, rec := range recs {
		st.put(mhs[0], rec)
	}
	st.put(mhs[1], recs[1])
	n := memnet.New()
	restore := n.InstallDefault()
	defer restore()
	mux := http.NewServeMux()
	mux.HandleFunc("/encrypted/multihash/", func(w http.ResponseWriter, req *http.Request) {
		b, err := b58.Decode(strings.TrimPrefix(req.URL.Path, "/encrypted/multihash/"))
		if err != nil {
			http.Error(w, "bad", 400)
			return
		}
		res, _ := st.FindMultihash(req.Context(), b)
		if res == nil {
			http.Error(w, "not found", 404)
			return
		}
		json.NewEncoder(w).Encode(&model.FindResponse{EncryptedMultihashResults: res})
	})
	mux.HandleFunc("/metadata/", func(w http.ResponseWriter, req *http.Request) {
		b, err := b58.Decode(strings.TrimPrefix(req.URL.Path, "/metadata/"))
		if err != nil {
			http.Error(w, "bad", 400)
			return
		}
		md, _ := st.FindMetadata(req.Context(), b)
		if md == nil {
			http.Error(w, "not found", 404)
			return
		}
		json.NewEncoder(w).Encode(map[string][]byte{"EncryptedMetadata": md})
	})
	provs := map[string]*model.ProviderInfo{}
	for _, rec := range recs {
		provs[rec.prov.ID.String()] = &model.ProviderInfo{AddrInfo: peer.AddrInfo{ID: rec.prov.ID}}
	}
	mux.HandleFunc("/providers", func(w http.ResponseWriter, req *http.Request) {
		var l []*model.ProviderInfo
		for _, p := range provs {
			l = append(l, p)
		}
		json.NewEncoder(w).Encode(l)
	})
	mux.HandleFunc("/providers/", func(w http.ResponseWriter, req *http.Request) {
		p, ok := provs[strings.TrimPrefix(req.URL.Path, "/providers/")]
		if !ok {
			http.Error(w, "not found", 404)
			return
		}
		json.NewEncoder(w).Encode(p)
	})
	stop := n.Serve("dhstore.test:80", mux)
	defer stop()
	// a providers endpoint of its own: "full" knows every provider, "partial"
	// only the first record's
	for _, kind := range []string{"full", "partial"} {
		kind := kind
		known := func(id string) (*model.ProviderInfo, bool) {
			p, ok := provs[id]
			if kind == "partial" && id != recs[0].prov.ID.String() {
				return nil, false
			}
			return p, ok
		}
		pmux := http.NewServeMux()
		pmux.HandleFunc("/providers", func(w http.ResponseWriter, req *http.Request) {
			var l []*model.ProviderInfo
			for id := range provs {
				if p, ok := known(id); ok {
					l = append(l, p)
				}
			}
			json.NewEncoder(w).Encode(l)
		})
		pmux.HandleFunc("/providers/", func(w http.ResponseWriter, req *http.Request) {
			p, ok := known(strings.TrimPrefix(req.URL.Path, "/providers/"))
			if !ok {
				http.Error(w, "not found", 404)
				return
			}
			json.NewEncoder(w).Encode(p)
		})
		pstop := n.Serve("providers-"+kind+".test:80", pmux)
		defer pstop()
	}
	const dhURL = "http://dhstore.test:80"
	copts := []client.Option{client.WithClient(n.Client())}
	legacy := ""
	for _, o := range strings.Split(cfg, ",") {
		switch o {
		case "":
			copts = append(copts, client.WithDHStoreURL(dhURL))
		case "metadata-only":
			copts = append(copts, client.WithMetadataOnly(true))
		case "preload":
			copts = append(copts, client.WithPcachePreload(true))
		case "pcache-ttl-0":
			copts = append(copts, client.WithPcacheTTL(0))
		case "pcache-ttl-1ns":
			copts = append(copts, client.WithPcacheTTL(time.Nanosecond))
		case "pcache-ttl-neg":
			copts = append(copts, client.WithPcacheTTL(-time.Minute))
		case "pcache-ttl-1h":
			copts = append(copts, client.WithPcacheTTL(time.Hour))
		case "providers-url-full", "providers-url-partial", "providers-url-unreachable":
			copts = append(copts, client.WithProvidersURL("http://"+strings.Replace(o, "providers-url", "providers", 1)+".test:80"))
		case "legacy-wrapper-full", "legacy-wrapper-partial":
			legacy = "http://" + strings.Replace(o, "legacy-wrapper", "providers", 1) + ".test:80"
		default:
			panic("unknown client configuration " + o)
		}
	}
	var cl *client.DHashClient
	var err error
	if legacy != "" {
		cl, err = oldclient.NewDHashClient(dhURL, legacy, copts...)
	} else {
		if cfg != "" {
			copts = append(copts, client.WithDHStoreURL(dhURL))
		}
		cl, err = client.NewDHashClient(copts...)
	}
	if err != nil {
		r.Violation("find-http:setup", key, err.Error(), nil)
		return
	}
	ctx := context.Background()
	for round := 0; round < 2; round++ {
		if round == 1 {
			// the client's accessor for its provider cache is read-only: the
			// same lookups once more after it was called
			if pn, m := vp.Guard(func() { _ = cl.PCache() }); pn {
				r.Violation("find-http:panic", key, "PCache: "+firstLine(m), nil)
				return
			}
		}
		for mi, mh := range append(mhs, unknown) {
			var resp *model.FindResponse
			var err error
			if pn, m := vp.Guard(func() { resp, err = cl.Find(ctx, mh) }); pn {
				r.Violation("find-http:panic", key, firstLine(m), nil)
				continue
			}
			if err != nil {
				r.Violation("find-http:error", key, err.Error(), nil)
				continue
			}
			got, _ := resultSet(resp, mh)
			var want []string
			switch mi {
			case 0:
				for _, rec := range recs {
					want = append(want, fmt.Sprintf("%s|%x|%x", rec.prov.ID, rec.ctx, rec.md))
				}
			case 1:
				want = []string{fmt.Sprintf("%s|%x|%x", recs[1].prov.ID, recs[1].ctx, recs[1].md)}
			}
			sort.Strings(want)
			if strings.Join(got, ",") != strings.Join(want, ",") {
				when := ""
				if round == 1 {
					when = " (after the client's PCache accessor was called)"
				}
				r.Violation("find-http:wrong-results", key, fmt.Sprintf("Find(mh%d) over HTTP%s = %v, indexed %v", mi, when, got, want), nil)
			}
			r.Outcome(fmt.Sprintf("find-http-%d", len(got)))
		}
	}
}
