// Package c07race is the free-running race-detector pass for property C07: the
// same operations as the scheduled scenarios (readers Get/List/GetResults of a
// cached provider; a writer refreshing while the sources change; lookups of
// uncached providers; the automatic refresh) on the unmodified, uninstrumented
// ProviderCache with real goroutines under `go test -race`. It is SAMPLED, not
// exhaustive: a cooperative scheduler cannot see unsynchronised accesses (its
// hand-offs are happens-before edges), so this pass complements, and does not
// replace, the model-checked part.
package c07race

import (
	"context"
	"fmt"
	"os"
	"sync"
	"testing"
	"time"

	"github.com/ipni/go-libipni/find/model"
	"github.com/ipni/go-libipni/pcache"
	"github.com/libp2p/go-libp2p/core/peer"

	"verifharness/fixture"
)

type source struct {
	mu      sync.Mutex
	ver     int
	fillers int
}

func (s *source) rec(pid peer.ID, v int) *model.ProviderInfo {
	return &model.ProviderInfo{
		AddrInfo:              peer.AddrInfo{ID: pid},
		LastAdvertisementTime: fmt.Sprintf("2024-01-01T00:%02d:%02dZ", v/60%60, v%60),
		ExtendedProviders: &model.ExtendedProviders{
			Providers: []peer.AddrInfo{{ID: pid}},
			Metadatas: [][]byte{nil},
			Contextual: []model.ContextualExtendedProviders{{ContextID: "ctx", Providers: []peer.AddrInfo{{ID: pid}}, Metadatas: [][]byte{[]byte("x")}}},
		},
	}
}

func (s *source) Fetch(_ context.Context, pid peer.ID) (*model.ProviderInfo, error) {
	s.mu.Lock()
	defer s.mu.Unlock()
	if pid == fixture.Key("ed25519", 0).ID {
		return s.rec(pid, s.ver), nil
	}
	return nil, nil
}

func (s *source) FetchAll(context.Context) ([]*model.ProviderInfo, error) {
	s.mu.Lock()
	defer s.mu.Unlock()
	s.ver++
	out := []*model.ProviderInfo{s.rec(fixture.Key("ed25519", 0).ID, s.ver)}
	// the number of providers oscillates so that refreshes cross the merge threshold both ways
	n := s.fillers + s.ver%4
	for i := 0; i < n; i++ {
		out = append(out, s.rec(fixture.Key("ed25519", 100+i).ID, s.ver))
	}
	return out, nil
}

func (s *source) String() string { return "race-fake" }

func TestRaceBodies(t *testing.T) {
	rounds := 60
	if os.Getenv("VERIF_TIER") == "thorough" {
		rounds = 600
	}
	pP := fixture.Key("ed25519", 0).ID
	for round := 0; round < rounds; round++ {
		src := &source{fillers: round % 5}
		pc, err := pcache.New(pcache.WithSource(src), pcache.WithRefreshInterval(time.Millisecond), pcache.WithTTL(time.Hour))
		if err != nil {
			t.Fatal(err)
		}
		ctx := context.Background()
		var wg sync.WaitGroup
		for r := 0; r < 3; r++ {
			wg.Add(1)
			go func() {
				defer wg.Done()
				for i := 0; i < 40; i++ {
					if pi, err := pc.Get(ctx, pP); err != nil || pi == nil {
						t.Errorf("cached provider missing: %v %v", pi, err)
						return
					}
					for _, x := range pc.List() {
						_ = x.LastAdvertisementTime
					}
					if res, err := pc.GetResults(ctx, pP, []byte("ctx"), []byte("md")); err != nil || len(res) == 0 {
						t.Errorf("GetResults: %v %v", res, err)
						return
					}
					_ = pc.Len()
				}
			}()
		}
		wg.Add(2)
		go func() {
			defer wg.Done()
			for i := 0; i < 12; i++ {
				if err := pc.Refresh(ctx); err != nil {
					t.Errorf("Refresh: %v", err)
				}
			}
		}()
		go func() {
			defer wg.Done()
			for i := 0; i < 6; i++ {
				pc.Get(ctx, fixture.Key("ed25519", 200+i).ID) // uncached: miss-fetch, negative entry
			}
		}()
		wg.Wait()
		time.Sleep(3 * time.Millisecond) // let an automatic refresh started by a Get finish
	}
	fmt.Printf("RACE-PASS rounds=%d\n", rounds)
}
