// Package c07race is the free-running race-detector pass for property C07: the
// same operations as the scheduled scenarios (readers Get/List/GetResults of a
// cached provider; a writer refreshing while the sources change; lookups of
// uncached providers; the automatic refresh) on the unmodified, uninstrumented
// ProviderCache with real goroutines under `go test -race`. It is SAMPLED, not
// exhaustive: a cooperative scheduler cannot see unsynchronised accesses (its
// hand-offs are happens-before edges), so this pass complements, and does not
// replace, the model-checked part.
package c07race

import (
	"context"
	"fmt"
	"os"
	"sync"
	"testing"
	"time"

	"github.com/ipni/go-libipni/find/model"
	"github.com/ipni/go-libipni/pcache"
	"github.com/libp2p/go-libp2p/core/peer"

	"verifharness/fixture"
)

type source struct {
	mu      sync.Mutex
	ver     int
	fillers int
	// static: FetchAll delivers the same records every time (no refresh brings
	// anything new), so that what a refresh does is expiry bookkeeping only
	static  bool
	answers int
}

func (s *source) setFillers(n int) {
	s.mu.Lock()
	s.fillers = n
	s.mu.Unlock()
}

func (s *source) rec(pid peer.ID, v int) *model.ProviderInfo {
	// the ingest status (lag, last error) changes from one answer to the next
	// also when the advertisement time does not
	s.answers++
	return &model.ProviderInfo{
		AddrInfo:              peer.AddrInfo{ID: pid},
		LastAdvertisementTime: fmt.Sprintf("2024-01-01T00:%02d:%02dZ", v/60%60, v%60),
		Lag:                   s.answers % 7,
		LastError:             fmt.Sprintf("status-%d", s.answers%3),
		ExtendedProviders: &model.ExtendedProviders{
			Providers:  []peer.AddrInfo{{ID: pid}},
			Metadatas:  [][]byte{nil},
			Contextual: []model.ContextualExtendedProviders{{ContextID: "ctx", Providers: []peer.AddrInfo{{ID: pid}}, Metadatas: [][]byte{[]byte("x")}}},
		},
	}
}

func (s *source) Fetch(_ context.Context, pid peer.ID) (*model.ProviderInfo, error) {
	s.mu.Lock()
	defer s.mu.Unlock()
	if pid == fixture.Key("ed25519", 0).ID {
		return s.rec(pid, s.ver), nil
	}
	return nil, nil
}

func (s *source) FetchAll(context.Context) ([]*model.ProviderInfo, error) {
	s.mu.Lock()
	defer s.mu.Unlock()
	n := s.fillers
	if !s.static {
		s.ver++
		// the number of providers oscillates so that refreshes cross the merge threshold both ways
		n += s.ver % 4
	}
	out := []*model.ProviderInfo{s.rec(fixture.Key("ed25519", 0).ID, s.ver)}
	for i := 0; i < n; i++ {
		out = append(out, s.rec(fixture.Key("ed25519", 100+i).ID, s.ver))
	}
	return out, nil
}

func (s *source) String() string { return "race-fake" }

func TestRaceBodies(t *testing.T) {
	rounds := 60
	if os.Getenv("VERIF_TIER") == "thorough" {
		rounds = 600
	}
	pP := fixture.Key("ed25519", 0).ID
	for round := 0; round < rounds; round++ {
		src := &source{fillers: round % 5}
		ttl := time.Hour
		// every third round: providers disappear from an otherwise unchanging
		// source and the time-to-live is a millisecond, so that refreshes which
		// bring nothing new expire providers and negative entries while readers run
		expiry := round%3 == 1
		if expiry {
			src = &source{fillers: 2 + round%3, static: true, ver: 1}
			ttl = time.Millisecond
		}
		// every fourth round the cache is built without preload: its first
		// refresh ever then runs while readers are already at work (the
		// provider the readers look up gets in by a lookup miss first)
		noPreload := round%4 == 2 && !expiry
		pc, err := pcache.New(pcache.WithSource(src), pcache.WithRefreshInterval(time.Millisecond), pcache.WithTTL(ttl), pcache.WithPreload(!noPreload))
		if err != nil {
			t.Fatal(err)
		}
		ctx := context.Background()
		if noPreload {
			if pi, err := pc.Get(ctx, pP); err != nil || pi == nil {
				t.Fatalf("lookup miss of a known provider: %v %v", pi, err)
			}
		}
		if expiry {
			if err := pc.Refresh(ctx); err != nil {
				t.Fatal(err)
			}
			pc.Get(ctx, fixture.Key("ed25519", 300).ID) // a miss: the update map exists from here on
			src.setFillers(0)                           // the fillers are gone, nothing else ever changes
		}
		var wg sync.WaitGroup
		for r := 0; r < 3; r++ {
			wg.Add(1)
			go func() {
				defer wg.Done()
				for i := 0; i < 40; i++ {
					if pi, err := pc.Get(ctx, pP); err != nil || pi == nil {
						t.Errorf("cached provider missing: %v %v", pi, err)
						return
					}
					// a reader uses the whole record it was given, every field of it
					if pi, _ := pc.Get(ctx, pP); pi != nil {
						_ = fmt.Sprint(*pi)
					}
					for _, x := range pc.List() {
						_ = fmt.Sprint(*x)
					}
					if res, err := pc.GetResults(ctx, pP, []byte("ctx"), []byte("md")); err != nil || len(res) == 0 {
						t.Errorf("GetResults: %v %v", res, err)
						return
					}
					_ = pc.Len()
				}
			}()
		}
		wg.Add(2)
		go func() {
			defer wg.Done()
			for i := 0; i < 12; i++ {
				if err := pc.Refresh(ctx); err != nil {
					t.Errorf("Refresh: %v", err)
				}
				if expiry {
					time.Sleep(400 * time.Microsecond)
				}
			}
		}()
		go func() {
			defer wg.Done()
			for i := 0; i < 6; i++ {
				pc.Get(ctx, fixture.Key("ed25519", 200+i).ID) // uncached: miss-fetch, negative entry
			}
		}()
		wg.Wait()
		time.Sleep(3 * time.Millisecond) // let an automatic refresh started by a Get finish
	}
	fmt.Printf("RACE-PASS rounds=%d\n", rounds)
}
