// C13: advertisements and entry chunks round-trip through IPLD with stable
// CIDs; decoding arbitrary bytes never panics. Bounded-exhaustive enumeration.
package c13

import (
	"bytes"
	"fmt"
	"sort"
	"strings"
	"testing"

	"github.com/ipfs/go-cid"
	"github.com/ipld/go-ipld-prime"
	"github.com/ipld/go-ipld-prime/codec/dagcbor"
	"github.com/ipld/go-ipld-prime/codec/dagjson"
	cidlink "github.com/ipld/go-ipld-prime/linking/cid"
	"github.com/ipld/go-ipld-prime/node/basicnode"
	"github.com/ipld/go-ipld-prime/storage/memstore"
	"github.com/ipni/go-libipni/ingest/schema"
	"github.com/libp2p/go-libp2p/core/crypto"
	"github.com/libp2p/go-libp2p/core/peer"
	"github.com/multiformats/go-multibase"
	"github.com/multiformats/go-multicodec"
	"github.com/multiformats/go-multihash"

	"verifharness/fixture"
	"verifharness/vp"
)

func firstLine(s string) string {
	if i := strings.IndexByte(s, '\n'); i >= 0 {
		return s[:i]
	}
	return s
}

func lnk(s string) ipld.Link { return cidlink.Link{Cid: fixture.Cid(s, uint64(multicodec.DagJson))} }

type adShape struct {
	prev    bool
	entries int // 0 NoEntries, 1 dag-json link, 2 dag-cbor link
	nAddrs  int
	ctxLen  int
	mdLen   int
	sig     bool
	isRm    bool
	ep      int // 0 absent, 1 present with 0 providers, 2 with 1, 3 with 2
	ovr     bool
	// nilLists: lists and byte strings of length zero are nil instead of
	// empty (addresses, context ID, metadata, the provider list)
	nilLists bool
}

func (s adShape) String() string {
	k := fmt.Sprintf("prev=%v,ent=%d,addrs=%d,ctx=%d,md=%d,sig=%v,rm=%v,ep=%d,ovr=%v", s.prev, s.entries, s.nAddrs, s.ctxLen, s.mdLen, s.sig, s.isRm, s.ep, s.ovr)
	if s.nilLists {
		k += ",zero-length-as-nil"
	}
	return k
}

func clip(b []byte) string {
	if len(b) > 300 {
		return string(b[:300]) + "..."
	}
	return string(b)
}

func buildAd(s adShape) schema.Advertisement {
	ad := schema.Advertisement{Provider: fixture.Key("ed25519", 0).ID.String(), IsRm: s.isRm}
	if s.prev {
		ad.PreviousID = lnk("prev")
	}
	switch s.entries {
	case 0:
		ad.Entries = schema.NoEntries
	case 1:
		ad.Entries = lnk("entries")
	default:
		ad.Entries = cidlink.Link{Cid: fixture.Cid("entries", uint64(multicodec.DagCbor))}
	}
	ad.Addresses = append([]string{}, []string{"/ip4/1.2.3.4/tcp/1", "/dns4/é.example/tcp/443/https"}[:s.nAddrs]...)
	ad.ContextID = fixture.Bytes(s.ctxLen, 1)
	ad.Metadata = fixture.Bytes(s.mdLen, 2)
	if s.nilLists {
		if s.nAddrs == 0 {
			ad.Addresses = nil
		}
		if s.ctxLen == 0 {
			ad.ContextID = nil
		}
		if s.mdLen == 0 {
			ad.Metadata = nil
		}
	}
	if s.sig {
		ad.Signature = fixture.Bytes(70, 3)
	} else {
		ad.Signature = []byte{}
	}
	if s.ep > 0 {
		ep := &schema.ExtendedProvider{Override: s.ovr, Providers: []schema.Provider{}}
		for i := 0; i < s.ep-1; i++ {
			p := schema.Provider{ID: fixture.Key("ed25519", i+1).ID.String(), Addresses: []string{}, Metadata: []byte{}, Signature: fixture.Bytes(8, byte(i))}
			if i == 0 {
				p.Addresses = []string{"/ip4/5.5.5.5/tcp/5"}
				p.Metadata = []byte("md")
			}
			ep.Providers = append(ep.Providers, p)
		}
		ad.ExtendedProvider = ep
	}
	return ad
}

// canonical forms for semantic comparison (nil == empty for non-optional
// lists and byte strings; optional parts absent vs present is kept).
func adCanon(a *schema.Advertisement) string {
	var b strings.Builder
	if a.PreviousID == nil {
		b.WriteString("prev=absent;")
	} else {
		fmt.Fprintf(&b, "prev=%s;", a.PreviousID)
	}
	fmt.Fprintf(&b, "prov=%q;addrs=%q;sig=%x;", a.Provider, a.Addresses, a.Signature)
	if a.Entries == nil {
		b.WriteString("ent=nil;")
	} else {
		fmt.Fprintf(&b, "ent=%s;", a.Entries)
	}
	fmt.Fprintf(&b, "ctx=%x;md=%x;rm=%v;", a.ContextID, a.Metadata, a.IsRm)
	if a.ExtendedProvider == nil {
		b.WriteString("ep=absent")
	} else {
		fmt.Fprintf(&b, "ep=present,ovr=%v", a.ExtendedProvider.Override)
		for _, p := range a.ExtendedProvider.Providers {
			fmt.Fprintf(&b, "[%q %q %x %x]", p.ID, p.Addresses, p.Metadata, p.Signature)
		}
	}
	return b.String()
}

func chunkCanon(c *schema.EntryChunk) string {
	var b strings.Builder
	for _, e := range c.Entries {
		fmt.Fprintf(&b, "%x,", []byte(e))
	}
	if c.Next == nil {
		b.WriteString("next=absent")
	} else {
		fmt.Fprintf(&b, "next=%s", c.Next)
	}
	return b.String()
}

func encode(n ipld.Node, codec uint64) ([]byte, error) {
	var buf bytes.Buffer
	var err error
	if codec == uint64(multicodec.DagJson) {
		err = dagjson.Encode(n, &buf)
	} else {
		err = dagcbor.Encode(n, &buf)
	}
	return buf.Bytes(), err
}

func cidFor(codec uint64) cid.Cid {
	return cid.NewCidV1(codec, fixture.Mh("x", multihash.SHA2_256, -1))
}

var codecs = []uint64{uint64(multicodec.DagJson), uint64(multicodec.DagCbor)}

type corpusItem struct {
	kind  string // "ad" or "chunk"
	codec uint64
	data  []byte
}

func TestCheck(t *testing.T) {
	r := vp.New("C13", "exploration",
		"advertisements: product of {previous link} x {entries: NoEntries, dag-json link, dag-cbor link} x {0..2 addresses} x {context ID 0/1/64} x {metadata 0/1/1024} x {signature empty/non-empty} x {IsRm} x {extended providers absent / present with 0,1,2 providers} x {override} x {zero-length lists and byte strings empty / nil}; what is decoded must encode to the bytes it was decoded from, and a loaded value stored again must give the same CID; advertisements signed by the library with 0..2 further extended providers x {the provider's own entry with addresses and metadata, without both, without either} x {its position} x {override}, stored, loaded with both prototypes, validated and verified, then compared and stored again; the provider and an extended provider written in 8 spellings (base58 and CID text of peer IDs, hex, no peer ID, empty) through both codecs and both load prototypes; entry chunks: 0..3 multihashes of mixed hash functions (sha2-256, sha2-512, identity, truncated sha2-256, a two-byte code (blake2b-256), a length of two varint bytes) x {next link}; both codecs; store twice through Linkproto; load with typed and with generic prototype. Decoder: for each corpus block every single-byte substitution, every truncation, CBOR header tokens / JSON structural tokens at every offset, all byte strings of length <=2, for both decoders and both codecs and for the generic-node unwrap path; after every block that the unwrap path rejects a small valid block is decoded and compared (a rejection leaves nothing behind). Non-trivial: values with at least one optional part or list element; decoder inputs other than the corpus itself.",
		"equality is semantic: nil and empty are the same for non-optional lists and byte strings; optional parts must keep absent-vs-present",
		"decoder inputs are within one token of a valid block or at most 2 bytes long",
	)
	defer func() {
		if err := r.Finish(); err != nil {
			t.Fatal(err)
		}
	}()
	thorough := vp.Thorough()
	var corpus []corpusItem

	// ---- advertisements ----
	var shapes []adShape
	for _, prev := range []bool{false, true} {
		for ent := 0; ent < 3; ent++ {
			for na := 0; na <= 2; na++ {
				for _, cl := range []int{0, 1, 64} {
					for _, ml := range []int{0, 1, 1024} {
						for _, sig := range []bool{false, true} {
							for _, rm := range []bool{false, true} {
								for ep := 0; ep <= 3; ep++ {
									for _, ovr := range []bool{false, true} {
										if ep == 0 && ovr {
											continue
										}
										shapes = append(shapes, adShape{prev, ent, na, cl, ml, sig, rm, ep, ovr, false})
										if na == 0 || cl == 0 || ml == 0 {
											shapes = append(shapes, adShape{prev, ent, na, cl, ml, sig, rm, ep, ovr, true})
										}
									}
								}
							}
						}
					}
				}
			}
		}
	}
	r.Bounds(map[string]any{"ad_shapes": len(shapes)})
	for _, s := range shapes {
		key := "ad|" + s.String()
		isCorpus := s.mdLen == 1 && s.ctxLen == 1 && s.sig && s.nAddrs == 1 && !s.isRm && ((s.ep == 0 && !s.prev && s.entries == 0) || (s.ep == 3 && s.prev && s.entries == 1 && s.ovr) || (s.ep == 1 && s.prev && s.entries == 2 && !s.ovr))
		mine := r.Mine(key)
		if !mine && !isCorpus {
			continue
		}
		ad := buildAd(s)
		want := adCanon(&ad)
		var node ipld.Node
		var err error
		if pn, m := vp.Guard(func() { node, err = ad.ToNode() }); pn || err != nil {
			if mine {
				r.Violation("ad:ToNode", key, fmt.Sprint(firstLine(m), err), nil)
			}
			continue
		}
		for _, codec := range codecs {
			data, err := encode(node, codec)
			if err != nil {
				if mine {
					r.Violation("ad:encode-error", key, err.Error(), nil)
				}
				continue
			}
			if isCorpus {
				corpus = append(corpus, corpusItem{"ad", codec, data})
			}
			if !mine {
				continue
			}
			r.Eval(fmt.Sprintf("%s|codec=%x", key, codec), s.prev || s.ep > 0 || s.nAddrs > 0)
			var back schema.Advertisement
			if pn, m := vp.Guard(func() { back, err = schema.BytesToAdvertisement(cidFor(codec), data) }); pn {
				r.Violation("ad:decode-panic", key, firstLine(m), nil)
				continue
			}
			if err != nil {
				r.Violation(fmt.Sprintf("ad:decode-error:codec=%x", codec), key, err.Error(), nil)
				continue
			}
			if got := adCanon(&back); got != want {
				r.Violation(fmt.Sprintf("ad:roundtrip-differs:codec=%x", codec), key, fmt.Sprintf("decode(encode(ad)) differs:\n got  %s\n want %s", got, want), nil)
				continue
			}
			// equal also at the level of the data model: what was decoded
			// encodes to the bytes it was decoded from (a part that went from
			// present to absent, or from empty to missing, shows here)
			if node3, err := back.ToNode(); err != nil {
				r.Violation(fmt.Sprintf("ad:decoded-value-not-encodable:codec=%x", codec), key, err.Error(), nil)
				continue
			} else if data3, err := encode(node3, codec); err != nil || !bytes.Equal(data3, data) {
				r.Violation(fmt.Sprintf("ad:decoded-value-encodes-differently:codec=%x", codec), key, fmt.Sprintf("encode(decode(encode(ad))) differs from encode(ad) (err %v):\n first  %q\n second %q", err, clip(data), clip(data3)), nil)
				continue
			}
			r.Outcome("ad-roundtrip")
		}
		if !mine {
			continue
		}
		// store twice, same CID, CIDv1 / dag-json / sha2-256; generic vs typed load
		lsys := cidlink.DefaultLinkSystem()
		store := &memstore.Store{}
		lsys.SetReadStorage(store)
		lsys.SetWriteStorage(store)
		l1, err1 := lsys.Store(ipld.LinkContext{}, schema.Linkproto, node)
		node2, _ := buildAdPtr(s).ToNode()
		l2, err2 := lsys.Store(ipld.LinkContext{}, schema.Linkproto, node2)
		if err1 != nil || err2 != nil {
			r.Violation("ad:store-error", key, fmt.Sprint(err1, err2), nil)
			continue
		}
		c1 := l1.(cidlink.Link).Cid
		if !c1.Equals(l2.(cidlink.Link).Cid) {
			r.Violation("ad:cid-unstable", key, "storing the same advertisement twice gave different CIDs", nil)
		}
		p := c1.Prefix()
		if p.Version != 1 || p.Codec != uint64(multicodec.DagJson) || p.MhType != multihash.SHA2_256 || p.MhLength != 32 {
			r.Violation("ad:cid-prefix", key, fmt.Sprintf("stored CID prefix %+v is not CIDv1/dag-json/sha2-256", p), nil)
		}
		gen, err := lsys.Load(ipld.LinkContext{}, l1, basicnode.Prototype.Any)
		typ, err2 := lsys.Load(ipld.LinkContext{}, l1, schema.AdvertisementPrototype)
		if err != nil || err2 != nil {
			r.Violation("ad:load-error", key, fmt.Sprint(err, err2), nil)
			continue
		}
		var ga, ta *schema.Advertisement
		if pn, m := vp.Guard(func() { ga, err = schema.UnwrapAdvertisement(gen); ta, err2 = schema.UnwrapAdvertisement(typ) }); pn {
			r.Violation("ad:unwrap-panic", key, firstLine(m), nil)
			continue
		}
		if err != nil || err2 != nil {
			r.Violation("ad:unwrap-error", key, fmt.Sprint(err, err2), nil)
			continue
		}
		if adCanon(ga) != want || adCanon(ta) != want {
			r.Violation("ad:generic-vs-typed-differs", key, fmt.Sprintf("generic %s\n typed %s\n want %s", adCanon(ga), adCanon(ta), want), nil)
		}
		// what was loaded, stored again, is the same block
		for which, la := range map[string]*schema.Advertisement{"generic": ga, "typed": ta} {
			n3, err := la.ToNode()
			if err != nil {
				r.Violation("ad:loaded-value-not-encodable:"+which, key, err.Error(), nil)
				continue
			}
			l3, err := lsys.Store(ipld.LinkContext{}, schema.Linkproto, n3)
			if err != nil || !l3.(cidlink.Link).Cid.Equals(c1) {
				r.Violation("ad:cid-changes-after-load-and-store:"+which, key, fmt.Sprintf("stored %s, loaded it (%s prototype), stored the loaded value: %v (err %v)", c1, which, l3, err), nil)
			}
		}
		if s.ep == 3 && s.prev {
			r.Sample(map[string]any{"advertisement": s.String(), "cid": c1.String()})
		}
	}

	checkSignedAds(r)
	checkProviderSpellings(r)

	// ---- entry chunks ----
	// also multihashes whose code or whose length takes more than one byte of
	// varint (blake2b-256 = 0xb220; an identity multihash of 130 bytes)
	blake, err := multihash.Encode(fixture.Bytes(32, 9), 0xb220)
	if err != nil {
		t.Fatal(err)
	}
	longIdentity, err := multihash.Encode(fixture.Bytes(130, 10), multihash.IDENTITY)
	if err != nil {
		t.Fatal(err)
	}
	mhAlpha := []multihash.Multihash{fixture.Mh("a", multihash.SHA2_256, -1), fixture.Mh("b", multihash.SHA2_512, -1), fixture.Mh("c", multihash.IDENTITY, -1), fixture.Mh("d", multihash.SHA2_256, 20), blake, longIdentity}
	var mhLists [][]int
	var gen func(cur []int)
	gen = func(cur []int) {
		mhLists = append(mhLists, append([]int(nil), cur...))
		if len(cur) == 3 {
			return
		}
		for i := range mhAlpha {
			gen(append(cur, i))
		}
	}
	gen(nil)
	for _, l := range mhLists {
		for _, next := range []bool{false, true} {
			key := fmt.Sprintf("chunk|%v|next=%v", l, next)
			isCorpus := (len(l) == 0 && !next) || (fmt.Sprint(l) == "[0 1 2]" && next) || (fmt.Sprint(l) == "[3]" && !next)
			mine := r.Mine(key)
			if !mine && !isCorpus {
				continue
			}
			ch := schema.EntryChunk{Entries: []multihash.Multihash{}}
			for _, i := range l {
				ch.Entries = append(ch.Entries, mhAlpha[i])
			}
			if next {
				ch.Next = lnk("next")
			}
			want := chunkCanon(&ch)
			node, err := ch.ToNode()
			if err != nil {
				if mine {
					r.Violation("chunk:ToNode", key, err.Error(), nil)
				}
				continue
			}
			for _, codec := range codecs {
				data, err := encode(node, codec)
				if err != nil {
					if mine {
						r.Violation("chunk:encode-error", key, err.Error(), nil)
					}
					continue
				}
				if isCorpus {
					corpus = append(corpus, corpusItem{"chunk", codec, data})
				}
				if !mine {
					continue
				}
				r.Eval(fmt.Sprintf("%s|codec=%x", key, codec), len(l) > 0 || next)
				var back schema.EntryChunk
				if pn, m := vp.Guard(func() { back, err = schema.BytesToEntryChunk(cidFor(codec), data) }); pn {
					r.Violation("chunk:decode-panic", key, firstLine(m), nil)
					continue
				}
				if err != nil {
					r.Violation(fmt.Sprintf("chunk:decode-error:codec=%x", codec), key, err.Error(), nil)
					continue
				}
				if got := chunkCanon(&back); got != want {
					r.Violation(fmt.Sprintf("chunk:roundtrip-differs:codec=%x", codec), key, fmt.Sprintf("got %s want %s", got, want), nil)
				}
				r.Outcome("chunk-roundtrip")
			}
			if !mine {
				continue
			}
			lsys := cidlink.DefaultLinkSystem()
			store := &memstore.Store{}
			lsys.SetReadStorage(store)
			lsys.SetWriteStorage(store)
			l1, err1 := lsys.Store(ipld.LinkContext{}, schema.Linkproto, node)
			l2, err2 := lsys.Store(ipld.LinkContext{}, schema.Linkproto, node)
			if err1 != nil || err2 != nil || !l1.(cidlink.Link).Cid.Equals(l2.(cidlink.Link).Cid) {
				r.Violation("chunk:cid-unstable", key, fmt.Sprint(err1, err2), nil)
				continue
			}
			gen, err := lsys.Load(ipld.LinkContext{}, l1, basicnode.Prototype.Any)
			typ, err2 := lsys.Load(ipld.LinkContext{}, l1, schema.EntryChunkPrototype)
			if err != nil || err2 != nil {
				r.Violation("chunk:load-error", key, fmt.Sprint(err, err2), nil)
				continue
			}
			var gc, tc *schema.EntryChunk
			if pn, m := vp.Guard(func() { gc, err = schema.UnwrapEntryChunk(gen); tc, err2 = schema.UnwrapEntryChunk(typ) }); pn {
				r.Violation("chunk:unwrap-panic", key, firstLine(m), nil)
				continue
			}
			if err != nil || err2 != nil || chunkCanon(gc) != want || chunkCanon(tc) != want {
				r.Violation("chunk:generic-vs-typed-differs", key, fmt.Sprint(err, err2), nil)
			}
		}
	}

	// ---- every value of the final byte(s) of an encoded block ----
	// The last bytes of a DAG-CBOR block are payload bytes (the last multihash
	// of a chunk, a signature, a context ID ...): every byte value must survive
	// there, including the ones a text decoder would treat as padding.
	for v := 0; v < 256; v++ {
		key := fmt.Sprintf("final-byte|%d", v)
		if !r.Mine(key) {
			continue
		}
		tail := func(n int, seed byte) []byte {
			b := fixture.Bytes(n, seed)
			b[n-1] = byte(v)
			return b
		}
		mhv, err := multihash.Encode(tail(32, 0x51), multihash.SHA2_256)
		if err != nil {
			panic(err)
		}
		chunks := []schema.EntryChunk{
			{Entries: []multihash.Multihash{mhAlpha[0], mhv}},
			{Entries: []multihash.Multihash{mhv}},
			{Entries: []multihash.Multihash{mhv, mhv}, Next: lnk("next")},
		}
		for ci, ch := range chunks {
			want := chunkCanon(&ch)
			node, err := ch.ToNode()
			if err != nil {
				r.Violation("chunk:ToNode", key, err.Error(), nil)
				continue
			}
			for _, codec := range codecs {
				r.Eval(fmt.Sprintf("%s|chunk%d|codec=%x", key, ci, codec), true)
				data, err := encode(node, codec)
				if err != nil {
					r.Violation("chunk:encode-error", key, err.Error(), nil)
					continue
				}
				var back schema.EntryChunk
				if pn, m := vp.Guard(func() { back, err = schema.BytesToEntryChunk(cidFor(codec), data) }); pn {
					r.Violation("chunk:decode-panic", key, firstLine(m), nil)
				} else if err != nil {
					r.Violation(fmt.Sprintf("chunk:decode-error:final-byte:codec=%x", codec), key, fmt.Sprintf("a chunk whose last multihash ends in 0x%02x (block ends in 0x%02x) does not decode: %v", v, data[len(data)-1], err), nil)
				} else if got := chunkCanon(&back); got != want {
					r.Violation(fmt.Sprintf("chunk:roundtrip-differs:codec=%x", codec), key, fmt.Sprintf("got %s want %s", got, want), nil)
				}
			}
		}
		for si, sh := range []adShape{{sig: true, ctxLen: 1, mdLen: 1}, {prev: true, entries: 2, nAddrs: 1, ctxLen: 1, mdLen: 1, sig: true, ep: 3, ovr: true}, {isRm: true, sig: true, ctxLen: 1}} {
			ad := buildAd(sh)
			ad.Signature = tail(40, 0x61)
			ad.ContextID = tail(3, 0x62)
			if sh.mdLen > 0 {
				ad.Metadata = tail(4, 0x63)
			}
			if ad.ExtendedProvider != nil {
				for i := range ad.ExtendedProvider.Providers {
					ad.ExtendedProvider.Providers[i].Signature = tail(40, 0x64)
					ad.ExtendedProvider.Providers[i].Metadata = tail(2, 0x65)
				}
			}
			want := adCanon(&ad)
			node, err := ad.ToNode()
			if err != nil {
				r.Violation("ad:ToNode", key, err.Error(), nil)
				continue
			}
			for _, codec := range codecs {
				r.Eval(fmt.Sprintf("%s|ad%d|codec=%x", key, si, codec), true)
				data, err := encode(node, codec)
				if err != nil {
					r.Violation("ad:encode-error", key, err.Error(), nil)
					continue
				}
				var back schema.Advertisement
				if pn, m := vp.Guard(func() { back, err = schema.BytesToAdvertisement(cidFor(codec), data) }); pn {
					r.Violation("ad:decode-panic", key, firstLine(m), nil)
				} else if err != nil {
					r.Violation(fmt.Sprintf("ad:decode-error:final-byte:codec=%x", codec), key, fmt.Sprintf("an advertisement whose byte fields end in 0x%02x (block ends in 0x%02x) does not decode: %v", v, data[len(data)-1], err), nil)
				} else if got := adCanon(&back); got != want {
					r.Violation(fmt.Sprintf("ad:roundtrip-differs:codec=%x", codec), key, fmt.Sprintf("got %s want %s", got, want), nil)
				}
			}
		}
	}

	// ---- decoders on arbitrary bytes ----
	sort.SliceStable(corpus, func(i, j int) bool { return len(corpus[i].data) < len(corpus[j].data) })
	r.Count("decoder_corpus_blocks", 0)
	if i, _ := r.Shard(); i == 0 {
		r.Count("decoder_corpus_blocks", int64(len(corpus)))
	}
	cborTokens := cborHeaderTokens()
	jsonTokens := []string{"{", "}", "[", "]", "\"", ":", ",", "null", "true", "0", "-1", "1e400", "{\"/\":", "{\"/\":{\"bytes\":\"", "\\u0000"}
	for ci, it := range corpus {
		if !thorough && len(it.data) > 700 {
			continue
		}
		feed := func(kind string, data []byte) {
			key := fmt.Sprintf("dec|%s|%x|%x", it.kind, it.codec, data)
			if !r.Mine(key) {
				return
			}
			r.Eval(key, kind != "corpus")
			decodeArbitrary(r, key, kind, it.kind, it.codec, data)
		}
		feed("corpus", it.data)
		for cut := 0; cut < len(it.data); cut++ {
			feed("truncation", it.data[:cut])
		}
		stride := 1
		if !thorough && len(it.data) > 300 {
			stride = 2 // quick: every second offset of the long blocks
		}
		for i := 0; i < len(it.data); i += stride {
			for v := 0; v < 256; v++ {
				if byte(v) == it.data[i] {
					continue
				}
				m := append([]byte(nil), it.data...)
				m[i] = byte(v)
				feed("byte-substitution", m)
			}
		}
		if it.codec == uint64(multicodec.DagCbor) {
			for i := 0; i <= len(it.data); i++ {
				for _, tok := range cborTokens {
					for _, w := range []int{0, 1} {
						if i+w > len(it.data) {
							continue
						}
						var m []byte
						m = append(m, it.data[:i]...)
						m = append(m, tok...)
						m = append(m, it.data[i+w:]...)
						feed("cbor-token", m)
					}
				}
			}
		} else if ci%2 == 0 || thorough {
			for i := 0; i <= len(it.data); i++ {
				for _, tok := range jsonTokens {
					for _, w := range []int{0, 1} {
						if i+w > len(it.data) {
							continue
						}
						var m []byte
						m = append(m, it.data[:i]...)
						m = append(m, tok...)
						m = append(m, it.data[i+w:]...)
						feed("json-token", m)
					}
				}
			}
		}
	}
	// all byte strings of length <= 2, both kinds and codecs
	for _, kind := range []string{"ad", "chunk"} {
		for _, codec := range codecs {
			it := corpusItem{kind, codec, nil}
			try := func(data []byte) {
				key := fmt.Sprintf("dec|%s|%x|%x", it.kind, it.codec, data)
				if !r.Mine(key) {
					return
				}
				r.Eval(key, true)
				decodeArbitrary(r, key, "short", it.kind, it.codec, data)
			}
			try([]byte{})
			for a := 0; a < 256; a++ {
				try([]byte{byte(a)})
				for b := 0; b < 256; b++ {
					try([]byte{byte(a), byte(b)})
				}
			}
		}
	}
	t.Logf("violations: %d", r.Violations())
}

// checkProviderSpellings: the provider of an advertisement (and of an extended
// provider entry) is a string, and it comes back as the string it was: the
// base58 text of a peer ID, the CID text of the same peer ID (base32 and
// base36), a hex string, something that is no peer ID at all, the empty
// string; both codecs, through BytesToAdvertisement and through a stored block
// loaded with the typed and the generic prototype.
func checkProviderSpellings(r *vp.Recorder) {
	id := fixture.Key("ed25519", 0).ID
	b36, err := peer.ToCid(id).StringOfBase(multibase.Base36)
	if err != nil {
		panic(err)
	}
	spellings := []string{id.String(), peer.ToCid(id).String(), b36, fixture.Key("rsa", 0).ID.String(), peer.ToCid(fixture.Key("secp256k1", 0).ID).String(), "1220aabbcc", "not a peer id", ""}
	for si, sp := range spellings {
		for _, where := range []string{"provider", "extended-provider", "both"} {
			key := fmt.Sprintf("provider-spelling|%d|%s", si, where)
			if !r.Mine(key) {
				continue
			}
			r.Eval(key, true)
			ad := buildAd(adShape{prev: true, entries: 1, nAddrs: 1, ctxLen: 1, mdLen: 1, sig: true, ep: 3})
			if where != "extended-provider" {
				ad.Provider = sp
			}
			if where != "provider" {
				ad.ExtendedProvider.Providers[1].ID = sp
			}
			want := adCanon(&ad)
			node, err := ad.ToNode()
			if err != nil {
				r.Violation("provider-spelling:ToNode", key, err.Error(), nil)
				continue
			}
			bad := false
			for _, codec := range codecs {
				data, err := encode(node, codec)
				if err != nil {
					r.Violation("provider-spelling:encode-error", key, err.Error(), nil)
					bad = true
					continue
				}
				back, err := schema.BytesToAdvertisement(cidFor(codec), data)
				if err != nil {
					r.Violation(fmt.Sprintf("provider-spelling:decode-error:codec=%x", codec), key, err.Error(), nil)
					bad = true
					continue
				}
				if got := adCanon(&back); got != want {
					r.Violation("provider-spelling:roundtrip-differs", key, fmt.Sprintf("provider written as %q (%s): decode(encode(ad)) differs:\n got  %s\n want %s", sp, where, got, want), nil)
					bad = true
				}
			}
			lsys := cidlink.DefaultLinkSystem()
			store := &memstore.Store{}
			lsys.SetReadStorage(store)
			lsys.SetWriteStorage(store)
			l1, err := lsys.Store(ipld.LinkContext{}, schema.Linkproto, node)
			if err != nil {
				r.Violation("provider-spelling:store-error", key, err.Error(), nil)
				continue
			}
			for _, proto := range []ipld.NodePrototype{basicnode.Prototype.Any, schema.AdvertisementPrototype} {
				n, err := lsys.Load(ipld.LinkContext{}, l1, proto)
				if err != nil {
					r.Violation("provider-spelling:load-error", key, err.Error(), nil)
					bad = true
					continue
				}
				la, err := schema.UnwrapAdvertisement(n)
				if err != nil {
					r.Violation("provider-spelling:unwrap-error", key, err.Error(), nil)
					bad = true
					continue
				}
				if got := adCanon(la); got != want {
					r.Violation("provider-spelling:loaded-value-differs", key, fmt.Sprintf("provider written as %q (%s): the loaded advertisement reads\n %s\nstored was\n %s", sp, where, got, want), nil)
					bad = true
					continue
				}
				n3, _ := la.ToNode()
				if l3, err := lsys.Store(ipld.LinkContext{}, schema.Linkproto, n3); err != nil || !l3.(cidlink.Link).Cid.Equals(l1.(cidlink.Link).Cid) {
					r.Violation("provider-spelling:cid-changes-after-load-and-store", key, fmt.Sprintf("provider written as %q: %v (err %v)", sp, l3, err), nil)
					bad = true
				}
			}
			if !bad {
				r.Outcome("provider-spelling-ok")
			}
		}
	}
}

// checkSignedAds: advertisements signed by the library (Sign,
// SignWithExtendedProviders), in every shape of the top-level provider's own
// entry the schema documents (addresses and metadata of its own, omitted, only
// one of them), stored, loaded with both prototypes and unwrapped; what a
// receiver then does with a loaded advertisement before it hands it on
// (Validate, PreviousCid, VerifySignature) is read-only: the loaded value still
// equals the stored one and, stored again, gives the CID it was loaded by.
func checkSignedAds(r *vp.Recorder) {
	main, x, y := fixture.Key("ed25519", 0), fixture.Key("secp256k1", 1), fixture.Key("ed25519", 2)
	keyFor := func(id string) (crypto.PrivKey, error) {
		for _, i := range []*fixture.Identity{main, x, y} {
			if i.ID.String() == id {
				return i.Priv, nil
			}
		}
		return nil, fmt.Errorf("no key for %s", id)
	}
	for nOthers := -1; nOthers <= 2; nOthers++ { // -1: no extended providers at all
		for mainEntry := 0; mainEntry < 4; mainEntry++ { // own addrs+md, both omitted, addrs omitted, md omitted
			for mainPos := 0; mainPos <= 2; mainPos++ {
				for _, ovr := range []bool{false, true} {
					for _, ctxLen := range []int{0, 5} {
						if nOthers < 0 && (mainEntry > 0 || mainPos > 0 || ovr) {
							continue
						}
						if mainPos > max(nOthers, 0) || (ovr && ctxLen == 0) {
							continue
						}
						key := fmt.Sprintf("signed-ad|others=%d|main-entry=%d|main-pos=%d|ovr=%v|ctx=%d", nOthers, mainEntry, mainPos, ovr, ctxLen)
						if !r.Mine(key) {
							continue
						}
						r.Eval(key, true)
						ad := &schema.Advertisement{Provider: main.ID.String(), PreviousID: lnk("prev"), Entries: lnk("entries"),
							Addresses: []string{"/ip4/9.9.9.9/tcp/9", "/dns4/a.example/tcp/443/https"}, ContextID: fixture.Bytes(ctxLen, 7), Metadata: []byte{0x80, 0x12, 0x01}}
						if nOthers >= 0 {
							me := schema.Provider{ID: main.ID.String(), Addresses: []string{"/ip4/8.8.8.8/tcp/8", "/ip4/7.7.7.7/tcp/7"}, Metadata: []byte("own-md")}
							if mainEntry == 1 || mainEntry == 2 {
								me.Addresses = []string{}
							}
							if mainEntry == 1 || mainEntry == 3 {
								me.Metadata = []byte{}
							}
							list := []schema.Provider{}
							for i, o := range []*fixture.Identity{x, y}[:nOthers] {
								list = append(list, schema.Provider{ID: o.ID.String(), Addresses: []string{fmt.Sprintf("/ip4/5.5.5.%d/tcp/5", i)}, Metadata: []byte{byte(i)}})
							}
							list = append(list[:mainPos:mainPos], append([]schema.Provider{me}, list[mainPos:]...)...)
							ad.ExtendedProvider = &schema.ExtendedProvider{Override: ovr, Providers: list}
						}
						var err error
						if nOthers < 0 {
							err = ad.Sign(main.Priv)
						} else {
							err = ad.SignWithExtendedProviders(main.Priv, keyFor)
						}
						if err != nil {
							r.Violation("signed-ad:sign-error", key, err.Error(), nil)
							continue
						}
						want := adCanon(ad)
						node, err := ad.ToNode()
						if err != nil {
							r.Violation("signed-ad:ToNode", key, err.Error(), nil)
							continue
						}
						lsys := cidlink.DefaultLinkSystem()
						store := &memstore.Store{}
						lsys.SetReadStorage(store)
						lsys.SetWriteStorage(store)
						l1, err := lsys.Store(ipld.LinkContext{}, schema.Linkproto, node)
						if err != nil {
							r.Violation("signed-ad:store-error", key, err.Error(), nil)
							continue
						}
						c1 := l1.(cidlink.Link).Cid
						for _, which := range []string{"generic", "typed"} {
							var proto ipld.NodePrototype = basicnode.Prototype.Any
							if which == "typed" {
								proto = schema.AdvertisementPrototype
							}
							n, err := lsys.Load(ipld.LinkContext{}, l1, proto)
							if err != nil {
								r.Violation("signed-ad:load-error", key, err.Error(), nil)
								continue
							}
							la, err := schema.UnwrapAdvertisement(n)
							if err != nil {
								r.Violation("signed-ad:unwrap-error", key, err.Error(), nil)
								continue
							}
							var signer peer.ID
							var verr, valErr error
							if pn, m := vp.Guard(func() { valErr = la.Validate(); _ = la.PreviousCid(); signer, verr = la.VerifySignature() }); pn {
								r.Violation("signed-ad:panic", key, firstLine(m), nil)
								continue
							}
							if verr != nil || signer != main.ID || valErr != nil {
								r.Violation("signed-ad:loaded-ad-does-not-verify:"+which, key, fmt.Sprintf("validate: %v; verify: signer %s, %v", valErr, signer, verr), nil)
								continue
							}
							if got := adCanon(la); got != want {
								r.Violation("signed-ad:loaded-value-changed-by-validation-or-verification:"+which, key, fmt.Sprintf("after Validate, PreviousCid and VerifySignature the loaded advertisement reads\n %s\nstored was\n %s", got, want), nil)
								continue
							}
							n3, err := la.ToNode()
							if err != nil {
								r.Violation("signed-ad:loaded-value-not-encodable:"+which, key, err.Error(), nil)
								continue
							}
							l3, err := lsys.Store(ipld.LinkContext{}, schema.Linkproto, n3)
							if err != nil || !l3.(cidlink.Link).Cid.Equals(c1) {
								r.Violation("signed-ad:cid-changes-after-load-verify-and-store:"+which, key, fmt.Sprintf("stored %s, loaded (%s prototype), verified, stored again: %v (err %v)", c1, which, l3, err), nil)
								continue
							}
							r.Outcome("signed-ad-ok")
						}
					}
				}
			}
		}
	}
}

func buildAdPtr(s adShape) *schema.Advertisement { a := buildAd(s); return &a }

func cborHeaderTokens() [][]byte {
	var out [][]byte
	for major := 0; major < 8; major++ {
		m := byte(major << 5)
		out = append(out, []byte{m | 0}, []byte{m | 1}, []byte{m | 23}, []byte{m | 24, 0xff}, []byte{m | 25, 0xff, 0xff}, []byte{m | 26, 0x00, 0x01, 0x00, 0x00}, []byte{m | 26, 0x7f, 0xff, 0xff, 0xff}, []byte{m | 27, 0x7f, 0xff, 0xff, 0xff, 0xff, 0xff, 0xff, 0xff}, []byte{m | 27, 0xff, 0xff, 0xff, 0xff, 0xff, 0xff, 0xff, 0xff}, []byte{m | 31})
	}
	out = append(out, []byte{0xd8, 0x2a}, []byte{0xd8, 0x2a, 0x58, 0x25, 0x00}, []byte{0xf6}, []byte{0xf7}, []byte{0xff})
	return out
}

// decodeArbitrary: the typed decoder and the generic-load + unwrap path must
// return an error or a value that can be re-encoded; never panic.
func decodeArbitrary(r *vp.Recorder, key, mutKind, kind string, codec uint64, data []byte) {
	c := cidFor(codec)
	reencode := func(toNode func() (ipld.Node, error)) string {
		var n ipld.Node
		var err error
		if pn, m := vp.Guard(func() { n, err = toNode() }); pn {
			return "ToNode panicked: " + firstLine(m)
		}
		if err != nil {
			return "ToNode failed: " + err.Error()
		}
		for _, cd := range codecs {
			var e error
			if pn, m := vp.Guard(func() { _, e = encode(n, cd) }); pn {
				return "encode panicked: " + firstLine(m)
			} else if e != nil {
				return fmt.Sprintf("encode (codec %x) failed: %v", cd, e)
			}
		}
		return ""
	}
	// typed path
	var err error
	var ad schema.Advertisement
	var ch schema.EntryChunk
	pn, m := vp.Guard(func() {
		if kind == "ad" {
			ad, err = schema.BytesToAdvertisement(c, data)
		} else {
			ch, err = schema.BytesToEntryChunk(c, data)
		}
	})
	switch {
	case pn:
		r.Outcome("panic")
		r.Violation(fmt.Sprintf("%s:decode-panic:%s:codec=%x", kind, mutKind, codec), key, fmt.Sprintf("decoding %d bytes panicked: %s", len(data), firstLine(m)), nil)
	case err != nil:
		r.Outcome("error")
	default:
		r.Outcome("accepted")
		var why string
		if kind == "ad" {
			why = reencode(func() (ipld.Node, error) { return ad.ToNode() })
		} else {
			why = reencode(func() (ipld.Node, error) { return ch.ToNode() })
		}
		if why != "" {
			r.Violation(fmt.Sprintf("%s:accepted-but-not-reencodable:%s:codec=%x", kind, mutKind, codec), key, "decoder accepted the input but the value cannot be re-encoded: "+why, nil)
		}
	}
	// generic path: decode as Any, then unwrap
	nb := basicnode.Prototype.Any.NewBuilder()
	var derr error
	if pn, m := vp.Guard(func() {
		if codec == uint64(multicodec.DagJson) {
			derr = dagjson.Decode(nb, bytes.NewReader(data))
		} else {
			derr = dagcbor.Decode(nb, bytes.NewReader(data))
		}
	}); pn {
		// a panic inside the trusted generic decoder is not this library's
		r.Count("generic_decoder_panics", 1)
		_ = m
		return
	}
	if derr != nil {
		return
	}
	node := nb.Build()
	pn, m = vp.Guard(func() {
		if kind == "ad" {
			var a *schema.Advertisement
			a, err = schema.UnwrapAdvertisement(node)
			if err == nil {
				ad = *a
			}
		} else {
			var cc *schema.EntryChunk
			cc, err = schema.UnwrapEntryChunk(node)
			if err == nil {
				ch = *cc
			}
		}
	})
	switch {
	case pn:
		r.Violation(fmt.Sprintf("%s:unwrap-panic:%s:codec=%x", kind, mutKind, codec), key, fmt.Sprintf("unwrapping a generic node decoded from %d bytes panicked: %s", len(data), firstLine(m)), nil)
	case err == nil:
		var why string
		if kind == "ad" {
			why = reencode(func() (ipld.Node, error) { return ad.ToNode() })
		} else {
			why = reencode(func() (ipld.Node, error) { return ch.ToNode() })
		}
		if why != "" {
			r.Violation(fmt.Sprintf("%s:unwrapped-but-not-reencodable:%s:codec=%x", kind, mutKind, codec), key, why, nil)
		}
	default:
		// the block was rejected. A rejection leaves nothing behind: the next
		// conversion of a perfectly good block of the same kind gives that
		// block's value (no previous link, no extended providers, its own
		// addresses / entries and nothing else)
		if why := canary(kind, codec); why != "" {
			r.Violation(fmt.Sprintf("%s:good-block-decodes-differently-after-a-rejected-one:%s:codec=%x", kind, mutKind, codec), key, why, nil)
		}
	}
}

// canary decodes a small valid block of the given kind (typed path and generic
// path) and compares with the value it was built from.
func canary(kind string, codec uint64) string {
	c := cidFor(codec)
	if kind == "ad" {
		ad := schema.Advertisement{Provider: fixture.Key("ed25519", 0).ID.String(), Addresses: []string{"/ip4/9.9.9.9/tcp/9"}, Entries: schema.NoEntries, ContextID: []byte("canary"), Metadata: []byte{1}, Signature: []byte{2}}
		want := adCanon(&ad)
		n, err := ad.ToNode()
		if err != nil {
			return ""
		}
		data, err := encode(n, codec)
		if err != nil {
			return ""
		}
		back, err := schema.BytesToAdvertisement(c, data)
		if err != nil {
			return "typed decode of a valid advertisement failed: " + err.Error()
		}
		if got := adCanon(&back); got != want {
			return fmt.Sprintf("typed decode of a valid advertisement gives\n %s\nwant\n %s", got, want)
		}
		nb := basicnode.Prototype.Any.NewBuilder()
		if codec == uint64(multicodec.DagJson) {
			err = dagjson.Decode(nb, bytes.NewReader(data))
		} else {
			err = dagcbor.Decode(nb, bytes.NewReader(data))
		}
		if err != nil {
			return ""
		}
		ga, err := schema.UnwrapAdvertisement(nb.Build())
		if err != nil {
			return "unwrapping a valid advertisement failed: " + err.Error()
		}
		if got := adCanon(ga); got != want {
			return fmt.Sprintf("generic load of a valid advertisement gives\n %s\nwant\n %s", got, want)
		}
		return ""
	}
	ch := schema.EntryChunk{Entries: []multihash.Multihash{fixture.Mh("canary", multihash.SHA2_256, -1)}}
	want := chunkCanon(&ch)
	n, err := ch.ToNode()
	if err != nil {
		return ""
	}
	data, err := encode(n, codec)
	if err != nil {
		return ""
	}
	back, err := schema.BytesToEntryChunk(c, data)
	if err != nil {
		return "typed decode of a valid entry chunk failed: " + err.Error()
	}
	if got := chunkCanon(&back); got != want {
		return fmt.Sprintf("typed decode of a valid entry chunk gives %s, want %s", got, want)
	}
	return ""
}
