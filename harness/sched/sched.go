// Package sched is engine S: a stateless model checker over the real
// goroutines of the instrumented library and of the harness. Each execution
// runs in a fresh synctest bubble under the cooperative scheduler of
// verifshim/vsched; executions are enumerated depth-first over choice
// sequences with a preemption bound (iterative context bounding).
package sched

import (
	"fmt"
	"os"
	"runtime"
	"sort"
	"strings"
	"sync"
	"sync/atomic"
	"testing"
	"testing/synctest"
	"time"

	"github.com/ipni/go-libipni/verifshim/vsched"

	"verifharness/vp"
)

// Thread is a harness thread of a scenario.
type Thread struct {
	Name string
	Fn   func()
}

// PointRec records one scheduling decision.
type PointRec struct {
	Enabled []string // canonical order: last released thread first if enabled, then ascending names; "name@label"
	Chosen  int
	// Continues: Enabled[0] is the thread released last (switching away from it is a preemption).
	Continues bool
	// Deviation[i]: entry i is a non-default alternative of a choice point
	// (a select trying another case first); taking it costs one unit of the bound.
	Deviation []bool
}

// Exec is one execution.
type Exec struct {
	Scenario string
	Prefix   []int
	Points   []PointRec
	mu       sync.Mutex
	obs      []string
	// Unfinished harness threads at the end, with the label they are parked at
	// ("" = blocked inside an operation, not at a point).
	Unfinished map[string]string
	// Deadlocked: goroutines parked at a point whose predicate never became true.
	Deadlocked []string
	StepCap    bool
	Leak       string
	Leaked     []string
	Diverged   string
	Panics     []string
	finished   map[string]bool
	Data       any // scenario-private data (world) for the check
	// StepFindings are findings raised by Scenario.AfterStep during the run.
	StepFindings []Finding
	// CleanupHung: clean-up calls (made by the scenario's finish function
	// through Exec.Guarded after the explored part) that did not return within
	// an hour of virtual time. Whether that is a violation is the scenario's
	// business (it is for properties about shutdown).
	CleanupHung []string
	// Class: a readable classification of the outcome set by Scenario.Check;
	// counted per scenario in the evidence (vacuity check: a race scenario in
	// which one side always wins explored nothing).
	Class string
}

// Guarded runs a clean-up call of a finish function in its own goroutine and
// waits for it for at most an hour of virtual time. A library call that never
// returns (a lock left held by an earlier call, say) must not hang the
// execution: in a bubble with periodic timers (gossipsub heartbeats) there is no
// deadlock to detect, virtual time just keeps running. Call inside the bubble,
// in free-running mode.
func (e *Exec) Guarded(what string, f func()) bool {
	done := make(chan struct{})
	go func() {
		defer close(done)
		defer func() {
			if r := recover(); r != nil {
				e.mu.Lock()
				e.Panics = append(e.Panics, fmt.Sprintf("clean-up call %s panicked: %v", what, r))
				e.mu.Unlock()
			}
		}()
		f()
	}()
	t := time.NewTimer(time.Hour)
	defer t.Stop()
	select {
	case <-done:
		return true
	case <-t.C:
		e.mu.Lock()
		e.CleanupHung = append(e.CleanupHung, what)
		e.mu.Unlock()
		return false
	}
}

// Log appends to the observation log. It is a scheduling point, so the order
// of the log is decided by the scheduler (deterministic and explored) rather
// than by a race between goroutines that run at the same time.
func (e *Exec) Log(format string, a ...any) {
	s := fmt.Sprintf(format, a...)
	vsched.Point("obs")
	e.mu.Lock()
	e.obs = append(e.obs, s)
	e.mu.Unlock()
}

// Obs returns a copy of the observation log.
func (e *Exec) Obs() []string {
	e.mu.Lock()
	defer e.mu.Unlock()
	return append([]string(nil), e.obs...)
}

// Finished reports whether a harness thread ran to completion.
func (e *Exec) Finished(name string) bool {
	e.mu.Lock()
	defer e.mu.Unlock()
	return e.finished[name]
}

// Choices returns the choice sequence of the execution.
func (e *Exec) Choices() []int {
	out := make([]int, len(e.Points))
	for i, p := range e.Points {
		out[i] = p.Chosen
	}
	return out
}

// Finding is a property violation seen in one execution.
type Finding struct {
	Sig string
	Msg string
}

// Scenario describes what to explore.
type Scenario struct {
	Name string
	// Setup builds the world (free-running, inside the bubble) and returns the
	// harness threads and a finish function that is called after the
	// scheduled part (free-running again) for cleanup and final observations.
	Setup func(e *Exec) (threads []Thread, finish func())
	// Check judges a finished execution.
	Check func(e *Exec) []Finding
	// MaxSteps caps the scheduled steps of one execution (default 5000).
	MaxSteps int
	// LeakFilter: substrings that identify library goroutines in a dump.
	LeakFilter []string
	// AfterStep, when set, is called at every quiescence of the scheduled part
	// with the name of the thread released last and the set of threads parked
	// at a point now; what it returns is added to Exec.StepFindings. It lets a
	// scenario say "this thread must not be blocked inside an operation now".
	AfterStep func(e *Exec, released string, parked map[string]string) []Finding
}

const libFrame = "github.com/ipni/go-libipni/"

// watchdog: real time, outside any bubble. If no execution completes for
// stallLimit the process dumps all goroutines and exits with status 3, which
// the driver reports as a machinery error (never as a violation).
var (
	progress  atomic.Int64
	watchOnce sync.Once
	// (eight minutes: twice, in one thorough run made while the machine ran
	// some seventy busy processes on sixteen cores, a two-minute limit fired on
	// an execution whose next goroutine was runnable and simply had not been
	// given the processor: DESIGN 13.3)
	stallLimit = 480 * time.Second
)

func startWatchdog() {
	watchOnce.Do(func() {
		go func() {
			last, since := progress.Load(), time.Now()
			for {
				time.Sleep(2 * time.Second)
				if cur := progress.Load(); cur != last {
					last, since = cur, time.Now()
					continue
				}
				if time.Since(since) > stallLimit {
					buf := make([]byte, 1<<22)
					buf = buf[:runtime.Stack(buf, true)]
					fmt.Fprintf(os.Stderr, "WATCHDOG: no execution finished for %v; goroutines:\n%s\n", stallLimit, buf)
					os.Exit(3)
				}
			}
		}()
	})
}

// Run performs one execution following prefix, then default choices.
func Run(t *testing.T, sc *Scenario, prefix []int, expect []uint64) *Exec {
	startWatchdog()
	defer progress.Add(1)
	e := &Exec{Scenario: sc.Name, Prefix: append([]int(nil), prefix...), Unfinished: map[string]string{}, finished: map[string]bool{}}
	maxSteps := sc.MaxSteps
	if maxSteps == 0 {
		maxSteps = 5000
	}
	body := func(t *testing.T) {
		s := vsched.New()
		vsched.Install(s)
		defer vsched.Uninstall()
		vsched.TakePanics()
		defer func() {
			if ps := vsched.TakePanics(); len(ps) > 0 {
				e.mu.Lock()
				e.Panics = append(e.Panics, ps...)
				e.mu.Unlock()
			}
		}()
		threads, finish := sc.Setup(e)
		synctest.Wait()
		s.SetFree(false)
		var wg sync.WaitGroup
		for _, th := range threads {
			th := th
			wg.Add(1)
			go func() {
				defer wg.Done()
				vsched.Name(th.Name)
				vsched.Point("start")
				defer func() {
					if r := recover(); r != nil {
						buf := make([]byte, 4096)
						buf = buf[:runtime.Stack(buf, false)]
						e.mu.Lock()
						e.Panics = append(e.Panics, fmt.Sprintf("thread %s panicked: %v\n%s", th.Name, r, buf))
						e.mu.Unlock()
					}
					e.mu.Lock()
					e.finished[th.Name] = true
					e.mu.Unlock()
				}()
				th.Fn()
			}()
		}
		last := ""
		for step := 0; ; step++ {
			synctest.Wait()
			parked := s.Snapshot()
			if sc.AfterStep != nil && step > 0 {
				pm := map[string]string{}
				for _, p := range parked {
					pm[p.Name] = p.Label
				}
				if fs := sc.AfterStep(e, last, pm); len(fs) > 0 && len(e.StepFindings) < 4 {
					e.StepFindings = append(e.StepFindings, fs...)
				}
			}
			var en []*vsched.Parked
			for _, p := range parked {
				if p.IsEnabled() {
					en = append(en, p)
				}
			}
			// idle points are eligible only when nothing else is
			busy := en[:0:0]
			for _, p := range en {
				if !p.Idle {
					busy = append(busy, p)
				}
			}
			if len(busy) > 0 {
				en = busy
			}
			if len(en) == 0 {
				for _, p := range parked {
					e.Deadlocked = append(e.Deadlocked, p.Name+"@"+p.Label)
				}
				break
			}
			if step >= maxSteps {
				e.StepCap = true
				break
			}
			// canonical order
			sort.SliceStable(en, func(i, j int) bool {
				if (en[i].Name == last) != (en[j].Name == last) {
					return en[i].Name == last
				}
				return en[i].Name < en[j].Name
			})
			// a choice point contributes one entry per alternative
			type entry struct {
				p   *vsched.Parked
				alt int
			}
			var ents []entry
			rec := PointRec{Continues: en[0].Name == last}
			for _, p := range en {
				n := p.Alts
				if n < 1 {
					n = 1
				}
				for k := 0; k < n; k++ {
					ents = append(ents, entry{p, k})
					nm := p.Name + "@" + p.Label
					if k > 0 {
						nm += fmt.Sprintf("#%d", k)
					}
					rec.Enabled = append(rec.Enabled, nm)
					rec.Deviation = append(rec.Deviation, k > 0)
				}
			}
			choice := 0
			if step < len(prefix) {
				choice = prefix[step]
				if expect != nil && step < len(expect) && expect[step] != enabledHash(rec.Enabled) {
					e.Diverged = fmt.Sprintf("step %d: enabled set %v differs from the recorded one", step, rec.Enabled)
					break
				}
				if choice >= len(ents) {
					e.Diverged = fmt.Sprintf("step %d: choice %d of %d enabled", step, choice, len(ents))
					break
				}
			}
			rec.Chosen = choice
			e.Points = append(e.Points, rec)
			last = ents[choice].p.Name
			s.ReleaseAlt(ents[choice].p, ents[choice].alt)
		}
		// who is unfinished
		parkedAt := map[string]string{}
		for _, p := range s.Snapshot() {
			parkedAt[p.Name] = p.Label
		}
		e.mu.Lock()
		for _, th := range threads {
			if !e.finished[th.Name] {
				e.Unfinished[th.Name] = parkedAt[th.Name]
			}
		}
		e.mu.Unlock()
		s.SetFree(true)
		if finish != nil {
			finish()
		}
		synctest.Wait()
		// goroutines with library frames that are still around
		buf := make([]byte, 1<<20)
		buf = buf[:runtime.Stack(buf, true)]
		for _, g := range strings.Split(string(buf), "\n\n") {
			if !strings.Contains(g, "synctest bubble") && !strings.Contains(g, "synctest") {
				continue
			}
			if strings.Contains(g, "sched.Run") || strings.Contains(g, "testing.tRunner") && !strings.Contains(g, libFrame) {
				continue
			}
			if strings.Contains(g, libFrame) && !strings.Contains(g, "verifshim/vsched.Uninstall") {
				e.Leaked = append(e.Leaked, firstLines(g, 12))
			}
		}
	}
	func() {
		defer func() {
			if r := recover(); r != nil {
				s := fmt.Sprint(r)
				if strings.Contains(s, "blocked goroutines remain") || strings.Contains(s, "deadlock") {
					e.Leak = s
					return
				}
				panic(r)
			}
		}()
		synctest.Test(t, body)
	}()
	return e
}

func firstLines(s string, n int) string {
	l := strings.Split(s, "\n")
	if len(l) > n {
		l = l[:n]
	}
	return strings.Join(l, "\n")
}

func enabledHash(en []string) uint64 { return vp.Hash64(strings.Join(en, "|")) }

// Explorer enumerates executions of a scenario by iterative context bounding:
// all schedules with 0 preemptions, then exactly 1, then exactly 2, ... Each
// execution is run once; alternatives that would exceed the current bound are
// kept in a frontier for the next bound instead of being re-discovered.
type Explorer struct {
	T     *testing.T
	R     *vp.Recorder
	Sc    *Scenario
	Bound int
	// Deadline, when set, stops the exploration (reported, never a violation).
	Deadline time.Time
	// statistics
	Execs, Divergences, Capped int64
	MaxPoints                  int
	// CompletedBound is the highest preemption bound fully explored by this
	// shard for its share of the schedule tree (-1 = not even the 0-preemption schedules).
	CompletedBound int
	next           []item // frontier: items whose cost is current bound + 1
	classSeen      map[string]bool
}

type item struct {
	prefix []int
	expect []uint64
	cost   int // preemptions used by the prefix
}

func (x *Explorer) expired() bool {
	if !x.Deadline.IsZero() && time.Now().After(x.Deadline) {
		return true
	}
	return x.R.OverBudget()
}

// children lists the alternatives of the points at or after `from`. Those
// within `limit` preemptions are returned; those needing exactly limit+1 go to
// the frontier; costlier ones are impossible (an alternative adds at most one).
func (x *Explorer) children(e *Exec, from int, baseCost int, limit int) []item {
	var out []item
	choices := e.Choices()
	var hashes []uint64
	for i := range e.Points {
		hashes = append(hashes, enabledHash(e.Points[i].Enabled))
	}
	for i := from; i < len(e.Points); i++ {
		p := e.Points[i]
		for alt := 1; alt < len(p.Enabled); alt++ {
			c := baseCost
			if p.Continues || (alt < len(p.Deviation) && p.Deviation[alt]) {
				c++
			}
			if c > x.Bound {
				continue
			}
			it := item{append(append([]int(nil), choices[:i]...), alt), hashes[: i+1 : i+1], c}
			if c <= limit {
				out = append(out, it)
			} else {
				x.next = append(x.next, it)
			}
		}
	}
	return out
}

func (x *Explorer) runChecked(it item, own bool) *Exec {
	var e *Exec
	for attempt := 0; attempt < 3; attempt++ {
		e = Run(x.T, x.Sc, it.prefix, it.expect)
		if e.Diverged == "" {
			break
		}
	}
	if e.Diverged != "" {
		x.Divergences++
		x.R.Count("divergences", 1)
		x.R.NotExhaustive("replay of a prefix diverged (uncontrolled nondeterminism): " + e.Diverged)
		return e
	}
	if own {
		x.judge(e)
	}
	return e
}

func caseKey(sc string, choices []int) string {
	var b strings.Builder
	b.WriteString(sc)
	b.WriteString("|")
	for i, c := range choices {
		if i > 0 {
			b.WriteByte(',')
		}
		fmt.Fprintf(&b, "%d", c)
	}
	return b.String()
}

// trimChoices drops trailing zeros (defaults) from a choice sequence.
func trimChoices(c []int) []int {
	n := len(c)
	for n > 0 && c[n-1] == 0 {
		n--
	}
	return c[:n]
}

func (x *Explorer) judge(e *Exec) {
	r := x.R
	x.Execs++
	r.Trace(1)
	r.Transition(int64(len(e.Points)))
	if len(e.Points) > x.MaxPoints {
		x.MaxPoints = len(e.Points)
	}
	key := caseKey(x.Sc.Name, trimChoices(e.Choices()))
	obs := e.Obs()
	r.Eval(key, len(e.Points) > 0)
	// decision states: hash of the enabled set + observation prefix length is not
	// available per step; use per-step enabled sets chained with the log at the end
	h := ""
	for _, p := range e.Points {
		h = fmt.Sprintf("%x", vp.Hash64(h+"|"+strings.Join(p.Enabled, ",")))
		r.State(x.Sc.Name + "|" + h)
	}
	r.Outcome(x.Sc.Name + ":" + fmt.Sprintf("%x", vp.Hash64(strings.Join(obs, "\n"))))
	if e.StepCap {
		x.Capped++
		r.Count("step_cap_hits", 1)
		r.NotExhaustive("an execution hit the step cap")
	}
	fs := x.Sc.Check(e)
	if e.Class != "" {
		r.Count("class:"+x.Sc.Name+":"+e.Class, 1)
		// one witness execution per outcome class (first seen in this shard)
		if x.classSeen == nil {
			x.classSeen = map[string]bool{}
		}
		if !x.classSeen[e.Class] && len(x.classSeen) < 12 {
			x.classSeen[e.Class] = true
			r.Sample(map[string]any{"scenario": x.Sc.Name, "outcome_class": e.Class, "choices": trimChoices(e.Choices()), "observations": obs})
		}
	}
	for _, f := range fs {
		r.Violation(f.Sig, key, fmt.Sprintf("%s schedule [%s]: %s", x.Sc.Name, caseKey("", trimChoices(e.Choices())), f.Msg), map[string]any{"choices": trimChoices(e.Choices()), "observations": obs, "points": pointSummary(e)})
	}
	if x.Execs == 1 {
		r.Sample(map[string]any{"scenario": x.Sc.Name, "choices": trimChoices(e.Choices()), "decision_points": len(e.Points), "observations": obs, "first_points": pointSummary(e)})
	}
}

func pointSummary(e *Exec) []string {
	var out []string
	for i, p := range e.Points {
		if i >= 60 {
			out = append(out, "...")
			break
		}
		out = append(out, fmt.Sprintf("%d: %s <- %v", i, p.Enabled[p.Chosen], p.Enabled))
	}
	return out
}

// subtree explores everything reachable from it within `limit` preemptions.
func (x *Explorer) subtree(it item, limit int) (complete bool) {
	if x.expired() {
		return false
	}
	e := x.runChecked(it, true)
	if e.Diverged != "" {
		return true // counted and reported as non-exhaustive by runChecked
	}
	complete = true
	for _, ch := range x.children(e, len(it.prefix), it.cost, limit) {
		if !x.subtree(ch, limit) {
			complete = false
		}
	}
	return complete
}

// Explore runs the scenario: determinism check, then iterative context
// bounding up to Bound, sharded over processes. It returns the highest bound
// this shard completed.
func (x *Explorer) Explore() int {
	r := x.R
	sc := x.Sc
	x.CompletedBound = -1
	if r.Replaying() {
		key := r.ReplayKey()
		if !strings.HasPrefix(key, sc.Name+"|") {
			return -1
		}
		var prefix []int
		for _, f := range strings.Split(strings.TrimPrefix(key, sc.Name+"|"), ",") {
			if f == "" {
				continue
			}
			var v int
			fmt.Sscanf(f, "%d", &v)
			prefix = append(prefix, v)
		}
		if r.Mine(key) {
			e := Run(x.T, sc, prefix, nil)
			if e.Diverged != "" {
				r.Note("replay diverged: %s", e.Diverged)
				return -1
			}
			x.judge(e)
		}
		return -1
	}
	shard, n := r.Shard()
	root := Run(x.T, sc, nil, nil)
	// determinism: the default execution twice
	again := Run(x.T, sc, nil, nil)
	if fmt.Sprint(root.Choices()) != fmt.Sprint(again.Choices()) || strings.Join(root.Obs(), "\n") != strings.Join(again.Obs(), "\n") || fmt.Sprint(fullPoints(root)) != fmt.Sprint(fullPoints(again)) {
		r.Count("determinism_check_failed", 1)
		r.NotExhaustive("the default schedule did not reproduce: " + sc.Name)
		r.Note("determinism check failed for %s: %s", sc.Name, firstDiff(root, again))
	}
	if shard == 0 {
		x.judge(root)
	}
	// bound 0: the alternatives of the default execution that cost nothing
	// (taken where the running thread had blocked or finished); everything
	// costing 1 lands in the frontier. Work is split over shards by index.
	level := x.children(root, 0, 0, 0)
	for b := 0; b <= x.Bound; b++ {
		complete := true
		for k, it := range level {
			if k%n != shard {
				continue
			}
			if !x.subtree(it, b) {
				complete = false
				break
			}
		}
		if !complete {
			break
		}
		x.CompletedBound = b
		r.Count(fmt.Sprintf("shards_completed_bound:%s:%d", sc.Name, b), 1)
		if x.expired() {
			break
		}
		// next bound starts from the frontier. Every shard discovered the
		// frontier of its own share only, so it keeps exploring its own share:
		// take all of it (index split already happened at the level above).
		level, x.next = x.next, nil
		if b == 0 {
			// the frontier of the root itself was built by every shard identically:
			// split it; deeper frontiers are per shard already
			var mine, rootFrontier []item
			rootFrontier = x.rootFrontier(root)
			seen := map[string]bool{}
			for k, it := range rootFrontier {
				seen[fmt.Sprint(it.prefix)] = true
				if k%n == shard {
					mine = append(mine, it)
				}
			}
			for _, it := range level {
				if !seen[fmt.Sprint(it.prefix)] {
					mine = append(mine, it)
				}
			}
			level = mine
		}
		n = 1 // from here on `level` holds only this shard's items
		shard = 0
	}
	r.Count("executions:"+sc.Name, x.Execs)
	return x.CompletedBound
}

// rootFrontier lists the cost-1 alternatives of the default execution (the
// same in every shard).
func (x *Explorer) rootFrontier(root *Exec) []item {
	saved := x.next
	x.next = nil
	x.children(root, 0, 0, 0)
	out := x.next
	x.next = saved
	return out
}

func fullPoints(e *Exec) []string {
	var out []string
	for i, p := range e.Points {
		out = append(out, fmt.Sprintf("%d: %s <- %v", i, p.Enabled[p.Chosen], p.Enabled))
	}
	return out
}

func firstDiff(a, b *Exec) string {
	pa, pb := fullPoints(a), fullPoints(b)
	for i := 0; i < len(pa) && i < len(pb); i++ {
		if pa[i] != pb[i] {
			return fmt.Sprintf("decision point %d differs: %q vs %q", i, pa[i], pb[i])
		}
	}
	if len(pa) != len(pb) {
		return fmt.Sprintf("%d vs %d decision points", len(pa), len(pb))
	}
	oa, ob := a.Obs(), b.Obs()
	for i := 0; i < len(oa) && i < len(ob); i++ {
		if oa[i] != ob[i] {
			return fmt.Sprintf("observation %d differs: %q vs %q", i, oa[i], ob[i])
		}
	}
	return fmt.Sprintf("%d vs %d observations", len(oa), len(ob))
}
