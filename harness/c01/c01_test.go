// C01: chain sync fetches and reports exactly the requested chain segment.
// Every configuration of a bounded space is run on a fresh real subscriber and
// publisher (in-memory network, synctest bubble for exact quiescence) and
// compared with an integer reference model of the chain.
package c01

import (
	"context"
	"fmt"
	"io"
	"sort"
	"strings"
	"testing"
	"testing/synctest"

	"github.com/ipfs/go-cid"
	"github.com/ipld/go-ipld-prime"
	cidlink "github.com/ipld/go-ipld-prime/linking/cid"
	"github.com/ipld/go-ipld-prime/node/basicnode"
	"github.com/ipld/go-ipld-prime/traversal"
	"github.com/ipld/go-ipld-prime/traversal/selector"
	selectorbuilder "github.com/ipld/go-ipld-prime/traversal/selector/builder"
	"github.com/ipni/go-libipni/announce"
	"github.com/ipni/go-libipni/dagsync"
	"github.com/ipni/go-libipni/dagsync/ipnisync"
	"github.com/libp2p/go-libp2p/core/peer"

	"verifharness/fixture"
	"verifharness/syncfx"
	"verifharness/vp"
)

type cfg struct {
	L          int
	Entry      string // queried, explicit, announce
	H          int    // head index
	Latest     int    // -1 none
	LatestVia  string // set, lastknown
	Stop       int    // -1 none, 0..L-1 on chain, L foreign
	Resync     bool
	Ds, Df, Dc int64
	Seg        int64 // -1 disabled
	SegScoped  bool
	Pre        uint // bitmask of pre-stored blocks
	// Prior: 0 none; b+1 = before the observed sync the same subscriber really
	// synced the older advertisement b with an explicit head (which records no
	// latest-synced value): blocks 0..b are in the store because a sync put
	// them there, and the per-publisher sync client has a history.
	Prior int
	// LibHook: the next segment's start is chosen by the library's own
	// MakeGeneralBlockHook (wrapped by the logging hook), not by the harness
	LibHook bool
	// HandlerRemoved: after the history syncs the publisher's handler is
	// removed (Subscriber.RemoveHandler, what the idle clean-up also does);
	// the latest-synced value is documented to survive that.
	HandlerRemoved bool
}

func (c cfg) key() string {
	k := fmt.Sprintf("ads|L%d|%s|h%d|lat%d%s|stop%d|re%v|D%d,%d,%d|seg%d%v|pre%b", c.L, c.Entry, c.H, c.Latest, c.LatestVia, c.Stop, c.Resync, c.Ds, c.Df, c.Dc, c.Seg, c.SegScoped, c.Pre)
	if c.Prior > 0 {
		k += fmt.Sprintf("|prior-sync-of-%d", c.Prior-1)
	}
	if c.LibHook {
		k += "|library-general-hook"
	}
	if c.HandlerRemoved {
		k += "|handler-removed-after-the-history"
	}
	return k
}

// base is the key without the "how" dimensions (segment size, pre-stored
// blocks): observations other than the request log must be equal across them.
func (c cfg) base() string {
	return fmt.Sprintf("L%d|%s|h%d|lat%d|stop%d|re%v|D%d,%d,%d", c.L, c.Entry, c.H, c.Latest, c.Stop, c.Resync, c.Ds, c.Df, c.Dc)
}

type expect struct {
	blocks      []int
	nothing     bool // stop == head: nothing to do
	event       bool
	latestAfter int // -1 none
	why         string
}

func inf(d int64) int64 {
	if d < 1 {
		return 1 << 40
	}
	return d
}

// model computes the expected observations; a second reading is returned for
// the combinations the documentation leaves open.
func model(c cfg) []expect {
	mk := func(limit int64, stopIdx int, why string) expect {
		e := expect{latestAfter: c.Latest, why: why}
		if stopIdx == c.H {
			e.nothing = true
			return e
		}
		low := 0
		if stopIdx >= 0 && stopIdx < c.H {
			low = stopIdx + 1
		}
		for i := c.H; i >= low && int64(len(e.blocks)) < limit; i-- {
			e.blocks = append(e.blocks, i)
		}
		switch c.Entry {
		case "queried", "announce":
			e.event = true
			e.latestAfter = c.H
		}
		return e
	}
	if c.Entry == "announce" {
		limit := inf(c.Ds)
		if c.Latest < 0 && c.Df != 0 {
			limit = c.Df
		}
		return []expect{mk(limit, c.Latest, "announce")}
	}
	limit := inf(c.Ds)
	if c.Dc != 0 {
		limit = inf(c.Dc)
	}
	stopIdx := -1
	if c.Stop >= 0 {
		stopIdx = c.Stop
	} else if !c.Resync && c.Latest >= 0 {
		stopIdx = c.Latest
	}
	if stopIdx == c.H {
		return []expect{mk(limit, stopIdx, "stop==head")}
	}
	out := []expect{}
	if stopIdx < 0 && c.Df != 0 && c.Dc == 0 {
		out = append(out, mk(c.Df, stopIdx, "first-sync depth"))
		if c.Resync && c.Latest >= 0 {
			// resync of a known publisher without stop: the documentation of
			// FirstSyncDepth ("first sync with a new provider") leaves open
			// whether it applies; accept the subscriber limit too
			out = append(out, mk(limit, stopIdx, "subscriber depth (resync is not a first sync)"))
		}
		return out
	}
	out = append(out, mk(limit, stopIdx, "limit"))
	if c.Stop >= 0 && c.Latest < 0 && c.Df != 0 && c.Dc == 0 {
		// explicit stop on a publisher never synced before: also accept the
		// first-sync depth
		out = append(out, mk(c.Df, stopIdx, "first-sync depth with explicit stop"))
	}
	return out
}

type obs struct {
	hooks    []int
	hookPeer bool
	ret      cid.Cid
	err      error
	events   []dagsync.SyncFinished
	latest   int // index or -1 none, -2 foreign
	reqHead  int
	reqBlk   []int
	reqOther []string
	unread   []int // reported blocks not readable / not verifying
	panicked string
}

func run(t *testing.T, c cfg) (o obs) {
	syncfx.Bubble(t, func(t *testing.T) {
		w := syncfx.NewWorld()
		defer w.Close()
		id := fixture.Key("ed25519", 0)
		p := w.AddPub(id, true)
		ch := syncfx.BuildAdChain(p.Src, id, c.L, syncfx.DefaultProto, "c01")
		foreign := fixture.Cid("foreign-stop", cid.DagJSON)
		idx := func(x cid.Cid) int {
			if i := ch.Index(x); i >= 0 {
				return i
			}
			return -2
		}
		opts := []dagsync.Option{dagsync.AdsDepthLimit(c.Ds), dagsync.FirstSyncDepth(c.Df)}
		if !c.SegScoped {
			opts = append(opts, dagsync.SegmentDepthLimit(c.Seg))
		}
		if c.Entry == "announce" {
			opts = append(opts, dagsync.RecvAnnounce("", announce.WithAllowPeer(func(peer.ID) bool { return true })))
		}
		if c.Latest >= 0 && c.LatestVia == "lastknown" {
			opts = append(opts, dagsync.WithLastKnownSync(func(pid peer.ID) (cid.Cid, bool) {
				if pid == id.ID {
					return ch.Cids[c.Latest], true
				}
				return cid.Undef, false
			}))
		}
		w.LibHook = c.LibHook
		sub := w.NewSubscriber(opts...)
		if c.Latest >= 0 && c.LatestVia != "lastknown" && c.LatestVia != "sync" {
			if err := sub.SetLatestSync(id.ID, ch.Cids[c.Latest]); err != nil {
				panic(err)
			}
		}
		for i := 0; i < c.L; i++ {
			if c.Pre&(1<<i) != 0 && (c.Prior == 0 || i > c.Prior-1) && !(c.LatestVia == "sync" && i <= c.Latest) {
				b, _ := p.Src.Get(ch.Cids[i])
				w.Dst.Put(ch.Cids[i], b)
			}
		}
		// histories made of real syncs on this subscriber (their hook calls,
		// requests and notifications are not part of the observation)
		if c.Prior > 0 {
			if _, err := sub.SyncAdChain(context.Background(), p.AddrInfo(), dagsync.WithHeadAdCid(ch.Cids[c.Prior-1]), dagsync.ScopedDepthLimit(int64(c.L)+10)); err != nil {
				panic(fmt.Sprintf("prior explicit-head sync failed: %v", err))
			}
			synctest.Wait()
		}
		if c.Latest >= 0 && c.LatestVia == "sync" {
			p.Publisher.SetRoot(ch.Cids[c.Latest])
			if _, err := sub.SyncAdChain(context.Background(), p.AddrInfo(), dagsync.ScopedDepthLimit(int64(c.L)+10)); err != nil {
				panic(fmt.Sprintf("prior sync to the latest-synced ad failed: %v", err))
			}
			synctest.Wait()
		}
		if c.HandlerRemoved {
			if !sub.RemoveHandler(id.ID) {
				panic("RemoveHandler: no handler although the publisher was synced")
			}
		}
		if c.Prior > 0 || c.LatestVia == "sync" {
			w.ResetHooks()
			p.ResetLog()
		}
		lst := w.Listen()
		defer lst.Stop()
		p.Publisher.SetRoot(ch.Cids[c.H])
		ctx := context.Background()
		pn, pm := vp.Guard(func() {
			switch c.Entry {
			case "announce":
				o.err = sub.Announce(ctx, ch.Cids[c.H], p.AddrInfo())
				o.ret = ch.Cids[c.H]
			default:
				var so []dagsync.SyncOption
				if c.Entry == "explicit" {
					so = append(so, dagsync.WithHeadAdCid(ch.Cids[c.H]))
				}
				if c.Stop >= 0 {
					if c.Stop == c.L {
						so = append(so, dagsync.WithStopAdCid(foreign))
					} else {
						so = append(so, dagsync.WithStopAdCid(ch.Cids[c.Stop]))
					}
				}
				if c.Resync {
					so = append(so, dagsync.WithAdsResync(true))
				}
				if c.Dc != 0 {
					so = append(so, dagsync.ScopedDepthLimit(c.Dc))
				}
				if c.SegScoped {
					so = append(so, dagsync.ScopedSegmentDepthLimit(c.Seg))
				}
				o.ret, o.err = sub.SyncAdChain(ctx, p.AddrInfo(), so...)
			}
			synctest.Wait()
		})
		if pn {
			o.panicked = pm
			return
		}
		o.events = lst.Poll()
		o.hookPeer = true
		for _, h := range w.HookLog() {
			o.hooks = append(o.hooks, idx(h.Cid))
			if h.Peer != id.ID {
				o.hookPeer = false
			}
		}
		o.latest = -1
		if l := sub.GetLatestSync(id.ID); l != nil {
			o.latest = idx(l.(cidlink.Link).Cid)
		}
		for _, r := range p.Requests() {
			switch r.Kind {
			case "wk", "wk-legacy":
			case "head":
				o.reqHead++
			case "block":
				o.reqBlk = append(o.reqBlk, idx(r.Cid))
			default:
				o.reqOther = append(o.reqOther, r.Path)
			}
		}
		for _, h := range o.hooks {
			if h < 0 {
				continue
			}
			b, ok := w.Dst.Get(ch.Cids[h])
			if !ok || !syncfx.Verifies(ch.Cids[h], b) {
				o.unread = append(o.unread, h)
			}
		}
		if c.Entry != "announce" && o.err == nil && !o.ret.Equals(ch.Cids[c.H]) {
			o.ret = cid.Undef
		}
	})
	return
}

func ints(l []int) string { return strings.Trim(fmt.Sprint(l), "[]") }

// judge compares observations with one expectation; "" means they agree.
func judge(c cfg, e expect, o obs) (sig, msg string) {
	if o.err != nil {
		return "sync-error", fmt.Sprintf("sync failed: %v", o.err)
	}
	if c.Entry != "announce" && !o.ret.Defined() {
		return "wrong-return", "returned CID is not the requested head"
	}
	if ints(o.hooks) != ints(e.blocks) {
		kind := "wrong-blocks"
		switch {
		case len(o.hooks) > len(e.blocks):
			kind = "too-many-blocks"
		case len(o.hooks) < len(e.blocks):
			kind = "too-few-blocks"
		}
		return "hooks:" + kind, fmt.Sprintf("block hook saw [%s], expected [%s] (%s)", ints(o.hooks), ints(e.blocks), e.why)
	}
	if !o.hookPeer {
		return "hooks:wrong-peer", "hook called with another peer ID"
	}
	if len(o.unread) != 0 {
		return "reported-block-not-in-store", fmt.Sprintf("reported blocks [%s] are not readable from the destination store", ints(o.unread))
	}
	wantEvents := 0
	if e.event && !e.nothing {
		wantEvents = 1
	}
	if len(o.events) != wantEvents {
		return "events:count", fmt.Sprintf("%d SyncFinished events, expected %d", len(o.events), wantEvents)
	}
	if wantEvents == 1 {
		ev := o.events[0]
		if ev.Err != nil || ev.Count != len(e.blocks) {
			return "events:content", fmt.Sprintf("event Count=%d Err=%v, expected Count=%d", ev.Count, ev.Err, len(e.blocks))
		}
	}
	wantLatest := e.latestAfter
	if e.nothing {
		wantLatest = c.Latest
	}
	if o.latest != wantLatest {
		return "latest-sync", fmt.Sprintf("latest synced is index %d, expected %d", o.latest, wantLatest)
	}
	wantHead := 0
	if c.Entry == "queried" {
		wantHead = 1
	}
	if o.reqHead != wantHead {
		return "requests:head", fmt.Sprintf("%d head requests, expected %d", o.reqHead, wantHead)
	}
	var wantReq []int
	for _, b := range e.blocks {
		if c.Pre&(1<<b) == 0 {
			wantReq = append(wantReq, b)
		}
	}
	if ints(o.reqBlk) != ints(wantReq) {
		kind := "wrong"
		for _, b := range o.reqBlk {
			if b >= 0 && c.Pre&(1<<b) != 0 {
				kind = "requested-prestored-block"
			}
		}
		if kind == "wrong" && len(o.reqBlk) > len(wantReq) {
			kind = "requested-beyond-segment"
		}
		return "requests:" + kind, fmt.Sprintf("publisher saw block requests [%s], expected [%s] (pre-stored mask %b)", ints(o.reqBlk), ints(wantReq), c.Pre)
	}
	if len(o.reqOther) != 0 {
		return "requests:unknown", fmt.Sprint(o.reqOther)
	}
	return "", ""
}

func check(t *testing.T, r *vp.Recorder, c cfg) {
	key := c.key()
	if !r.Mine(key) {
		return
	}
	exps := model(c)
	r.Eval(key, len(exps[0].blocks) > 0)
	o := run(t, c)
	r.Trace(1)
	r.State("cfg|" + c.base())
	r.Transition(int64(len(o.hooks) + len(o.reqBlk) + o.reqHead + 1))
	if o.panicked != "" {
		r.Violation("panic", key, firstLine(o.panicked), nil)
		return
	}
	var firstSig, firstMsg string
	for i, e := range exps {
		sig, msg := judge(c, e, o)
		if sig == "" {
			r.Outcome(fmt.Sprintf("ok:%d-blocks", len(e.blocks)))
			if i > 0 {
				r.Count("accepted_under_second_reading", 1)
			}
			if len(e.blocks) >= 2 && c.Seg > 0 && c.Pre != 0 {
				r.Sample(map[string]any{"config": key, "reported": ints(o.hooks), "requested": ints(o.reqBlk)})
			}
			return
		}
		if i == 0 {
			firstSig, firstMsg = sig, msg
		}
	}
	cls := c.Entry
	if c.Seg > 0 {
		cls += ",segmented"
	}
	r.Violation("ads:"+firstSig+":"+cls, key, fmt.Sprintf("config %s: %s", key, firstMsg), nil)
}

// checkScopedHookReuse: a per-call block hook (ScopedBlockHook) is an option
// value, and a caller may well make it once and pass it to every sync: ONE
// option value handed to a sync, then to a re-sync of the same chain
// (WithAdsResync), to an entries sync and to the same entries sync again, on
// one subscriber, unsegmented and in segments of 1 and 2. Every sync reports
// all its blocks to the hook (the second time round too) and stores them.
func checkScopedHookReuse(t *testing.T, r *vp.Recorder) {
	const L, M = 4, 3
	for _, seg := range []int64{-1, 1, 2} {
		key := fmt.Sprintf("scoped-hook-reused|seg%d", seg)
		if !r.Mine(key) {
			continue
		}
		r.Eval(key, true)
		var bad string
		syncfx.Bubble(t, func(t *testing.T) {
			w := syncfx.NewWorld()
			defer w.Close()
			id := fixture.Key("ed25519", 0)
			p := w.AddPub(id, true)
			ch := syncfx.BuildAdChain(p.Src, id, L, syncfx.DefaultProto, "c01-scoped")
			ech := syncfx.BuildEntryChain(p.Src, M, syncfx.DefaultProto, "c01-scoped-entries")
			sub := w.NewSubscriber(dagsync.SegmentDepthLimit(seg))
			var seen []cid.Cid
			hookOpt := dagsync.ScopedBlockHook(func(_ peer.ID, c cid.Cid, act dagsync.SegmentSyncActions) {
				seen = append(seen, c)
				if data, ok := w.Dst.Get(c); ok {
					act.SetNextSyncCid(syncfx.LinkOf(data))
				} else {
					act.SetNextSyncCid(cid.Undef)
				}
			})
			p.Publisher.SetRoot(ch.Head())
			steps := []struct {
				name string
				run  func() error
				want int
			}{
				{"ad-chain sync", func() error { _, err := sub.SyncAdChain(context.Background(), p.AddrInfo(), hookOpt); return err }, L},
				{"re-sync of the same chain (WithAdsResync)", func() error {
					_, err := sub.SyncAdChain(context.Background(), p.AddrInfo(), hookOpt, dagsync.WithAdsResync(true))
					return err
				}, L},
				{"entries sync", func() error { return sub.SyncEntries(context.Background(), p.AddrInfo(), ech.Head(), hookOpt) }, M},
				{"the same entries sync again", func() error { return sub.SyncEntries(context.Background(), p.AddrInfo(), ech.Head(), hookOpt) }, M},
			}
			for _, st := range steps {
				seen = nil
				var err error
				if pn, pm := vp.Guard(func() { err = st.run(); synctest.Wait() }); pn {
					bad = st.name + ": panic: " + firstLine(pm)
					return
				}
				if err != nil {
					bad = fmt.Sprintf("%s: %v", st.name, err)
					return
				}
				if len(seen) != st.want {
					bad = fmt.Sprintf("%s with an option value that earlier syncs were given too: the hook was handed %d blocks, the sync covers %d", st.name, len(seen), st.want)
					return
				}
			}
			for _, c := range append(append([]cid.Cid{}, ch.Cids...), ech.Cids...) {
				if !w.Dst.Has(c) {
					bad = "a block of a successfully synced chain is not in the store"
					return
				}
			}
		})
		if bad != "" {
			r.Violation("scoped-hook-reused:blocks-not-reported", key, bad, nil)
			continue
		}
		r.Outcome("scoped-hook-reuse-ok")
	}
}

// checkDirectSyncer: the sync client used directly (ipnisync.NewSync,
// NewSyncer, Syncer.Sync) with selectors made by the library's exported
// selector constructors (DagsyncSelector, ExploreRecursiveWithStop,
// ExploreRecursiveWithStopNode): for every ordered pair of recursion limits of
// {none, depth 0, 1, 2, beyond the chain}, with and without a stop link, in
// one process, a chain of 5 generic blocks is synced into an empty store with
// the first and then, into another empty store, with the second selector. What
// each sync reports is what a traversal of the publisher's own store reports
// with a selector built here with the selector builder, not by the library.
func checkDirectSyncer(t *testing.T, r *vp.Recorder) {
	const L = 5
	type lim struct {
		name string
		rl   selector.RecursionLimit
	}
	lims := []lim{{"none", selector.RecursionLimitNone()}, {"depth0", selector.RecursionLimitDepth(0)}, {"depth1", selector.RecursionLimitDepth(1)}, {"depth2", selector.RecursionLimitDepth(2)}, {"depth9", selector.RecursionLimitDepth(9)}}
	ctors := []string{"DagsyncSelector", "ExploreRecursiveWithStop", "ExploreRecursiveWithStopNode"}
	for _, ctor := range ctors {
		for _, stop := range []int{-1, 1} {
			for i1, l1 := range lims {
				for i2, l2 := range lims {
					key := fmt.Sprintf("direct-syncer|%s|stop%d|%s,%s", ctor, stop, l1.name, l2.name)
					if !r.Mine(key) {
						continue
					}
					r.Eval(key, i1 != i2)
					var bad string
					syncfx.Bubble(t, func(t *testing.T) {
						for step, l := range []lim{l1, l2} {
							w := syncfx.NewWorld()
							id := fixture.Key("ed25519", 0)
							p := w.AddPub(id, false)
							ch := syncfx.BuildMapChain(p.Src, L, syncfx.DefaultProto, "c01-direct")
							var stopLnk ipld.Link
							if stop >= 0 {
								stopLnk = cidlink.Link{Cid: ch.Cids[stop]}
							}
							np := basicnode.Prototype.Any
							ssb := selectorbuilder.NewSelectorSpecBuilder(np)
							var sel ipld.Node
							switch ctor {
							case "DagsyncSelector":
								sel = dagsync.DagsyncSelector(l.rl, stopLnk)
							case "ExploreRecursiveWithStop":
								sel = dagsync.ExploreRecursiveWithStop(l.rl, ssb.ExploreAll(ssb.ExploreRecursiveEdge()), stopLnk)
							default:
								sel = dagsync.ExploreRecursiveWithStopNode(l.rl, nil, stopLnk)
							}
							// the reference: blocks loaded by a traversal of the
							// publisher's store with a selector built here
							var want []int
							if stop < 0 {
								own := ssb.ExploreRecursive(l.rl, ssb.ExploreAll(ssb.ExploreRecursiveEdge())).Node()
								want = traverseOwn(p.Src, ch, own)
							} else {
								// with a stop link: head down to the block above the stop
								// block, cut by the depth limit as in the reference
								// without a stop
								own := ssb.ExploreRecursive(l.rl, ssb.ExploreAll(ssb.ExploreRecursiveEdge())).Node()
								for _, b := range traverseOwn(p.Src, ch, own) {
									if b > stop {
										want = append(want, b)
									}
								}
							}
							var got []int
							lsys := w.Dst.LinkSystem()
							sy := ipnisync.NewSync(lsys, func(_ peer.ID, c cid.Cid) { got = append(got, ch.Index(c)) })
							syncer, err := sy.NewSyncer(p.AddrInfo())
							if err != nil {
								bad = "NewSyncer: " + err.Error()
							} else {
								ctx, cerr := ipnisync.CtxWithCidSchema(context.Background(), ipnisync.CidSchemaEntryChunk)
								if cerr != nil {
									panic(cerr)
								}
								if err := syncer.Sync(ctx, ch.Head(), sel); err != nil {
									bad = fmt.Sprintf("sync %d (%s): %v", step+1, l.name, err)
								} else if fmt.Sprint(got) != fmt.Sprint(want) {
									bad = fmt.Sprintf("sync %d of the pair, selector from %s with limit %s and stop %d: the hook was handed blocks %v, a traversal with a selector built here loads %v", step+1, ctor, l.name, stop, got, want)
								} else {
									for _, b := range want {
										if !w.Dst.Has(ch.Cids[b]) {
											bad = fmt.Sprintf("sync %d: block %d reported but not stored", step+1, b)
										}
									}
								}
							}
							sy.Close()
							w.Close()
							if bad != "" {
								return
							}
						}
					})
					if bad != "" {
						r.Violation("direct-syncer:blocks-differ-from-an-independent-traversal:"+ctor, key, bad, nil)
						continue
					}
					r.Outcome("direct-syncer-ok")
				}
			}
		}
	}
}

// traverseOwn walks the chain in st from its head with sel and returns the
// chain indices of the blocks loaded, in order.
func traverseOwn(st *syncfx.Store, ch *syncfx.Chain, sel ipld.Node) []int {
	lsys := st.LinkSystem()
	var loaded []int
	inner := lsys.StorageReadOpener
	lsys.StorageReadOpener = func(lc ipld.LinkContext, l ipld.Link) (io.Reader, error) {
		rd, err := inner(lc, l)
		if err == nil {
			loaded = append(loaded, ch.Index(l.(cidlink.Link).Cid))
		}
		return rd, err
	}
	csel, err := selector.CompileSelector(sel)
	if err != nil {
		panic(err)
	}
	head := cidlink.Link{Cid: ch.Head()}
	root, err := lsys.Load(ipld.LinkContext{}, head, basicnode.Prototype.Any)
	if err != nil {
		panic(err)
	}
	prog := traversal.Progress{Cfg: &traversal.Config{LinkSystem: lsys, LinkTargetNodePrototypeChooser: func(ipld.Link, ipld.LinkContext) (ipld.NodePrototype, error) {
		return basicnode.Prototype.Any, nil
	}}}
	if err := prog.WalkMatching(root, csel, func(traversal.Progress, ipld.Node) error { return nil }); err != nil {
		panic(err)
	}
	return loaded
}

func firstLine(s string) string {
	if i := strings.IndexByte(s, '\n'); i >= 0 {
		return s[:i]
	}
	return s
}

func depthValues(L int) []int64 {
	vals := []int64{0, 1}
	for _, v := range []int64{int64(L) - 1, int64(L), int64(L) + 1} {
		if v > 1 {
			vals = append(vals, v)
		}
	}
	return vals
}

func TestCheck(t *testing.T) {
	r := vp.New("C01", "model_checking",
		"configurations: chain length L x entry point (queried head h, explicit head h, announce of h, for every h) x latest-sync state (none, every index, via SetLatestSync or WithLastKnownSync) x stop (none, every index, foreign CID) x resync x depth limits (subscriber, first-sync, per-call; each in {unset, -1, 1, L-1, L, L+1}, at most two set at once) x segment size (disabled, 1..L+1, subscriber-wide or per-call) x every subset of pre-stored blocks, factored as A(what) x B(depth) with two 'how' settings, A x C(how) with two depth settings; plus a boundary sweep on chains of 5-6 (quick) / 5-8 (thorough) ads: every segment size 1..L+1 x every depth limit 1..L+1 of each kind x stop {none, oldest, second-oldest} x entry point x {the harness's own hook, the library's MakeGeneralBlockHook} choosing the next segment; entries chains: M x start x {SyncEntries, SyncOneEntry, SyncHAMTEntries} x depth limits x segment size x pre-stored subsets; the all-links entry point also on a DAG with fan-out (2 spine blocks with 2 leaves each) x 5 segment sizes x all 64 pre-stored subsets; histories of real syncs on the subscriber (an older ad synced with an explicit head, the latest-synced value reached by a sync, the publisher's handler removed with RemoveHandler after that) before the observed sync; the sync client used directly (NewSync / NewSyncer / Syncer.Sync) with selectors from DagsyncSelector, ExploreRecursiveWithStop and ExploreRecursiveWithStopNode for every ordered pair of 5 recursion limits with and without a stop link, against a traversal with a selector built by the harness; one ScopedBlockHook option value handed to a sync, a re-sync, an entries sync and the same entries sync again; two entries syncs in a row on one subscriber, the first with a per-call depth limit, the second without or with another one. Every configuration runs the real subscriber and publisher and is compared with an integer reference model. states = distinct base configurations; transitions = hook calls + requests observed; traces = executions.",
		"reference model is the oracle (trusted; written from the statement)",
		"two combinations whose depth limit the documentation leaves open (resync without stop on a known publisher with FirstSyncDepth set; explicit stop on a never-synced publisher with FirstSyncDepth set) are accepted under either reading",
		"the block hook decodes each block and names its chain link as the next segment's CID, as the segmented-sync API requires",
	)
	defer func() {
		if err := r.Finish(); err != nil {
			t.Fatal(err)
		}
	}()
	thorough := vp.Thorough()
	maxL := 3
	if thorough {
		maxL = 4
	}
	r.Bounds(map[string]any{"max_chain_length": maxL, "max_entries_chain": maxL})

	for L := 1; L <= maxL; L++ {
		// A: what to sync
		type what struct {
			entry  string
			h, lat int
			via    string
			stop   int
			resync bool
		}
		var A []what
		for _, entry := range []string{"queried", "explicit", "announce"} {
			for h := 0; h < L; h++ {
				for lat := -1; lat < L; lat++ {
					vias := []string{"set"}
					if lat >= 0 && (h == L-1 || thorough) {
						vias = append(vias, "lastknown")
					}
					for _, via := range vias {
						if entry == "announce" {
							A = append(A, what{entry, h, lat, via, -1, false})
							continue
						}
						for stop := -1; stop <= L; stop++ {
							for _, re := range []bool{false, true} {
								A = append(A, what{entry, h, lat, via, stop, re})
							}
						}
					}
				}
			}
		}
		// B: depth triples with at most two set
		dv := depthValues(L)
		type depth struct{ ds, df, dc int64 }
		var B []depth
		dcVals := append([]int64{-1}, dv...)
		for _, ds := range dv {
			for _, df := range dv {
				for _, dc := range dcVals {
					n := 0
					for _, v := range []int64{ds, df, dc} {
						if v != 0 {
							n++
						}
					}
					if n <= 2 {
						B = append(B, depth{ds, df, dc})
					}
				}
			}
		}
		// C: how
		type how struct {
			seg    int64
			scoped bool
			pre    uint
		}
		var C []how
		for seg := int64(-1); seg <= int64(L)+1; seg++ {
			if seg == 0 {
				continue
			}
			for pre := uint(0); pre < 1<<L; pre++ {
				C = append(C, how{seg, false, pre})
				if seg > 0 && (pre == 0 || thorough) {
					C = append(C, how{seg, true, pre})
				}
			}
		}
		for _, a := range A {
			mk := func(d depth, h how) cfg {
				return cfg{L: L, Entry: a.entry, H: a.h, Latest: a.lat, LatestVia: a.via, Stop: a.stop, Resync: a.resync, Ds: d.ds, Df: d.df, Dc: d.dc, Seg: h.seg, SegScoped: h.scoped, Pre: h.pre}
			}
			for _, d := range B {
				if a.entry == "announce" && d.dc != 0 {
					continue
				}
				check(t, r, mk(d, how{-1, false, 0}))
				check(t, r, mk(d, how{1, false, 0}))
				if L >= 2 {
					check(t, r, mk(d, how{2, false, 1 << (L - 1)}))
				}
			}
			for _, h := range C {
				if a.entry == "announce" && h.scoped {
					continue
				}
				check(t, r, mk(depth{0, 0, 0}, h))
				if a.entry != "announce" {
					check(t, r, mk(depth{0, 0, 2}, h))
				} else {
					check(t, r, mk(depth{2, 0, 0}, h))
				}
			}
			if r.OverBudget() {
				return
			}
		}
	}
	boundarySweep(t, r, thorough)
	historySweep(t, r, thorough)
	checkEntries(t, r, maxL)
	checkAllLinksTree(t, r, 2)
	checkEntriesTwice(t, r, 4)
	checkDirectSyncer(t, r)
	checkScopedHookReuse(t, r)
	t.Logf("violations: %d", r.Violations())
}

// boundarySweep: the (segment size x depth limit x stop position) plane on
// chains longer than the main product can afford. A segment that is not
// shortened to the remaining depth only shows when the chain is longer than the
// depth limit, i.e. never on the short chains above.
// historySweep: the observed sync is not the first thing this subscriber does.
// Blocks are in the store because an earlier explicit-head sync of an older
// advertisement fetched them, and / or the latest-synced value was reached by a
// real sync. What must be reported and what may be requested is the same as
// when the blocks were put there by hand and the value set by hand; only the
// subscriber (and its per-publisher sync client) has a past.
func historySweep(t *testing.T, r *vp.Recorder, thorough bool) {
	lengths := []int{5}
	if thorough {
		lengths = []int{5, 6, 8}
	}
	all := func(b int) uint { return uint(1)<<(uint(b)+1) - 1 }
	for _, L := range lengths {
		for _, seg := range []int64{-1, 1, 2, 3, 4} {
			for _, entry := range []string{"queried", "explicit", "announce"} {
				// an older ad b was synced with an explicit head before
				for b := 0; b <= L-2; b++ {
					check(t, r, cfg{L: L, Entry: entry, H: L - 1, Latest: -1, LatestVia: "set", Stop: -1, Seg: seg, Pre: all(b), Prior: b + 1})
					if entry != "announce" {
						// and with an explicit stop below it
						check(t, r, cfg{L: L, Entry: entry, H: L - 1, Latest: -1, LatestVia: "set", Stop: 0, Seg: seg, Pre: all(b), Prior: b + 1})
					}
				}
				// the latest-synced value was reached by a real sync
				for lat := 0; lat <= L-1; lat++ {
					c := cfg{L: L, Entry: entry, H: L - 1, Latest: lat, LatestVia: "sync", Stop: -1, Seg: seg, Pre: all(lat)}
					check(t, r, c)
					// the same after the publisher's handler was removed
					c.HandlerRemoved = true
					check(t, r, c)
					c.HandlerRemoved = false
					if entry != "announce" {
						c.Resync = true
						check(t, r, c)
					}
					// both: an explicit-head sync of an ad above the latest one, too
					if lat+1 <= L-2 {
						c2 := cfg{L: L, Entry: entry, H: L - 1, Latest: lat, LatestVia: "sync", Stop: -1, Seg: seg, Pre: all(lat + 1), Prior: lat + 2}
						check(t, r, c2)
					}
				}
			}
		}
		if r.OverBudget() {
			return
		}
	}
}

func boundarySweep(t *testing.T, r *vp.Recorder, thorough bool) {
	lengths := []int{5, 6}
	if thorough {
		lengths = []int{5, 6, 7, 8}
	}
	for _, L := range lengths {
		for _, entry := range []string{"queried", "explicit", "announce"} {
			for seg := int64(1); seg <= int64(L)+1; seg++ {
				for d := int64(1); d <= int64(L)+1; d++ {
					for kind := 0; kind < 3; kind++ {
						if entry == "announce" && kind == 2 {
							continue
						}
						for _, stop := range []int{-1, 0, 1} {
							if entry == "announce" && stop >= 0 {
								continue
							}
							c := cfg{L: L, Entry: entry, H: L - 1, Latest: -1, LatestVia: "set", Stop: stop, Seg: seg}
							switch kind {
							case 0:
								c.Ds = d
							case 1:
								c.Df = d
							default:
								c.Dc = d
							}
							check(t, r, c)
							// the same with the library's general hook choosing
							// the next segment
							c.LibHook = true
							check(t, r, c)
							c.LibHook = false
							if seg <= 2 && entry != "announce" {
								c.SegScoped = true
								check(t, r, c)
							}
						}
					}
				}
			}
		}
		if r.OverBudget() {
			return
		}
	}
}

// ---- entries chains ----

type ecfg struct {
	M      int
	Fn     string // entries, one, hamt
	Start  int
	De, Dc int64
	Seg    int64
	Pre    uint
}

func (c ecfg) key() string {
	return fmt.Sprintf("ent|M%d|%s|s%d|D%d,%d|seg%d|pre%b", c.M, c.Fn, c.Start, c.De, c.Dc, c.Seg, c.Pre)
}

func checkEntries(t *testing.T, r *vp.Recorder, maxM int) {
	for M := 1; M <= maxM; M++ {
		dv := depthValues(M)
		for _, fn := range []string{"entries", "one", "hamt"} {
			for start := 0; start < M; start++ {
				for _, de := range dv {
					for _, dc := range append([]int64{-1}, dv...) {
						if fn != "entries" && (de != 0 || dc != 0) {
							continue
						}
						if de != 0 && dc != 0 && de != 1 {
							continue
						}
						for seg := int64(-1); seg <= int64(M)+1; seg++ {
							if seg == 0 {
								continue
							}
							for pre := uint(0); pre < 1<<M; pre++ {
								checkOneEntries(t, r, ecfg{M, fn, start, de, dc, seg, pre})
							}
						}
					}
				}
			}
		}
		if r.OverBudget() {
			return
		}
	}
}

// checkAllLinksTree: the all-links entry point (SyncHAMTEntries) on a DAG with
// fan-out (a spine of n blocks, each with two leaves): every block of the DAG
// is reported exactly once and stored, whatever the subscriber's segment size
// is and whichever blocks were stored before, and stored blocks are not
// requested.
func checkAllLinksTree(t *testing.T, r *vp.Recorder, n int) {
	total := 3 * n
	for _, seg := range []int64{-1, 1, 2, 3, int64(total) + 1} {
		for pre := uint(0); pre < 1<<total; pre++ {
			key := fmt.Sprintf("ent|all-links-tree|n%d|seg%d|pre%b", n, seg, pre)
			if !r.Mine(key) {
				continue
			}
			r.Eval(key, true)
			var hooks, reqBlk []int
			var serr error
			var panicked string
			missing := 0
			syncfx.Bubble(t, func(t *testing.T) {
				w := syncfx.NewWorld()
				defer w.Close()
				p := w.AddPub(fixture.Key("ed25519", 0), true)
				ch := syncfx.BuildMapTree(p.Src, n, syncfx.DefaultProto, "c01t")
				sub := w.NewSubscriber(dagsync.SegmentDepthLimit(seg))
				for i := 0; i < total; i++ {
					if pre&(1<<i) != 0 {
						b, _ := p.Src.Get(ch.Cids[i])
						w.Dst.Put(ch.Cids[i], b)
					}
				}
				if pn, pm := vp.Guard(func() {
					serr = sub.SyncHAMTEntries(context.Background(), p.AddrInfo(), ch.Head())
					synctest.Wait()
				}); pn {
					panicked = pm
					return
				}
				for _, h := range w.HookLog() {
					hooks = append(hooks, ch.Index(h.Cid))
				}
				for _, rq := range p.Requests() {
					if rq.Kind == "block" {
						reqBlk = append(reqBlk, ch.Index(rq.Cid))
					}
				}
				for _, c := range ch.Cids {
					if !w.Dst.Has(c) {
						missing++
					}
				}
			})
			sort.Ints(hooks)
			var all []int
			for i := 0; i < total; i++ {
				all = append(all, i)
			}
			switch {
			case panicked != "":
				r.Violation("ent:panic:all-links-tree", key, firstLine(panicked), nil)
			case serr != nil:
				r.Violation("ent:sync-error:all-links-tree", key, serr.Error(), nil)
			case ints(hooks) != ints(all):
				r.Violation("ent:hooks:all-links-tree:segment-size-or-prestored-blocks-change-what-is-reported", key, fmt.Sprintf("segment size %d, pre-stored %b: blocks reported (sorted) [%s], want every block of the DAG once [%s]", seg, pre, ints(hooks), ints(all)), nil)
			case missing != 0:
				r.Violation("ent:store:all-links-tree", key, fmt.Sprintf("%d blocks of the DAG are not in the store after a successful sync", missing), nil)
			default:
				for _, b := range reqBlk {
					if pre&(1<<b) != 0 {
						r.Violation("ent:requested-prestored-block:all-links-tree", key, fmt.Sprintf("block %d was stored before and was requested", b), nil)
						break
					}
				}
				r.Outcome("tree-ok")
			}
		}
	}
}

// checkEntriesTwice: two entries syncs on ONE subscriber, the first with a
// per-call depth limit, the second without: "the depth limit that applies" to
// the second is the subscriber's own, whatever an earlier call was given.
func checkEntriesTwice(t *testing.T, r *vp.Recorder, M int) {
	for _, de := range []int64{0, 2, 3} {
		for _, d1 := range []int64{-1, 1, 2, int64(M)} {
			for _, fn2 := range []string{"entries", "entries-scoped-again"} {
				key := fmt.Sprintf("ent|two-calls|M%d|De%d|first-scoped%d|second=%s", M, de, d1, fn2)
				if !r.Mine(key) {
					continue
				}
				r.Eval(key, true)
				limit := func(d int64) int {
					if d <= 0 || d > int64(M) {
						return M
					}
					return int(d)
				}
				want1 := limit(d1)
				want2 := limit(de)
				if fn2 == "entries-scoped-again" {
					want2 = limit(1)
				}
				var got1, got2 int
				var err1, err2 error
				var panicked string
				syncfx.Bubble(t, func(t *testing.T) {
					w := syncfx.NewWorld()
					defer w.Close()
					p := w.AddPub(fixture.Key("ed25519", 0), true)
					ch := syncfx.BuildEntryChain(p.Src, M, syncfx.DefaultProto, "c01e2")
					sub := w.NewSubscriber(dagsync.EntriesDepthLimit(de))
					ctx := context.Background()
					if pn, pm := vp.Guard(func() {
						err1 = sub.SyncEntries(ctx, p.AddrInfo(), ch.Head(), dagsync.ScopedDepthLimit(d1))
						synctest.Wait()
						got1 = len(w.HookLog())
						w.ResetHooks()
						if fn2 == "entries" {
							err2 = sub.SyncEntries(ctx, p.AddrInfo(), ch.Head())
						} else {
							err2 = sub.SyncEntries(ctx, p.AddrInfo(), ch.Head(), dagsync.ScopedDepthLimit(1))
						}
						synctest.Wait()
						got2 = len(w.HookLog())
					}); pn {
						panicked = pm
					}
				})
				switch {
				case panicked != "":
					r.Violation("ent:panic:two-calls", key, firstLine(panicked), nil)
				case err1 != nil || err2 != nil:
					r.Violation("ent:sync-error:two-calls", key, fmt.Sprint(err1, err2), nil)
				case got1 != want1:
					r.Violation("ent:hooks:two-calls:first", key, fmt.Sprintf("first call (per-call limit %d, subscriber limit %d) reported %d blocks, want %d", d1, de, got1, want1), nil)
				case got2 != want2:
					r.Violation("ent:hooks:two-calls:depth-limit-of-an-earlier-call-applied", key, fmt.Sprintf("second call on the same subscriber (subscriber limit %d; the first call had the per-call limit %d) reported %d blocks, want %d", de, d1, got2, want2), nil)
				default:
					r.Outcome("two-calls-ok")
				}
			}
		}
	}
}

func checkOneEntries(t *testing.T, r *vp.Recorder, c ecfg) {
	key := c.key()
	if !r.Mine(key) {
		return
	}
	// model
	limit := int64(1 << 40)
	switch c.Fn {
	case "entries":
		limit = inf(c.De)
		if c.Dc != 0 {
			limit = inf(c.Dc)
		}
	case "one":
		limit = 1
	}
	var want []int
	for i := c.Start; i >= 0 && int64(len(want)) < limit; i-- {
		want = append(want, i)
	}
	r.Eval(key, len(want) > 1)
	var hooks, reqBlk, unread []int
	var serr error
	var panicked string
	var other []string
	syncfx.Bubble(t, func(t *testing.T) {
		w := syncfx.NewWorld()
		defer w.Close()
		id := fixture.Key("ed25519", 0)
		p := w.AddPub(id, true)
		ch := syncfx.BuildEntryChain(p.Src, c.M, syncfx.DefaultProto, "c01e")
		sub := w.NewSubscriber(dagsync.EntriesDepthLimit(c.De), dagsync.SegmentDepthLimit(c.Seg))
		for i := 0; i < c.M; i++ {
			if c.Pre&(1<<i) != 0 {
				b, _ := p.Src.Get(ch.Cids[i])
				w.Dst.Put(ch.Cids[i], b)
			}
		}
		ctx := context.Background()
		pn, pm := vp.Guard(func() {
			switch c.Fn {
			case "entries":
				var so []dagsync.SyncOption
				if c.Dc != 0 {
					so = append(so, dagsync.ScopedDepthLimit(c.Dc))
				}
				serr = sub.SyncEntries(ctx, p.AddrInfo(), ch.Cids[c.Start], so...)
			case "one":
				serr = sub.SyncOneEntry(ctx, p.AddrInfo(), ch.Cids[c.Start])
			case "hamt":
				serr = sub.SyncHAMTEntries(ctx, p.AddrInfo(), ch.Cids[c.Start])
			}
			synctest.Wait()
		})
		if pn {
			panicked = pm
			return
		}
		for _, h := range w.HookLog() {
			hooks = append(hooks, ch.Index(h.Cid))
		}
		for _, rq := range p.Requests() {
			switch rq.Kind {
			case "wk", "wk-legacy":
			case "block":
				reqBlk = append(reqBlk, ch.Index(rq.Cid))
			default:
				other = append(other, rq.Kind+":"+rq.Path)
			}
		}
		for _, h := range hooks {
			if h < 0 {
				continue
			}
			b, ok := w.Dst.Get(ch.Cids[h])
			if !ok || !syncfx.Verifies(ch.Cids[h], b) {
				unread = append(unread, h)
			}
		}
	})
	r.Trace(1)
	r.State(fmt.Sprintf("ecfg|M%d|%s|s%d|D%d,%d", c.M, c.Fn, c.Start, c.De, c.Dc))
	r.Transition(int64(len(hooks) + len(reqBlk) + 1))
	cls := c.Fn
	if c.Seg > 0 {
		cls += ",segmented"
	}
	switch {
	case panicked != "":
		r.Violation("entries:panic:"+cls, key, firstLine(panicked), nil)
	case serr != nil:
		r.Violation("entries:sync-error:"+cls, key, fmt.Sprintf("config %s: %v", key, serr), nil)
	case ints(hooks) != ints(want):
		r.Violation("entries:hooks:"+cls, key, fmt.Sprintf("config %s: block hook saw [%s], expected [%s]", key, ints(hooks), ints(want)), nil)
	case len(unread) != 0:
		r.Violation("entries:reported-block-not-in-store:"+cls, key, ints(unread), nil)
	case len(other) != 0:
		r.Violation("entries:unexpected-request:"+cls, key, fmt.Sprint(other), nil)
	default:
		var wantReq []int
		for _, b := range want {
			if c.Pre&(1<<b) == 0 {
				wantReq = append(wantReq, b)
			}
		}
		if ints(reqBlk) != ints(wantReq) {
			r.Violation("entries:requests:"+cls, key, fmt.Sprintf("config %s: publisher saw block requests [%s], expected [%s]", key, ints(reqBlk), ints(wantReq)), nil)
		} else {
			r.Outcome(fmt.Sprintf("entries-ok:%d", len(want)))
		}
	}
}
