// C05: advertisement signatures verify exactly what was signed, and by whom.
// Bounded-exhaustive enumeration of advertisements, single-value mutations,
// envelope alterations and key assignments against a specification.
package c05

import (
	"bytes"
	"fmt"
	"strings"
	"testing"

	"github.com/ipfs/go-cid"
	"github.com/ipld/go-ipld-prime"
	"github.com/ipld/go-ipld-prime/codec/dagcbor"
	"github.com/ipld/go-ipld-prime/codec/dagjson"
	cidlink "github.com/ipld/go-ipld-prime/linking/cid"
	"github.com/ipld/go-ipld-prime/node/basicnode"
	"github.com/ipni/go-libipni/ingest/schema"
	"github.com/libp2p/go-libp2p/core/crypto"
	"github.com/libp2p/go-libp2p/core/peer"
	"github.com/libp2p/go-libp2p/core/record"
	recpb "github.com/libp2p/go-libp2p/core/record/pb"
	"github.com/multiformats/go-multicodec"
	"google.golang.org/protobuf/proto"

	"verifharness/fixture"
	"verifharness/vp"
)

func firstLine(s string) string {
	if i := strings.IndexByte(s, '\n'); i >= 0 {
		return s[:i]
	}
	return s
}

func lnk(s string) ipld.Link { return cidlink.Link{Cid: fixture.Cid(s, uint64(multicodec.DagJson))} }

// adShape is one point of the structural product.
type adShape struct {
	prev    bool
	entries bool // real link vs NoEntries
	nAddrs  int
	md      bool
	isRm    bool
	nEP     int // 0 none, 1 main only, 2, 3
	ovr     bool
	ctxLen  int
	// mainPos: position of the main provider inside the extended-provider list
	mainPos int
}

func (s adShape) String() string {
	return fmt.Sprintf("prev=%v,ent=%v,addrs=%d,md=%v,rm=%v,ep=%d,ovr=%v,ctx=%d,mainpos=%d", s.prev, s.entries, s.nAddrs, s.md, s.isRm, s.nEP, s.ovr, s.ctxLen, s.mainPos)
}

var adAddrs = []string{"/ip4/1.2.3.4/tcp/1111", "/dns4/provider.example/tcp/443/https"}

// identities: provider (main), extended providers, publisher, unrelated
type cast struct {
	kt                         string
	main, x, y, pub, unrelated *fixture.Identity
}

func newCast(kt string) cast {
	// extended providers use other key types too, to mix envelopes
	other := map[string]string{"ed25519": "secp256k1", "secp256k1": "ed25519", "ecdsa": "ed25519", "rsa": "secp256k1"}[kt]
	return cast{kt: kt, main: fixture.Key(kt, 0), x: fixture.Key(other, 2), y: fixture.Key(kt, 3), pub: fixture.Key(kt, 4), unrelated: fixture.Key(other, 5)}
}

func (c cast) keyFor(id string) (crypto.PrivKey, error) {
	for _, i := range []*fixture.Identity{c.main, c.x, c.y, c.pub, c.unrelated} {
		if i.ID.String() == id {
			return i.Priv, nil
		}
	}
	return nil, fmt.Errorf("no key for %s", id)
}

func build(s adShape, c cast) *schema.Advertisement {
	ad := &schema.Advertisement{Provider: c.main.ID.String(), IsRm: s.isRm}
	if s.prev {
		ad.PreviousID = lnk("previous-ad")
	}
	if s.entries {
		ad.Entries = lnk("entries-chunk")
	} else {
		ad.Entries = schema.NoEntries
	}
	ad.Addresses = append([]string{}, adAddrs[:s.nAddrs]...)
	if s.md {
		ad.Metadata = []byte{0x80, 0x12, 0x01}
	} else {
		ad.Metadata = []byte{}
	}
	ad.ContextID = fixture.Bytes(s.ctxLen, 0x33)
	if s.nEP > 0 {
		ep := &schema.ExtendedProvider{Override: s.ovr}
		others := []*fixture.Identity{c.x, c.y}
		var list []schema.Provider
		for i := 0; i < s.nEP-1; i++ {
			p := schema.Provider{ID: others[i].ID.String(), Addresses: []string{}, Metadata: []byte{}}
			if i == 0 {
				p.Addresses = []string{"/ip4/6.6.6.6/tcp/6", "/ip4/5.5.5.5/tcp/5"}
				p.Metadata = []byte("x-metadata")
			} else {
				p.Addresses = []string{"/ip4/7.7.7.7/tcp/7"}
			}
			list = append(list, p)
		}
		mainEntry := schema.Provider{ID: c.main.ID.String(), Addresses: append([]string{}, adAddrs[:s.nAddrs]...), Metadata: []byte{}}
		pos := s.mainPos
		if pos > len(list) {
			pos = len(list)
		}
		list = append(list[:pos:pos], append([]schema.Provider{mainEntry}, list[pos:]...)...)
		ep.Providers = list
		ad.ExtendedProvider = ep
	}
	return ad
}

func cloneAd(a *schema.Advertisement) *schema.Advertisement {
	b := *a
	b.Addresses = append([]string(nil), a.Addresses...)
	b.Signature = append([]byte(nil), a.Signature...)
	b.ContextID = append([]byte(nil), a.ContextID...)
	b.Metadata = append([]byte(nil), a.Metadata...)
	if a.ExtendedProvider != nil {
		ep := *a.ExtendedProvider
		ep.Providers = make([]schema.Provider, len(a.ExtendedProvider.Providers))
		for i, p := range a.ExtendedProvider.Providers {
			q := p
			q.Addresses = append([]string(nil), p.Addresses...)
			q.Metadata = append([]byte(nil), p.Metadata...)
			q.Signature = append([]byte(nil), p.Signature...)
			ep.Providers[i] = q
		}
		b.ExtendedProvider = &ep
	}
	return &b
}

// anomaly reports what verify itself notices (set by TestCheck).
var anomaly = func(sig, msg string) {}

func fingerprint(ad *schema.Advertisement) string {
	s := fmt.Sprintf("%v|%s|%q|%x|%v|%x|%x|%v", ad.PreviousID, ad.Provider, ad.Addresses, ad.Signature, ad.Entries, ad.Metadata, ad.ContextID, ad.IsRm)
	if ep := ad.ExtendedProvider; ep != nil {
		s += fmt.Sprintf("|ovr=%v", ep.Override)
		for _, p := range ep.Providers {
			s += fmt.Sprintf("|%s,%q,%x,%x", p.ID, p.Addresses, p.Metadata, p.Signature)
		}
	}
	return s
}

// verify verifies twice: verification is a function of the advertisement (the
// second answer equals the first) and leaves the advertisement as it was.
func verify(ad *schema.Advertisement) (id peer.ID, err error, panicked bool, pmsg string) {
	before := fingerprint(ad)
	// the advertisement's read-only methods first (a receiver validates what it
	// decoded before it verifies it): they leave the advertisement as it was
	if p0, m0 := vp.Guard(func() { _ = ad.Validate(); _ = ad.PreviousCid() }); p0 {
		return id, err, true, m0
	}
	if after := fingerprint(ad); after != before {
		anomaly("verify:advertisement-modified-by-a-read-only-method", fmt.Sprintf("Validate / PreviousCid changed the advertisement: before %s after %s", before, after))
		before = after
	}
	panicked, pmsg = vp.Guard(func() { id, err = ad.VerifySignature() })
	if panicked {
		return
	}
	var id2 peer.ID
	var err2 error
	if p2, m2 := vp.Guard(func() { id2, err2 = ad.VerifySignature() }); p2 {
		return id, err, true, m2
	}
	if (err == nil) != (err2 == nil) || id != id2 {
		anomaly("verify:second-verification-differs", fmt.Sprintf("first (%s, %v), second (%s, %v)", id, err, id2, err2))
	}
	if after := fingerprint(ad); after != before {
		anomaly("verify:advertisement-modified-by-verification", fmt.Sprintf("before %s after %s", before, after))
	}
	return
}

type mutation struct {
	name   string
	signed bool // the changed value is covered by a signature => must fail
	apply  func(ad *schema.Advertisement) bool
}

func mutations(c cast) []mutation {
	otherID := c.unrelated.ID.String()
	ms := []mutation{
		{"previous-link", true, func(ad *schema.Advertisement) bool {
			if ad.PreviousID == nil {
				ad.PreviousID = lnk("some-other-previous")
			} else {
				ad.PreviousID = lnk("yet-another-previous")
			}
			return true
		}},
		{"previous-link-removed", true, func(ad *schema.Advertisement) bool {
			if ad.PreviousID == nil {
				return false
			}
			ad.PreviousID = nil
			return true
		}},
		{"entries-link", true, func(ad *schema.Advertisement) bool {
			if ad.Entries == schema.NoEntries {
				ad.Entries = lnk("entries-chunk")
			} else {
				ad.Entries = schema.NoEntries
			}
			return true
		}},
		{"provider", true, func(ad *schema.Advertisement) bool { ad.Provider = otherID; return true }},
		{"address-changed", true, func(ad *schema.Advertisement) bool {
			if len(ad.Addresses) == 0 {
				return false
			}
			ad.Addresses[len(ad.Addresses)-1] += "/http"
			return true
		}},
		{"address-added", true, func(ad *schema.Advertisement) bool {
			ad.Addresses = append(ad.Addresses, "/ip4/9.9.9.9/tcp/9")
			return true
		}},
		{"address-removed", true, func(ad *schema.Advertisement) bool {
			if len(ad.Addresses) == 0 {
				return false
			}
			ad.Addresses = ad.Addresses[1:]
			return true
		}},
		{"metadata", true, func(ad *schema.Advertisement) bool { ad.Metadata = append(ad.Metadata, 0x01); return true }},
		{"metadata-byte", true, func(ad *schema.Advertisement) bool {
			if len(ad.Metadata) == 0 {
				return false
			}
			ad.Metadata[0] ^= 0x40
			return true
		}},
		{"removal-flag", true, func(ad *schema.Advertisement) bool { ad.IsRm = !ad.IsRm; return true }},
		{"context-id", false /* set per ad: signed iff extended providers */, func(ad *schema.Advertisement) bool {
			ad.ContextID = append(ad.ContextID, 'z')
			return true
		}},
		{"ep-override", true, func(ad *schema.Advertisement) bool {
			if ad.ExtendedProvider == nil {
				return false
			}
			ad.ExtendedProvider.Override = !ad.ExtendedProvider.Override
			return true
		}},
	}
	for i := 0; i < 3; i++ {
		i := i
		has := func(ad *schema.Advertisement) bool {
			return ad.ExtendedProvider != nil && len(ad.ExtendedProvider.Providers) > i
		}
		ms = append(ms,
			mutation{fmt.Sprintf("ep%d-identity", i), true, func(ad *schema.Advertisement) bool {
				if !has(ad) {
					return false
				}
				ad.ExtendedProvider.Providers[i].ID = otherID
				return true
			}},
			mutation{fmt.Sprintf("ep%d-address-changed", i), true, func(ad *schema.Advertisement) bool {
				if !has(ad) || len(ad.ExtendedProvider.Providers[i].Addresses) == 0 {
					return false
				}
				ad.ExtendedProvider.Providers[i].Addresses[0] += "/http"
				return true
			}},
			mutation{fmt.Sprintf("ep%d-address-added", i), true, func(ad *schema.Advertisement) bool {
				if !has(ad) {
					return false
				}
				p := &ad.ExtendedProvider.Providers[i]
				p.Addresses = append(p.Addresses, "/ip4/8.8.4.4/tcp/8")
				return true
			}},
			mutation{fmt.Sprintf("ep%d-address-removed", i), true, func(ad *schema.Advertisement) bool {
				if !has(ad) || len(ad.ExtendedProvider.Providers[i].Addresses) == 0 {
					return false
				}
				p := &ad.ExtendedProvider.Providers[i]
				p.Addresses = p.Addresses[:len(p.Addresses)-1]
				return true
			}},
			mutation{fmt.Sprintf("ep%d-metadata", i), true, func(ad *schema.Advertisement) bool {
				if !has(ad) {
					return false
				}
				p := &ad.ExtendedProvider.Providers[i]
				p.Metadata = append(p.Metadata, 0x7f)
				return true
			}},
		)
	}
	return ms
}

func roundTrip(ad *schema.Advertisement, codec uint64) (*schema.Advertisement, error) {
	n, err := ad.ToNode()
	if err != nil {
		return nil, err
	}
	var buf bytes.Buffer
	if codec == uint64(multicodec.DagJson) {
		err = dagjson.Encode(n, &buf)
	} else {
		err = dagcbor.Encode(n, &buf)
	}
	if err != nil {
		return nil, err
	}
	c := cid.NewCidV1(codec, fixture.Mh("x", 0x12, -1))
	out, err := schema.BytesToAdvertisement(c, buf.Bytes())
	if err != nil {
		return nil, err
	}
	return &out, nil
}

// roundTripGeneric is the other documented way of reading an advertisement:
// the block is decoded into a generic node (no schema prototype, as a generic
// traversal or link system loads it) and then handed to UnwrapAdvertisement,
// which converts it.
func roundTripGeneric(ad *schema.Advertisement, codec uint64) (*schema.Advertisement, error) {
	n, err := ad.ToNode()
	if err != nil {
		return nil, err
	}
	var buf bytes.Buffer
	nb := basicnode.Prototype.Any.NewBuilder()
	if codec == uint64(multicodec.DagJson) {
		if err = dagjson.Encode(n, &buf); err == nil {
			err = dagjson.Decode(nb, &buf)
		}
	} else {
		if err = dagcbor.Encode(n, &buf); err == nil {
			err = dagcbor.Decode(nb, &buf)
		}
	}
	if err != nil {
		return nil, err
	}
	return schema.UnwrapAdvertisement(nb.Build())
}

func TestCheck(t *testing.T) {
	r := vp.New("C05", "exploration",
		"advertisements: product of {previous link} x {entries: NoEntries/real} x {0..2 addresses} x {metadata empty/non-empty} x {IsRm} x {extended providers: none, main only, 2, 3 (main at every position)} x {override} x {context ID 0/1/64 bytes}; signer = provider and signer != provider (also with the signer itself listed as an extended provider); key types per tier. Before every verification the ad's read-only methods (Validate, PreviousCid) are called and must leave it unchanged (address lists are not in lexical order). For each signed ad: verify, (without extended providers) sign through the plain Sign entry point and sign an already signed ad again with another key, sign a modified by-value copy and verify the original again (its bytes unchanged), verify after DAG-JSON and DAG-CBOR round trip, both through BytesToAdvertisement and through a generic node handed to UnwrapAdvertisement (mutated ads too), every single-value mutation (27 kinds), and for representative ads every single-bit flip and field-level replacement inside every signature envelope, and every assignment of signing keys {named identity, ad signer, unrelated} to the extended-provider entries. Non-trivial: every case other than verifying the untouched ad. Distinct = distinct (ad shape, keys, check).",
		"mutations that change no signed value (context ID of an ad without extended providers) must still verify",
		"added/removed addresses are non-empty strings (an empty address does not change the undelimited signed payload, which the statement excludes)",
		"envelope alterations are judged semantically (same decoded envelope = not an alteration)",
	)
	anomaly = func(sig, msg string) { r.Violation(sig, "anomaly|"+sig, msg, nil) }
	defer func() {
		if err := r.Finish(); err != nil {
			t.Fatal(err)
		}
	}()
	thorough := vp.Thorough()
	fullKts := []string{"ed25519", "secp256k1"}
	lightKts := []string{"ecdsa", "rsa"}
	if thorough {
		fullKts = []string{"ed25519", "secp256k1", "ecdsa"}
		lightKts = []string{"rsa"}
	}

	var shapes []adShape
	for _, prev := range []bool{false, true} {
		for _, ent := range []bool{false, true} {
			for na := 0; na <= 2; na++ {
				for _, md := range []bool{false, true} {
					for _, rm := range []bool{false, true} {
						for nep := 0; nep <= 3; nep++ {
							for _, ovr := range []bool{false, true} {
								if nep == 0 && ovr {
									continue
								}
								for _, cl := range []int{0, 1, 64} {
									for mp := 0; mp < 3; mp++ {
										if mp > 0 && mp > nep-1 {
											continue
										}
										shapes = append(shapes, adShape{prev, ent, na, md, rm, nep, ovr, cl, mp})
									}
								}
							}
						}
					}
				}
			}
		}
	}
	r.Bounds(map[string]any{"ad_shapes": len(shapes), "full_key_types": fullKts, "light_key_types": lightKts})

	runShape := func(kt string, s adShape, signerIsProvider bool, deep bool) {
		c := newCast(kt)
		signer := c.main
		if !signerIsProvider {
			signer = c.pub
		}
		base := fmt.Sprintf("ad|%s|%s|self=%v", kt, s, signerIsProvider)
		if !r.Mine(base) {
			return
		}
		ad := build(s, c)
		var serr error
		if pn, m := vp.Guard(func() { serr = ad.SignWithExtendedProviders(signer.Priv, c.keyFor) }); pn {
			r.Violation("sign:panic", base, firstLine(m), nil)
			return
		}
		r.Eval(base, true)
		if s.isRm && s.nEP > 0 {
			// removal ads cannot carry extended-provider signatures: signing must fail
			if serr == nil {
				if _, err, _, _ := verify(ad); err == nil {
					r.Violation("sign:rm-with-extended-providers-verifies", base, "a removal ad with extended providers was signed and verifies", nil)
				}
			}
			r.Outcome("rm+ep-refused")
			return
		}
		if serr != nil {
			r.Violation("sign:error", base, serr.Error(), nil)
			return
		}
		// (a) verify
		id, err, pn, pm := verify(ad)
		if pn {
			r.Violation("verify:panic", base, firstLine(pm), nil)
			return
		}
		if err != nil || id != signer.ID {
			r.Violation("verify:own-signature-rejected", base, fmt.Sprintf("verification of a library-signed ad: id=%s err=%v, want signer %s", id, err, signer.ID), nil)
			return
		}
		r.Outcome("verified")
		if s.nEP == 3 && s.prev && s.entries {
			r.Sample(map[string]any{"key_type": kt, "shape": s.String(), "signer_is_provider": signerIsProvider})
		}
		// (a') a derived advertisement: the caller copies the signed ad by value
		// (as one does to publish an update), changes a field of the copy and
		// signs the copy. The first advertisement is still what it was: it
		// verifies, and none of its bytes moved.
		{
			key := base + "|derived-copy-signed"
			r.Eval(key, true)
			before := fingerprint(ad)
			derived := *ad
			if ad.ExtendedProvider != nil {
				// the copy gets its own provider list (signing fills in the
				// entries' signatures); byte slices stay shared, as after any
				// copy by value
				ep := *ad.ExtendedProvider
				ep.Providers = append([]schema.Provider(nil), ad.ExtendedProvider.Providers...)
				derived.ExtendedProvider = &ep
			}
			derived.ContextID = append(append([]byte(nil), ad.ContextID...), 'x')
			var derr error
			if pn, m := vp.Guard(func() { derr = derived.SignWithExtendedProviders(signer.Priv, c.keyFor) }); pn || derr != nil {
				r.Violation("sign:derived-copy", key, fmt.Sprint(firstLine(m), derr), nil)
			} else {
				if after := fingerprint(ad); after != before {
					r.Violation("sign:signing-a-copy-changed-the-original", key, fmt.Sprintf("before %s\nafter  %s", before, after), nil)
					return // the ad under examination is no longer what was built
				} else if id, err, _, _ := verify(ad); err != nil || id != signer.ID {
					r.Violation("verify:original-rejected-after-a-copy-was-signed", key, fmt.Sprintf("id=%s err=%v", id, err), nil)
					return
				}
				if id, err, _, _ := verify(&derived); err != nil || id != signer.ID {
					r.Violation("verify:own-signature-rejected", key, fmt.Sprintf("derived copy: id=%s err=%v", id, err), nil)
				}
			}
		}
		// (a'') the plain entry point, Sign, for advertisements without extended
		// providers: signed afresh, and an advertisement that already carries a
		// valid signature signed again with another key: verification names the
		// key that signed last
		if ad.ExtendedProvider == nil {
			key := base + "|plain-Sign-and-re-Sign"
			r.Eval(key, true)
			fresh := build(s, c)
			var e1, e2 error
			if pn, m := vp.Guard(func() { e1 = fresh.Sign(signer.Priv) }); pn || e1 != nil {
				r.Violation("sign:plain-Sign", key, fmt.Sprint(firstLine(m), e1), nil)
			} else if id, err, _, _ := verify(fresh); err != nil || id != signer.ID {
				r.Violation("verify:own-signature-rejected", key, fmt.Sprintf("after Sign: id=%s err=%v, want %s", id, err, signer.ID), nil)
			} else {
				again := cloneAd(ad) // validly signed by signer
				if pn, m := vp.Guard(func() { e2 = again.Sign(c.unrelated.Priv) }); pn || e2 != nil {
					r.Violation("sign:plain-Sign", key, fmt.Sprint("re-sign: ", firstLine(m), e2), nil)
				} else if id, err, _, _ := verify(again); err != nil || id != c.unrelated.ID {
					r.Violation("verify:re-signed-ad-names-the-earlier-signer", key, fmt.Sprintf("an ad signed by %s was signed again by %s: verification gives id=%s err=%v", signer.ID, c.unrelated.ID, id, err), nil)
				}
			}
		}
		// (b) round trips
		for _, codec := range []uint64{uint64(multicodec.DagJson), uint64(multicodec.DagCbor)} {
			key := fmt.Sprintf("%s|roundtrip=%x", base, codec)
			r.Eval(key, true)
			var ad2 *schema.Advertisement
			var rerr error
			if pn, m := vp.Guard(func() { ad2, rerr = roundTrip(ad, codec) }); pn {
				r.Violation("roundtrip:panic", key, firstLine(m), nil)
				continue
			}
			if rerr != nil {
				r.Violation("roundtrip:error", key, rerr.Error(), nil)
				continue
			}
			id, err, pn, pm := verify(ad2)
			if pn {
				r.Violation("verify:panic", key, firstLine(pm), nil)
			} else if err != nil || id != signer.ID {
				r.Violation(fmt.Sprintf("verify:rejected-after-roundtrip:codec=%x", codec), key, fmt.Sprintf("ad no longer verifies after encode/decode: id=%s err=%v", id, err), nil)
			}
			// the same through a generic node and UnwrapAdvertisement: what
			// comes back is the ad (fingerprint), and it verifies
			var ad3 *schema.Advertisement
			if pn, m := vp.Guard(func() { ad3, rerr = roundTripGeneric(ad, codec) }); pn {
				r.Violation("roundtrip:panic", key, "generic node: "+firstLine(m), nil)
				continue
			}
			if rerr != nil {
				r.Violation("roundtrip:error", key, "generic node: "+rerr.Error(), nil)
				continue
			}
			if id, err, pn, _ := verify(ad3); pn || err != nil || id != signer.ID {
				r.Violation(fmt.Sprintf("verify:rejected-after-roundtrip-through-a-generic-node:codec=%x", codec), key, fmt.Sprintf("ad no longer verifies after encode, decode into a generic node and UnwrapAdvertisement: id=%s err=%v", id, err), nil)
			} else if (ad3.ExtendedProvider == nil) != (ad.ExtendedProvider == nil) || (ad.ExtendedProvider != nil && (ad3.ExtendedProvider.Override != ad.ExtendedProvider.Override || len(ad3.ExtendedProvider.Providers) != len(ad.ExtendedProvider.Providers))) {
				r.Violation(fmt.Sprintf("roundtrip:extended-providers-changed-through-a-generic-node:codec=%x", codec), key, "the extended providers of the unwrapped ad are not those of the ad that was encoded", nil)
			}
		}
		// (c) single-value mutations
		for _, mu := range mutations(c) {
			key := base + "|mut=" + mu.name
			m := cloneAd(ad)
			if !mu.apply(m) {
				continue
			}
			signed := mu.signed
			if mu.name == "context-id" {
				signed = s.nEP > 0
			}
			r.Eval(key, true)
			id, err, pn, pm := verify(m)
			if pn {
				r.Violation("verify:panic:after-"+mu.name, key, firstLine(pm), nil)
				continue
			}
			if signed && err == nil {
				r.Outcome("mutation-accepted")
				r.Violation("verify:accepted-changed-value:"+mu.name, key, fmt.Sprintf("verification still succeeds (signer %s) after changing %s of %s", id, mu.name, s), nil)
			} else if !signed && (err != nil || id != signer.ID) {
				r.Violation("verify:rejected-unsigned-change:"+mu.name, key, fmt.Sprintf("changing %s, which no signature covers, made verification fail: %v", mu.name, err), nil)
			} else {
				r.Outcome("mutation-rejected")
				// a rejection leaves nothing behind: the untouched ad verifies
				// right after an altered one was refused
				if signed {
					if id2, err2, _, _ := verify(ad); err2 != nil || id2 != signer.ID {
						r.Violation("verify:untouched-ad-rejected-after-a-refused-one:"+mu.name, key, fmt.Sprintf("after the %s alteration was refused, the untouched ad gives id=%s err=%v", mu.name, id2, err2), nil)
					}
				}
			}
			// the mutated ad must also be rejected after a round trip through DAG-JSON
			if signed && (s.ctxLen == 1 || deep || (s.ovr && s.nEP > 0)) {
				if m2, rerr := roundTrip(m, uint64(multicodec.DagJson)); rerr == nil {
					if _, err, _, _ := verify(m2); err == nil {
						r.Violation("verify:accepted-changed-value-after-roundtrip:"+mu.name, key, "mutated ad verifies after DAG-JSON round trip", nil)
					}
				}
				for _, codec := range []uint64{uint64(multicodec.DagJson), uint64(multicodec.DagCbor)} {
					if m3, rerr := roundTripGeneric(m, codec); rerr == nil {
						if _, err, _, _ := verify(m3); err == nil {
							r.Violation("verify:accepted-changed-value-after-roundtrip-through-a-generic-node:"+mu.name, key, fmt.Sprintf("mutated ad (%s of %s) verifies after encoding (codec %x), decoding into a generic node and UnwrapAdvertisement", mu.name, s, codec), nil)
						}
					}
				}
			}
		}
		// (f) main provider absent from a non-empty list
		if s.nEP >= 2 {
			key := base + "|main-absent"
			r.Eval(key, true)
			m := cloneAd(ad)
			var keep []schema.Provider
			for _, p := range m.ExtendedProvider.Providers {
				if p.ID != m.Provider {
					keep = append(keep, p)
				}
			}
			m.ExtendedProvider.Providers = keep
			if _, err, pn, pm := verify(m); pn {
				r.Violation("verify:panic:main-absent", key, firstLine(pm), nil)
			} else if err == nil {
				r.Violation("verify:accepted-without-main-provider", key, "verification succeeds although the main provider is not among the extended providers", nil)
			}
		}
		// (f2) the same with the ad's own signer listed as an extended provider:
		// "the main provider is listed" is about the identity an entry names,
		// not about who signed it. The list [.., main, .., signer] is signed
		// properly, then the main provider's entry is taken out.
		if s.nEP >= 1 && signer.ID != c.main.ID {
			key := base + "|main-absent-signer-listed"
			r.Eval(key, true)
			m := cloneAd(ad)
			m.ExtendedProvider.Providers = append(m.ExtendedProvider.Providers, schema.Provider{ID: signer.ID.String(), Addresses: []string{"/ip4/9.9.9.9/tcp/9"}, Metadata: []byte("publisher-as-provider")})
			var serr error
			if pn, pm := vp.Guard(func() { serr = m.SignWithExtendedProviders(signer.Priv, c.keyFor) }); pn || serr != nil {
				r.Violation("sign:error:signer-listed", key, fmt.Sprint(serr, firstLine(pm)), nil)
			} else if _, err, pn, pm := verify(m); pn || err != nil {
				r.Violation("verify:rejected-own-signature:signer-listed", key, fmt.Sprint(err, firstLine(pm)), nil)
			} else {
				var keep []schema.Provider
				for _, p := range m.ExtendedProvider.Providers {
					if p.ID != m.Provider {
						keep = append(keep, p)
					}
				}
				m.ExtendedProvider.Providers = keep
				if _, err, pn, pm := verify(m); pn {
					r.Violation("verify:panic:main-absent", key, firstLine(pm), nil)
				} else if err == nil {
					r.Violation("verify:accepted-without-main-provider:signer-listed", key, "verification succeeds although the main provider is not among the extended providers (the ad's signer is listed and its entry verifies)", nil)
				}
			}
		}
		// (g) an identity listed twice (the list is a list, not a set): every entry
		// is verified, not only the last one that names an identity. The duplicated
		// entry is appended and the whole ad signed properly; then the EARLIER
		// occurrence is altered.
		if s.nEP >= 1 {
			for di, dupOf := range []int{0, len(ad.ExtendedProvider.Providers) - 1} {
				key := fmt.Sprintf("%s|duplicate-identity|%d", base, di)
				r.Eval(key, true)
				m := cloneAd(ad)
				orig := m.ExtendedProvider.Providers[dupOf]
				dup := schema.Provider{ID: orig.ID, Addresses: append([]string{"/ip4/10.9.8.7/tcp/1"}, orig.Addresses...), Metadata: []byte("second-entry-of-the-same-identity")}
				m.ExtendedProvider.Providers = append(m.ExtendedProvider.Providers, dup)
				var serr error
				if pn, pm := vp.Guard(func() { serr = m.SignWithExtendedProviders(signer.Priv, c.keyFor) }); pn || serr != nil {
					r.Outcome("duplicate-identity-not-signable")
					_ = pm
					continue
				}
				if _, err, pn, pm := verify(m); pn || err != nil {
					r.Outcome("duplicate-identity-rejected-as-a-whole")
					_ = pm
					continue
				}
				for _, alt := range []string{"metadata", "address", "signature"} {
					m2 := cloneAd(m)
					e := &m2.ExtendedProvider.Providers[dupOf]
					switch alt {
					case "metadata":
						e.Metadata = append(append([]byte(nil), e.Metadata...), 0x01)
					case "address":
						e.Addresses = append(append([]string(nil), e.Addresses...), "/ip4/6.6.6.6/tcp/6")
					case "signature":
						e.Signature = append([]byte(nil), e.Signature...)
						e.Signature[len(e.Signature)/2] ^= 0x40
					}
					if _, err, pn, pm := verify(m2); pn {
						r.Violation("verify:panic:duplicate-identity", key, firstLine(pm), nil)
					} else if err == nil {
						r.Violation("verify:accepted-changed-value:earlier-entry-of-a-repeated-identity:"+alt, key, fmt.Sprintf("identity %s is listed twice; the %s of its first entry was changed after signing and the ad still verifies", orig.ID, alt), nil)
					}
				}
			}
		}
		if !deep {
			return
		}
		// (e) every assignment of signing keys to extended-provider entries
		if s.nEP > 0 {
			checkAssignments(r, base, ad, s, c, signer)
		}
		// (d) envelope alterations
		checkEnvelopes(r, base, ad, s, c, signer)
	}

	deepShape := func(s adShape) bool {
		return s.prev && s.entries && s.nAddrs == 2 && s.md && !s.isRm && s.ctxLen == 64 && (s.nEP == 0 || (s.ovr && s.mainPos == min(1, s.nEP-1)))
	}
	for _, kt := range fullKts {
		for _, s := range shapes {
			for _, self := range []bool{true, false} {
				runShape(kt, s, self, deepShape(s))
			}
		}
	}
	for _, kt := range lightKts {
		for _, s := range shapes {
			if !(s.nAddrs == 1 && s.md && s.ctxLen == 1 && s.prev) && !deepShape(s) {
				continue
			}
			for _, self := range []bool{true, false} {
				runShape(kt, s, self, deepShape(s) && (thorough || s.nEP != 2))
			}
		}
	}
	t.Logf("violations: %d", r.Violations())
}

// checkAssignments: every assignment of signing keys to extended-provider
// entries from {named identity, ad signer, unrelated}. Entry signatures are
// produced by signing copies of the ad with the wanted key in the relevant
// role and transplanting the entry signature (the entry payload does not
// depend on who signs the ad).
func checkAssignments(r *vp.Recorder, base string, ad *schema.Advertisement, s adShape, c cast, signer *fixture.Identity) {
	n := len(ad.ExtendedProvider.Providers)
	roles := []string{"named", "ad-signer", "unrelated"}
	keyOf := func(role string, entryID string) *fixture.Identity {
		switch role {
		case "named":
			for _, i := range []*fixture.Identity{c.main, c.x, c.y} {
				if i.ID.String() == entryID {
					return i
				}
			}
			panic("no identity")
		case "ad-signer":
			return signer
		default:
			return c.unrelated
		}
	}
	// entrySig returns the signature of entry i made with key k
	entrySig := func(i int, k *fixture.Identity) []byte {
		cp := cloneAd(ad)
		entryID := cp.ExtendedProvider.Providers[i].ID
		var err error
		if entryID == cp.Provider {
			// the main entry is signed with the key given as the ad key
			err = cp.SignWithExtendedProviders(k.Priv, c.keyFor)
		} else {
			err = cp.SignWithExtendedProviders(signer.Priv, func(id string) (crypto.PrivKey, error) {
				if id == entryID {
					return k.Priv, nil
				}
				return c.keyFor(id)
			})
		}
		if err != nil {
			panic(err)
		}
		return cp.ExtendedProvider.Providers[i].Signature
	}
	total := 1
	for i := 0; i < n; i++ {
		total *= 3
	}
	for a := 0; a < total; a++ {
		assign := make([]string, n)
		x := a
		for i := 0; i < n; i++ {
			assign[i] = roles[x%3]
			x /= 3
		}
		key := fmt.Sprintf("%s|assign=%s", base, strings.Join(assign, ","))
		r.Eval(key, true)
		m := cloneAd(ad)
		wantOK := true
		var bad []string
		for i := 0; i < n; i++ {
			entryID := m.ExtendedProvider.Providers[i].ID
			k := keyOf(assign[i], entryID)
			m.ExtendedProvider.Providers[i].Signature = entrySig(i, k)
			var want *fixture.Identity
			if entryID == m.Provider {
				want = signer // the ad's own signer signs the main provider's entry
			} else {
				want = keyOf("named", entryID)
			}
			if k.ID != want.ID {
				wantOK = false
				kind := "extended"
				if entryID == m.Provider {
					kind = "main"
				}
				bad = append(bad, fmt.Sprintf("%s-entry-by-%s", kind, assign[i]))
			}
		}
		id, err, pn, pm := verify(m)
		switch {
		case pn:
			r.Violation("verify:panic:assignment", key, firstLine(pm), nil)
		case wantOK && (err != nil || id != signer.ID):
			r.Violation("verify:rejected-correct-key-assignment", key, fmt.Sprintf("every entry is signed by the right key but verification fails: %v", err), nil)
		case !wantOK && err == nil:
			r.Outcome("foreign-entry-key-accepted")
			r.Violation("verify:accepted-entry-signed-by-wrong-key:"+bad[0], key, fmt.Sprintf("verification succeeds although extended-provider entries are signed by the wrong key: %v (assignment %v, shape %s)", bad, assign, s), nil)
		default:
			r.Outcome("assignment-ok")
		}
	}
}

func checkEnvelopes(r *vp.Recorder, base string, ad *schema.Advertisement, s adShape, c cast, signer *fixture.Identity) {
	// a second, different ad signed by the same signer, and the same ad signed by another identity
	other := cloneAd(ad)
	other.PreviousID = lnk("previous-of-the-other-ad") // covered by the ad payload and by every entry payload
	if err := other.SignWithExtendedProviders(signer.Priv, c.keyFor); err != nil {
		panic(err)
	}
	foreign := cloneAd(ad)
	if err := foreign.SignWithExtendedProviders(c.unrelated.Priv, c.keyFor); err != nil {
		panic(err)
	}
	type slot struct {
		name string
		get  func(a *schema.Advertisement) *[]byte
	}
	slots := []slot{{"ad", func(a *schema.Advertisement) *[]byte { return &a.Signature }}}
	if ad.ExtendedProvider != nil {
		for i := range ad.ExtendedProvider.Providers {
			i := i
			slots = append(slots, slot{fmt.Sprintf("ep%d", i), func(a *schema.Advertisement) *[]byte { return &a.ExtendedProvider.Providers[i].Signature }})
		}
	}
	for _, sl := range slots {
		orig := *sl.get(ad)
		origEnv, err := record.UnmarshalEnvelope(orig)
		if err != nil {
			panic(err)
		}
		for bit := 0; bit < len(orig)*8; bit++ {
			key := fmt.Sprintf("%s|flip=%s:%d", base, sl.name, bit)
			r.Eval(key, true)
			m := cloneAd(ad)
			b := *sl.get(m)
			b[bit/8] ^= 1 << (bit % 8)
			if e2, err := record.UnmarshalEnvelope(b); err == nil && e2.Equal(origEnv) {
				r.Count("flips_without_semantic_change", 1)
				continue
			}
			if _, err, pn, pm := verify(m); pn {
				r.Violation("verify:panic:envelope-flip", key, firstLine(pm), nil)
			} else if err == nil {
				r.Violation("verify:accepted-altered-envelope:bit-flip:"+sl.name, key, fmt.Sprintf("verification succeeds after flipping bit %d of the %s signature envelope", bit, sl.name), nil)
			}
		}
		var pe, po, pf recpb.Envelope
		proto.Unmarshal(orig, &pe)
		proto.Unmarshal(*sl.get(other), &po)
		proto.Unmarshal(*sl.get(foreign), &pf)
		alts := []struct {
			name string
			mod  func(e *recpb.Envelope)
		}{
			{"payload-of-other-ad", func(e *recpb.Envelope) { e.Payload = po.Payload }},
			{"signature-of-other-ad", func(e *recpb.Envelope) { e.Signature = po.Signature }},
			{"payload-type-changed", func(e *recpb.Envelope) { e.PayloadType = append(append([]byte(nil), e.PayloadType...), 'x') }},
			{"signature-empty", func(e *recpb.Envelope) { e.Signature = nil }},
			{"signature-truncated", func(e *recpb.Envelope) { e.Signature = e.Signature[:len(e.Signature)-1] }},
			{"key-of-unrelated-identity", func(e *recpb.Envelope) {
				pk, _ := crypto.PublicKeyToProto(c.unrelated.Priv.GetPublic())
				e.PublicKey = pk
			}},
			{"payload-byte-changed", func(e *recpb.Envelope) {
				p := append([]byte(nil), e.Payload...)
				p[len(p)-1] ^= 1
				e.Payload = p
			}},
		}
		for _, al := range alts {
			key := fmt.Sprintf("%s|field=%s:%s", base, sl.name, al.name)
			r.Eval(key, true)
			e := proto.Clone(&pe).(*recpb.Envelope)
			al.mod(e)
			b, err := proto.Marshal(e)
			if err != nil {
				panic(err)
			}
			m := cloneAd(ad)
			*sl.get(m) = b
			if _, err, pn, pm := verify(m); pn {
				r.Violation("verify:panic:envelope-field", key, firstLine(pm), nil)
			} else if err == nil {
				r.Violation("verify:accepted-altered-envelope:"+al.name+":"+sl.name, key, "verification succeeds after "+al.name+" in the "+sl.name+" envelope", nil)
			}
		}
		// the whole envelope replaced by the one made by an unrelated identity
		// for the same ad: for the ad slot that is a valid signature by a different
		// signer (allowed: the caller checks the signer); the returned ID must be that signer.
		key := fmt.Sprintf("%s|resigned=%s", base, sl.name)
		r.Eval(key, true)
		m := cloneAd(ad)
		*sl.get(m) = append([]byte(nil), (*sl.get(foreign))...)
		id, err, pn, pm := verify(m)
		if pn {
			r.Violation("verify:panic:resigned", key, firstLine(pm), nil)
		} else if sl.name == "ad" {
			// ad re-signed by another identity: main entry (if any) is still signed by the old signer
			if s.nEP > 0 {
				if err == nil {
					r.Violation("verify:accepted-entry-signed-by-wrong-key:main-entry-by-previous-signer", key, "ad envelope replaced by another identity's while the main provider's entry is still signed by the previous signer, yet verification succeeds", nil)
				}
			} else if err != nil || id != c.unrelated.ID {
				r.Violation("verify:wrong-signer-id", key, fmt.Sprintf("ad signed by %s: verification returned id=%s err=%v", c.unrelated.ID, id, err), nil)
			}
		}
	}
}
