// C06: the provider cache converges to the freshest record across sources.
// Engine H: every operation sequence up to a depth, each on a fresh real
// ProviderCache inside a synctest bubble (virtual time for the TTL), compared
// after every step with a reference model written from the property statement.
package c06

import (
	"context"
	"encoding/json"
	"errors"
	"fmt"
	"net/http"
	"sort"
	"strings"
	"sync"
	"testing"
	"testing/synctest"
	"time"

	"github.com/ipni/go-libipni/find/model"
	"github.com/ipni/go-libipni/pcache"
	"github.com/libp2p/go-libp2p/core/peer"

	"verifharness/fixture"
	"verifharness/memnet"
	"verifharness/vp"
)

// ttl is the time-to-live the caches are built with (a pass of TestCheck sets
// it to zero: "no retention", which the option accepts)
var ttl = 10 * time.Minute

var (
	pP = fixture.Key("ed25519", 0).ID
	pQ = fixture.Key("ed25519", 1).ID
	pU = fixture.Key("ed25519", 2).ID // never reported by any source
)

// versions: 0 = absent, 1 = record without advertisement time, 2..4 = t1<t2<t3
var verTime = verTimeUniform

// Two renderings of the same three instants t1 < t2 < t3. In the uniform one
// the strings sort like the instants. In the mixed one (a zone offset, UTC,
// fractional seconds: all of them what an indexer may legitimately report) the
// strings sort in exactly the opposite order: 10:00Z written as 12:00+02:00,
// 11:00Z, and 11:00:00.5Z ('.' sorts before 'Z').
var (
	verTimeUniform = []string{"", "", "2024-01-01T00:00:01Z", "2024-01-01T00:00:02Z", "2024-01-01T00:00:03Z"}
	verTimeMixed   = []string{"", "", "2024-01-01T12:00:00+02:00", "2024-01-01T11:00:00Z", "2024-01-01T11:00:00.5Z"}
)

func verOf(pi *model.ProviderInfo) int {
	if pi == nil {
		return 0
	}
	for v := 1; v < len(verTime); v++ {
		if pi.LastAdvertisementTime == verTime[v] {
			return v
		}
	}
	return -1
}

type source struct {
	mu        sync.Mutex
	idx       int
	recs      map[peer.ID]int // version per provider (0 = absent)
	fail      bool
	fetches   int
	fetchAlls int
	// inFetchAll, when set, runs inside the next FetchAll (cancellation, overlapping refresh)
	inFetchAll func()
	// cancelling: the hook of the next FetchAll cancels the refresh's context
	cancelling bool
}

func (s *source) rec(pid peer.ID, v int) *model.ProviderInfo {
	return &model.ProviderInfo{AddrInfo: peer.AddrInfo{ID: pid}, LastAdvertisementTime: verTime[v], LastError: fmt.Sprintf("from-source-%d", s.idx)}
}

func (s *source) Fetch(ctx context.Context, pid peer.ID) (*model.ProviderInfo, error) {
	s.mu.Lock()
	defer s.mu.Unlock()
	s.fetches++
	if s.fail {
		return nil, errors.New("source down")
	}
	if v := s.recs[pid]; v != 0 {
		return s.rec(pid, v), nil
	}
	return nil, nil
}

func (s *source) FetchAll(ctx context.Context) ([]*model.ProviderInfo, error) {
	s.mu.Lock()
	s.fetchAlls++
	hook := s.inFetchAll
	s.inFetchAll = nil
	fail := s.fail
	var out []*model.ProviderInfo
	for _, pid := range []peer.ID{pP, pQ} {
		if v := s.recs[pid]; v != 0 {
			out = append(out, s.rec(pid, v))
		}
	}
	if s.idx == 0 {
		// providers that are simply always there (the first source lists
		// them at every refresh): they make the main map larger than the
		// few providers the sequences are about
		for i := 0; i < fillers; i++ {
			out = append(out, s.rec(fixture.Key("ed25519", 200+i).ID, 1))
		}
	}
	s.mu.Unlock()
	if hook != nil {
		hook()
	}
	if ctx.Err() != nil {
		return nil, ctx.Err()
	}
	if fail {
		return nil, errors.New("source down")
	}
	return out, nil
}

func (s *source) String() string { return fmt.Sprintf("fake-%d", s.idx) }

// ---- alphabet

type op struct {
	name string
	kind string // set, fail, refresh, cancel, overlap, get, list, advance
	src  int
	pid  peer.ID
	ver  int
	dur  time.Duration
}

func alphabet(thorough bool) []op {
	ops := []op{
		{name: "S0.P=t1", kind: "set", src: 0, pid: pP, ver: 2},
		{name: "S0.P=t2", kind: "set", src: 0, pid: pP, ver: 3},
		{name: "S1.P=t3", kind: "set", src: 1, pid: pP, ver: 4},
		{name: "S1.P=t1", kind: "set", src: 1, pid: pP, ver: 2},
		{name: "S0.P=gone", kind: "set", src: 0, pid: pP, ver: 0},
		{name: "S1.P=gone", kind: "set", src: 1, pid: pP, ver: 0},
		{name: "S0.Q=t1", kind: "set", src: 0, pid: pQ, ver: 2},
		{name: "Refresh", kind: "refresh"},
		{name: "RefreshCancelled@1", kind: "cancel", src: 1},
		{name: "Get(P)", kind: "get", pid: pP},
		{name: "Get(Q)", kind: "get", pid: pQ},
		{name: "advance(ttl+)", kind: "advance", dur: ttl + time.Second},
		// a record without an advertisement time ("missing time treated as oldest")
		{name: "S0.P=notime", kind: "set", src: 0, pid: pP, ver: 1},
	}
	if thorough {
		ops = append(ops,
			op{name: "S0.Q=gone", kind: "set", src: 0, pid: pQ, ver: 0},
			op{name: "S0.fail", kind: "fail", src: 0},
			op{name: "S1.fail", kind: "fail", src: 1},
			op{name: "RefreshCancelled@0", kind: "cancel", src: 0},
			op{name: "RefreshOverlapped", kind: "overlap"},
			op{name: "Get(U)", kind: "get", pid: pU},
			op{name: "List", kind: "list"},
			op{name: "advance(ttl/2)", kind: "advance", dur: ttl / 2},
		)
	}
	return ops
}

// httpFront serves a fake source the way an indexer serves its providers.
func httpFront(src *source) http.Handler {
	return http.HandlerFunc(func(w http.ResponseWriter, r *http.Request) {
		writeJSON := func(v any) {
			b, err := json.Marshal(v)
			if err != nil {
				panic(err)
			}
			w.Header().Set("Content-Type", "application/json")
			w.Write(b)
		}
		switch {
		case r.URL.Path == "/providers":
			src.mu.Lock()
			cancelling := src.cancelling
			src.cancelling = false
			src.mu.Unlock()
			infos, err := src.FetchAll(r.Context())
			if cancelling {
				// the caller of the refresh has cancelled it while this request
				// was being served: it is the client's turn to notice (an answer
				// that races with the cancellation would make the refresh
				// complete or not by chance)
				<-r.Context().Done()
				return
			}
			if err != nil {
				http.Error(w, err.Error(), http.StatusInternalServerError)
				return
			}
			if infos == nil {
				infos = []*model.ProviderInfo{}
			}
			writeJSON(infos)
		case strings.HasPrefix(r.URL.Path, "/providers/"):
			pid, err := peer.Decode(strings.TrimPrefix(r.URL.Path, "/providers/"))
			if err != nil {
				http.Error(w, err.Error(), http.StatusBadRequest)
				return
			}
			pi, err := src.Fetch(r.Context(), pid)
			switch {
			case err != nil:
				http.Error(w, err.Error(), http.StatusInternalServerError)
			case pi == nil:
				http.Error(w, "no such provider", http.StatusNotFound)
			default:
				writeJSON(pi)
			}
		default:
			http.Error(w, "unknown path", http.StatusBadRequest)
		}
	})
}

// nSources and preload configure the cache of runSequence (default: two
// sources, no preload); the extra passes of TestCheck change them.
var (
	nSources = 2
	preload  = false
	// refreshInterval: 0 (automatic refresh off) or an interval far beyond the
	// virtual time any sequence spans, so that no automatic refresh ever falls
	// due and everything has to be exactly as with the interval off
	refreshInterval = time.Duration(0)
	// viaHTTP: the cache reads its sources through the library's HTTP source
	// (WithClient + WithSourceURL) instead of being handed them directly
	viaHTTP = false
	// behindRedirect (with viaHTTP): the sources are reached through a
	// redirecting front host and made with NewHTTPSource(url, nil)
	behindRedirect = false
	// fillers: further providers that the first source always lists
	fillers = 0
	// observeReadOnly: after every operation of a sequence the cache's
	// read-only observers (Len, List) are called; what they return is not
	// judged (Len's count is not part of the property), but a read-only call
	// must leave everything that follows as it would have been without it
	observeReadOnly = false
)

// alphabet3: the third source's own operations and a reduced set of the
// others, for the pass with three sources.
func alphabet3() []op {
	return []op{
		{name: "S0.P=t1", kind: "set", src: 0, pid: pP, ver: 2},
		{name: "S1.P=t2", kind: "set", src: 1, pid: pP, ver: 3},
		{name: "S2.P=t3", kind: "set", src: 2, pid: pP, ver: 4},
		{name: "S2.P=t1", kind: "set", src: 2, pid: pP, ver: 2},
		{name: "S2.P=gone", kind: "set", src: 2, pid: pP, ver: 0},
		{name: "S1.P=gone", kind: "set", src: 1, pid: pP, ver: 0},
		{name: "S2.Q=t1", kind: "set", src: 2, pid: pQ, ver: 2},
		{name: "S2.fail", kind: "fail", src: 2},
		{name: "Refresh", kind: "refresh"},
		{name: "RefreshCancelled@2", kind: "cancel", src: 2},
		{name: "RefreshCancelled@1", kind: "cancel", src: 1},
		{name: "Get(P)", kind: "get", pid: pP},
		{name: "Get(Q)", kind: "get", pid: pQ},
		{name: "advance(ttl+)", kind: "advance", dur: ttl + time.Second},
	}
}

// ---- reference model

type pstate struct {
	best         int       // freshest version ever handed to the cache
	unreportedAt time.Time // time of the first successful refresh that did not report it (zero = reported at the last one)
	everReported bool
	failureSince bool // some source failed / refresh was cut in a refresh since it was last reported
	negative     bool // known-absent entry expected
	negAt        time.Time
}

type refModel struct {
	st map[peer.ID]*pstate
}

func (m *refModel) get(pid peer.ID) *pstate {
	if m.st[pid] == nil {
		m.st[pid] = &pstate{}
	}
	return m.st[pid]
}

func (m *refModel) seen(pid peer.ID, v int) {
	if v > m.get(pid).best {
		m.get(pid).best = v
	}
}

func seqName(seq []op) string {
	l := make([]string, len(seq))
	for i, o := range seq {
		l[i] = o.name
	}
	return strings.Join(l, "; ")
}

type violation struct{ sig, msg string }

// runSequence executes seq on a fresh cache and checks it against the model.
func runSequence(t *testing.T, seq []op) (v *violation) {
	defer func() {
		if e := recover(); e != nil {
			s := fmt.Sprint(e)
			if strings.Contains(s, "blocked goroutines remain") || strings.Contains(s, "deadlock") {
				v = &violation{"goroutine-left-blocked", s}
				return
			}
			panic(e)
		}
	}()
	synctest.Test(t, func(t *testing.T) {
		var srcs []*source
		var psrcs []pcache.ProviderSource
		for i := 0; i < nSources; i++ {
			srcs = append(srcs, &source{idx: i, recs: map[peer.ID]int{}})
			psrcs = append(psrcs, srcs[i])
		}
		// with preload the constructor itself refreshes once; the sources are
		// still empty then, so the reference model has nothing to record
		popts := []pcache.Option{pcache.WithTTL(ttl), pcache.WithRefreshInterval(refreshInterval), pcache.WithPreload(preload)}
		if viaHTTP {
			// the library's own HTTP source in front of every fake source: an
			// in-memory server per source answers /providers and
			// /providers/<id> from the fake's state (500 while it is failing,
			// 404 for a provider it does not have)
			n := memnet.New()
			var urls []string
			for i, src := range srcs {
				host := fmt.Sprintf("src%d.test:80", i)
				stop := n.Serve(host, httpFront(src))
				defer stop()
				urls = append(urls, "http://"+host)
			}
			if behindRedirect {
				// every source is named by the URL of a front host that answers
				// with a temporary redirect to the host that has the data, and
				// is made by the caller with NewHTTPSource and no client of its
				// own (the process-wide default client, here over the in-memory
				// network)
				restore := n.InstallDefault()
				defer restore()
				var hsrcs []pcache.ProviderSource
				for i := range srcs {
					target := urls[i]
					front := fmt.Sprintf("front%d.test:80", i)
					stop := n.Serve(front, http.HandlerFunc(func(w http.ResponseWriter, req *http.Request) {
						http.Redirect(w, req, target+req.URL.Path, http.StatusTemporaryRedirect)
					}))
					defer stop()
					hs, err := pcache.NewHTTPSource("http://"+front, nil)
					if err != nil {
						panic(err)
					}
					hsrcs = append(hsrcs, hs)
				}
				popts = append(popts, pcache.WithSource(hsrcs...))
			} else {
				popts = append([]pcache.Option{pcache.WithClient(n.Client()), pcache.WithSourceURL(urls...)}, popts...)
			}
		} else {
			popts = append(popts, pcache.WithSource(psrcs...))
		}
		pc, err := pcache.New(popts...)
		if err != nil {
			panic(err)
		}
		m := &refModel{st: map[peer.ID]*pstate{}}
		fail := func(sig, format string, a ...any) {
			if v == nil {
				v = &violation{sig, fmt.Sprintf(format, a...)}
			}
		}
		listVer := func(pid peer.ID) int {
			for _, pi := range pc.List() {
				if pi != nil && pi.AddrInfo.ID == pid {
					return verOf(pi)
				}
			}
			return 0
		}
		ctx := context.Background()
		// doGet: a lookup of pid, judged against the reference model (also used
		// after a refresh for providers that have just gone)
		doGet := func(pid peer.ID, at string) {
			fetchCount := func() (n int) {
				for _, s := range srcs {
					n += s.fetches
				}
				return n
			}
			before := fetchCount()
			wasListed := listVer(pid)
			st := m.get(pid)
			pi, err := pc.Get(ctx, pid)
			if err != nil {
				fail("get-error", "%s: Get failed: %v", at, err)
				return
			}
			got := verOf(pi)
			nf := fetchCount() - before
			// what a miss-fetch hands to the cache
			if nf > 0 {
				for _, s := range srcs {
					if !s.fail {
						m.seen(pid, s.recs[pid])
					}
				}
			}
			// a provider visible in the listing is served from the cache
			if wasListed != 0 {
				if nf != 0 {
					fail("cached-provider-queried-sources", "%s: Get of a cached provider made %d Fetch calls", at, nf)
				}
				if got != wasListed {
					fail("get-and-list-disagree", "%s: Get returned version %d, List had %d", at, got, wasListed)
				}
			} else if st.negative {
				if nf != 0 {
					fail("negative-entry-not-remembered", "%s: a provider already found absent was looked up at the sources again (%d Fetch calls)", at, nf)
				}
			}
			if got != 0 {
				if lv := listVer(pid); lv != got {
					fail("get-and-list-disagree", "%s: Get returned version %d but List then has %d", at, got, lv)
				}
			} else if nf > 0 {
				st.negative, st.negAt = true, time.Now()
			}
			// the other lookups of the same moment agree with Get: a result
			// expansion for a provider Get returns (it is cached now: no
			// source is asked) leads with that provider, one for a provider
			// Get reported absent without asking the sources is empty and
			// asks nobody either (Len is not compared: it counts the entries
			// of both maps, remembered-absent ones included, and the property
			// says nothing about it)
			if got != 0 || nf == 0 {
				b2 := fetchCount()
				res, rerr := pc.GetResults(ctx, pid, []byte("ctx"), []byte("md"))
				switch {
				case rerr != nil:
					fail("get-results-error", "%s: GetResults failed: %v", at, rerr)
				case fetchCount() != b2:
					fail("get-results-queried-sources", "%s: Get answered from the cache (version %d) and GetResults then made %d Fetch calls", at, got, fetchCount()-b2)
				case got != 0 && (len(res) == 0 || res[0].Provider == nil || res[0].Provider.ID != pid):
					fail("get-and-get-results-disagree", "%s: Get returned version %d, GetResults %d results", at, got, len(res))
				case got == 0 && len(res) != 0:
					fail("get-and-get-results-disagree", "%s: Get reported the provider absent, GetResults returned %d results", at, len(res))
				}
			}

		}
		for i, o := range seq {
			if v != nil {
				return
			}
			if observeReadOnly && i > 0 {
				pc.Len()
				pc.List()
			}
			at := fmt.Sprintf("after [%s]", seqName(seq[:i+1]))
			switch o.kind {
			case "set":
				srcs[o.src].mu.Lock()
				srcs[o.src].recs[o.pid] = o.ver
				srcs[o.src].mu.Unlock()
			case "fail":
				srcs[o.src].mu.Lock()
				srcs[o.src].fail = !srcs[o.src].fail
				srcs[o.src].mu.Unlock()
			case "advance":
				time.Sleep(o.dur)
			case "list":
				pc.List()
			case "get":
				doGet(o.pid, at)
			case "refresh", "cancel", "overlap":
				cctx, cancel := context.WithCancel(ctx)
				cut := -1
				var innerDone chan error
				switch o.kind {
				case "cancel":
					cut = o.src
					srcs[o.src].mu.Lock()
					srcs[o.src].inFetchAll = cancel
					srcs[o.src].cancelling = true
					srcs[o.src].mu.Unlock()
				case "overlap":
					innerDone = make(chan error, 1)
					srcs[0].mu.Lock()
					srcs[0].inFetchAll = func() {
						go func() { innerDone <- pc.Refresh(ctx) }()
						synctest.Wait() // the second refresh is now waiting for the first
					}
					srcs[0].mu.Unlock()
				}
				err := pc.Refresh(cctx)
				cancel()
				if innerDone != nil {
					synctest.Wait()
					select {
					case ierr := <-innerDone:
						if ierr != nil {
							fail("overlapped-refresh-error", "%s: the overlapping Refresh returned %v", at, ierr)
						}
					default:
						fail("overlapped-refresh-blocked", "%s: the overlapping Refresh did not return", at)
					}
				}
				now := time.Now()
				// what the cache was handed, in source order, up to the cut
				responded := 0
				reported := map[peer.ID]bool{}
				anyFail := false
				for si, s := range srcs {
					if cut >= 0 && si >= cut {
						break
					}
					if s.fail {
						anyFail = true
						continue
					}
					responded++
					for pid, ver := range s.recs {
						if ver != 0 {
							m.seen(pid, ver)
							reported[pid] = true
						}
					}
				}
				if cut >= 0 {
					if err == nil {
						fail("cancelled-refresh-returned-nil", "%s: a refresh whose context was cancelled during source %d returned nil", at, cut)
					}
					for _, st := range m.st {
						st.failureSince = true
					}
					continue // nothing is claimed right after a refresh that did not complete
				}
				if err != nil {
					fail("refresh-error", "%s: Refresh returned %v", at, err)
					return
				}
				// (1) every provider reported by a responding source is served with the freshest record seen
				for pid := range reported {
					st := m.get(pid)
					lv := listVer(pid)
					if lv != st.best {
						kind := "stale-record-after-successful-refresh"
						if lv == 0 {
							kind = "reported-provider-missing-after-successful-refresh"
						}
						fail(kind, "%s: provider %s is reported by a responding source, freshest version handed to the cache is %d, but List shows %d", at, pname(pid), st.best, lv)
					}
					pi, gerr := pc.Get(ctx, pid)
					if gerr != nil || verOf(pi) != st.best {
						kind := "stale-record-after-successful-refresh"
						if pi == nil {
							kind = "reported-provider-missing-after-successful-refresh"
						}
						fail(kind, "%s: provider %s: Get returns version %d (err %v), freshest handed to the cache is %d", at, pname(pid), verOf(pi), gerr, st.best)
					}
					st.everReported, st.unreportedAt, st.failureSince, st.negative = true, time.Time{}, false, false
				}
				// (2) providers no source reports any longer
				for _, pid := range []peer.ID{pP, pQ} {
					if reported[pid] {
						continue
					}
					st := m.get(pid)
					if anyFail {
						st.failureSince = true
					}
					if !st.everReported {
						continue
					}
					lv := listVer(pid)
					if st.unreportedAt.IsZero() {
						st.unreportedAt = now
						if lv == 0 {
							fail("provider-dropped-before-ttl", "%s: %s disappeared at the first refresh that did not report it", at, pname(pid))
						}
						continue
					}
					if !now.After(st.unreportedAt.Add(ttl)) {
						if lv == 0 {
							fail("provider-dropped-before-ttl", "%s: %s disappeared %v after it was first unreported (ttl %v)", at, pname(pid), now.Sub(st.unreportedAt), ttl)
						}
					} else if !st.failureSince {
						if lv != 0 {
							fail("provider-still-visible-after-ttl", "%s: %s is still listed %v after it was first unreported (ttl %v)", at, pname(pid), now.Sub(st.unreportedAt), ttl)
						} else {
							st.everReported, st.unreportedAt = false, time.Time{}
							st.best = 0
							// gone from the listing: gone for every lookup too
							doGet(pid, at+" (lookup of the provider that has just gone)")
						}
					}
				}
				// negative entries are dropped by a refresh past their ttl
				for _, st := range m.st {
					if st.negative && now.After(st.negAt.Add(ttl)) {
						st.negative = false
					}
				}
			}
		}
	})
	return v
}

func pname(pid peer.ID) string {
	switch pid {
	case pP:
		return "P"
	case pQ:
		return "Q"
	}
	return "U"
}

var keyPrefix = ""

func mustParse(s string) time.Time {
	t, err := time.Parse(time.RFC3339, s)
	if err != nil {
		panic(err)
	}
	return t
}

func TestCheck(t *testing.T) {
	r := vp.New("C06", "model_checking",
		"every sequence of <= depth operations over the alphabet {per-source content changes of provider P (appear, advance, regress on the other source, disappear, without time) and Q, source failure toggles, Refresh, Refresh cancelled while source 0 / source 1 is being read, Refresh overlapped by a second Refresh issued inside a source call, Get of P / Q / a never-reported provider, List, clock advances of ttl/2 and ttl+1s}, each run on a fresh real ProviderCache with two fake sources inside a synctest bubble (virtual clock), compared after every step with a reference model (freshest record ever handed to the cache per provider, first-unreported time, negative entries, Fetch call counts); plus a lifecycle layer of macro steps (change what the sources report for one provider, let 0 / ttl/2 / ttl+1s pass, Refresh): every sequence of 6 (quick) / 7 (thorough) macro steps with one source and of 4 / 5 with two sources, which reaches appear - disappear - reappear - expire histories of 15-25 flat operations; and the flat sequences once more, one operation shallower, with the three advertisement times rendered with a zone offset, in UTC and with fractional seconds, so that the strings sort in the opposite order of the instants; the same depth once more with three sources (alphabet: the third source's content changes and failure, refreshes cancelled while the second / the third source is being read, Get, clock advance) and with the two-source alphabet on a cache constructed with preload, and on one with the automatic-refresh interval set to a value that never falls due (everything must be as with the interval off), and with every source behind the library's own HTTP source (pcache.WithSourceURL; an in-memory server per source), the last three also with the lifecycle layer one / two macro steps shallower (appear - disappear - expire histories). states = distinct sequences; transitions = operations executed; traces = sequences executed on the real cache. Every Get is followed by a GetResults of the same provider, which has to agree with it (a result list led by the provider, or nothing) without asking a source; providers that have just gone from the listing are looked up too. The HTTP pass is repeated with every source behind a redirecting front host and made with NewHTTPSource and the default client. One pass runs the alphabet at full depth on caches with a time-to-live of zero. A last pass repeats the alphabet and the lifecycles with three further providers that the first source always lists (the update map is then not merged at every refresh), and once more with the read-only observers Len and List called between the operations of every sequence (their results are not judged; what follows must be as without them).",
		"reference model is the oracle (trusted; written from the statement); nothing is asserted right after a refresh that returned an error, only after the next successful one",
		"expiry is asserted only in histories in which every source responded in every refresh since the provider was last reported",
		"records are compared by advertisement time, not identity (equal times are not ordered by the statement)",
	)
	defer func() {
		if err := r.Finish(); err != nil {
			t.Fatal(err)
		}
	}()
	thorough := vp.Thorough()
	ops := alphabet(thorough)
	depth := 5
	if thorough {
		depth = 5
	}
	r.Bounds(map[string]any{"alphabet": len(ops), "depth": depth})
	sorted := false
	_ = sort.Strings
	_ = sorted
	var rec func(seq []op)
	rec = func(seq []op) {
		if r.OverBudget() {
			return
		}
		if len(seq) > 0 {
			key := keyPrefix + "seq|" + seqName(seq)
			// a sequence is worth running only if it ends in an observing operation
			last := seq[len(seq)-1].kind
			if (last == "refresh" || last == "get" || last == "overlap" || last == "cancel" || last == "list") && r.Mine(key) {
				nRef := 0
				for _, o := range seq {
					if o.kind == "refresh" || o.kind == "cancel" || o.kind == "overlap" {
						nRef++
					}
				}
				r.Eval(key, nRef >= 1 && len(seq) >= 3)
				r.Trace(1)
				r.Transition(int64(len(seq)))
				r.State(key)
				if v := runSequence(t, seq); v != nil {
					r.Outcome("violation:" + v.sig)
					cancelled := false
					for _, o := range seq {
						if o.kind == "cancel" {
							cancelled = true
						}
					}
					sig := v.sig
					if cancelled {
						sig += ":after-cancelled-refresh"
					}
					r.Violation(sig, key, v.msg, map[string]any{"sequence": seqName(seq)})
				} else {
					r.Outcome("agrees")
					if len(seq) == depth && nRef >= 2 {
						r.Sample(map[string]any{"sequence": seqName(seq)})
					}
				}
			}
		}
		if len(seq) == depth {
			return
		}
		for _, o := range ops {
			rec(append(seq[:len(seq):len(seq)], o))
		}
	}
	rec(nil)
	lifecycle(t, r, thorough, 0)
	// second pass, one operation shallower, with the mixed rendering of the
	// advertisement times ("most recent" is about the instant, not the string)
	verTime = verTimeMixed
	for i := 2; i <= 4; i++ {
		a, errA := time.Parse(time.RFC3339, verTimeUniform[i])
		b, errB := time.Parse(time.RFC3339, verTimeMixed[i])
		if errA != nil || errB != nil || (i > 2 && !mustParse(verTimeMixed[i]).After(mustParse(verTimeMixed[i-1]))) {
			panic(fmt.Sprint("time tables inconsistent: ", a, b, errA, errB))
		}
	}
	depth--
	keyPrefix = "mixed-times|"
	rec(nil)
	verTime, keyPrefix = verTimeUniform, ""
	// third and fourth pass: three sources (the third source's own operations,
	// refreshes cancelled while the second / third source is being read), and
	// the default two-source alphabet on a cache constructed with preload
	saveOps := ops
	ops, nSources, keyPrefix = alphabet3(), 3, "three-sources|"
	rec(nil)
	ops, nSources, preload, keyPrefix = saveOps, 2, true, "preload|"
	rec(nil)
	lifecycle(t, r, thorough, 1)
	// fifth pass: the automatic-refresh interval set (to a value that never
	// falls due within a sequence, far above the time-to-live)
	preload, refreshInterval, keyPrefix = false, 100000*time.Hour, "interval-set|"
	rec(nil)
	lifecycle(t, r, thorough, 1)
	// sixth pass: the sources behind the library's own HTTP source
	preload, refreshInterval, viaHTTP, keyPrefix = false, 0, true, "http-sources|"
	rec(nil)
	lifecycle(t, r, thorough, 2)
	// the same with every source behind a redirecting front host, made by the
	// caller with NewHTTPSource and the default client
	behindRedirect, keyPrefix = true, "http-sources-behind-a-redirect|"
	rec(nil)
	behindRedirect = false
	// a time-to-live of zero (accepted by the option): a provider that is no
	// longer reported goes at the next refresh at which any time has passed;
	// everything else is as with any other time-to-live
	ttl, keyPrefix = 0, "ttl-zero|"
	depth++
	rec(nil)
	depth--
	lifecycle(t, r, thorough, 1)
	ttl = 10 * time.Minute
	// seventh pass: three further providers that the first source always
	// lists, so that one or two changed providers do not make the cache merge
	// its update map into the main map (removal markers and updates stay in
	// the update map across refreshes)
	viaHTTP, fillers, keyPrefix = false, 3, "three-further-providers|"
	rec(nil)
	lifecycle(t, r, thorough, 1)
	fillers = 0
	// eighth pass: the read-only observers Len and List called between the
	// operations of every sequence
	observeReadOnly, keyPrefix = true, "observed-between-operations|"
	depth++ // at the depth of the first pass
	rec(nil)
	depth--
	lifecycle(t, r, thorough, 2)
	observeReadOnly = false
	nSources, preload, refreshInterval, viaHTTP, keyPrefix = 2, false, 0, false, ""
	t.Logf("violations: %d", r.Violations())
}

// lifecycle: the cache learns about its sources only at a refresh, so long
// appear / disappear / reappear / expire histories are reached with macro
// steps "change what the sources report for P, let time pass, Refresh" at a
// depth the flat alphabet cannot afford. One and two sources.
func lifecycle(t *testing.T, r *vp.Recorder, thorough bool, shallower int) {
	type macro struct {
		name   string
		s0, s1 int // version to set at source 0 / 1; -1 = leave as is
		dur    time.Duration
	}
	var one, two []macro
	for _, v := range []struct {
		n string
		v int
	}{{"t1", 2}, {"t2", 3}, {"gone", 0}} {
		for _, d := range []struct {
			n string
			d time.Duration
		}{{"", 0}, {"+ttl/2", ttl / 2}, {"+ttl+", ttl + time.Second}} {
			one = append(one, macro{"S0.P=" + v.n + d.n, v.v, -1, d.d})
		}
	}
	for _, a := range []struct {
		n string
		v int
	}{{"S0.P=t1", 2}, {"S0.P=gone", 0}, {"S0.P=same", -1}} {
		for _, b := range []struct {
			n string
			v int
		}{{"S1.P=t2", 3}, {"S1.P=gone", 0}, {"S1.P=same", -1}} {
			for _, d := range []struct {
				n string
				d time.Duration
			}{{"", 0}, {"+ttl+", ttl + time.Second}} {
				if a.v == -1 && b.v == -1 && d.d == 0 {
					continue
				}
				two = append(two, macro{a.n + "," + b.n + d.n, a.v, b.v, d.d})
			}
		}
	}
	d1, d2 := 6, 4
	if thorough {
		d1, d2 = 7, 5
	}
	d1, d2 = d1-shallower, d2-shallower
	run := func(layer string, kinds []macro, depth int) {
		var rec func(seq []int)
		rec = func(seq []int) {
			if r.OverBudget() {
				return
			}
			if len(seq) == depth {
				var flat []op
				var names []string
				for _, i := range seq {
					m := kinds[i]
					names = append(names, m.name)
					if m.s0 >= 0 {
						flat = append(flat, op{name: fmt.Sprintf("S0.P=v%d", m.s0), kind: "set", src: 0, pid: pP, ver: m.s0})
					}
					if m.s1 >= 0 {
						flat = append(flat, op{name: fmt.Sprintf("S1.P=v%d", m.s1), kind: "set", src: 1, pid: pP, ver: m.s1})
					}
					if m.dur > 0 {
						flat = append(flat, op{name: "advance(" + m.dur.String() + ")", kind: "advance", dur: m.dur})
					}
					flat = append(flat, op{name: "Refresh", kind: "refresh"})
				}
				key := keyPrefix + "life|" + layer + "|" + strings.Join(names, " ; ")
				if !r.Mine(key) {
					return
				}
				r.Eval(key, true)
				r.Trace(1)
				r.Transition(int64(len(flat)))
				r.State(key)
				if v := runSequence(t, flat); v != nil {
					r.Outcome("violation:" + v.sig)
					r.Violation(v.sig+":lifecycle", key, fmt.Sprintf("lifecycle [%s]: %s", strings.Join(names, " ; "), v.msg), map[string]any{"steps": names})
				} else {
					r.Outcome("lifecycle-agrees")
					r.Sample(map[string]any{"lifecycle": names})
				}
				return
			}
			for i := range kinds {
				rec(append(seq[:len(seq):len(seq)], i))
			}
		}
		rec(nil)
	}
	run("one-source", one, d1)
	run("two-sources", two, d2)
}
