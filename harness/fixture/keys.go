// Package fixture holds shared test data builders: identities of every key
// type, CIDs, multihashes.
package fixture

import (
	"crypto/sha256"
	"encoding/binary"
	"fmt"
	"io"
	"os"
	"sync"

	"github.com/ipfs/go-cid"
	"github.com/libp2p/go-libp2p/core/crypto"
	"github.com/libp2p/go-libp2p/core/peer"
	"github.com/multiformats/go-multihash"
)

// KeyTypes lists every key type libp2p supports, by harness label.
var KeyTypes = []string{"ed25519", "secp256k1", "ecdsa", "rsa"}

// Identity is a key pair with its peer ID.
type Identity struct {
	Label string
	Priv  crypto.PrivKey
	ID    peer.ID
}

// detReader is a deterministic byte stream derived from a label and
// VERIF_SEED, so that Ed25519 and Secp256k1 identities are reproducible and
// differ between seeds.
type detReader struct {
	seed []byte
	ctr  uint64
	buf  []byte
}

func (d *detReader) Read(p []byte) (int, error) {
	n := 0
	for n < len(p) {
		if len(d.buf) == 0 {
			var c [8]byte
			binary.LittleEndian.PutUint64(c[:], d.ctr)
			d.ctr++
			h := sha256.Sum256(append(append([]byte{}, d.seed...), c[:]...))
			d.buf = h[:]
		}
		k := copy(p[n:], d.buf)
		d.buf = d.buf[k:]
		n += k
	}
	return n, nil
}

// DetReader returns a deterministic reader for a label.
func DetReader(label string) io.Reader {
	return &detReader{seed: []byte("verif|" + os.Getenv("VERIF_SEED") + "|" + label)}
}

var (
	keyMu    sync.Mutex
	keyCache = map[string]*Identity{}
)

// Key returns the n-th identity of a key type (cached).
func Key(kind string, n int) *Identity {
	label := fmt.Sprintf("%s#%d", kind, n)
	keyMu.Lock()
	defer keyMu.Unlock()
	if id, ok := keyCache[label]; ok {
		return id
	}
	var priv crypto.PrivKey
	var err error
	r := DetReader(label)
	switch kind {
	case "ed25519":
		priv, _, err = crypto.GenerateEd25519Key(r)
	case "secp256k1":
		priv, _, err = crypto.GenerateSecp256k1Key(r)
	case "ecdsa":
		priv, _, err = crypto.GenerateECDSAKeyPair(r)
	case "rsa":
		priv, _, err = crypto.GenerateRSAKeyPair(2048, r)
	default:
		panic("unknown key type " + kind)
	}
	if err != nil {
		panic(err)
	}
	pid, err := peer.IDFromPrivateKey(priv)
	if err != nil {
		panic(err)
	}
	id := &Identity{Label: label, Priv: priv, ID: pid}
	keyCache[label] = id
	return id
}

// Mh returns a multihash of data with the given code (length -1 = default).
func Mh(data string, code uint64, length int) multihash.Multihash {
	h, err := multihash.Sum([]byte(data), code, length)
	if err != nil {
		panic(fmt.Sprintf("multihash %x: %v", code, err))
	}
	return h
}

// Cid returns a CIDv1 with the given codec over a sha2-256 hash of data.
func Cid(data string, codec uint64) cid.Cid {
	return cid.NewCidV1(codec, Mh(data, multihash.SHA2_256, -1))
}

// Bytes returns n patterned bytes.
func Bytes(n int, salt byte) []byte {
	b := make([]byte, n)
	for i := range b {
		b[i] = byte(i)*31 + salt
	}
	return b
}
