// C16: announce receiver shutdown never hangs.
//
//	(H) every sequence of <= N operations, each started in its own goroutine
//	    inside a synctest bubble and observed at quiescence as returned(value)
//	    or blocked, compared with a reference model of the receiver;
//	(S) 2-3 concurrent threads of 1-2 operations each, all interleavings up to
//	    a preemption bound under the cooperative scheduler.
//
// The announce package is built with the instrumentation overlay (mutex shim:
// a goroutine waiting for the mutex is durably blocked, hence observable).
package c16

import (
	"bytes"
	"context"
	"errors"
	"fmt"
	"os"
	"sort"
	"strings"
	"sync"
	"testing"
	"testing/synctest"
	"time"

	"github.com/ipfs/go-cid"
	"github.com/ipni/go-libipni/announce"
	"github.com/ipni/go-libipni/announce/message"
	"github.com/libp2p/go-libp2p"
	pubsub "github.com/libp2p/go-libp2p-pubsub"
	"github.com/libp2p/go-libp2p/core/host"
	"github.com/libp2p/go-libp2p/core/peer"
	"github.com/multiformats/go-multiaddr"

	"verifharness/fixture"
	"verifharness/sched"
	"verifharness/vp"
)

var (
	c1      = fixture.Cid("c16-one", cid.DagJSON)
	c2      = fixture.Cid("c16-two", cid.DagJSON)
	allowed = fixture.Key("ed25519", 0).ID
	denied  = fixture.Key("ed25519", 1).ID
)

type op int

const (
	opClose op = iota
	opDirect1
	opDirect2
	opDirectDenied
	opNext
	opUncache1
	nOps
)

var opNames = []string{"Close", "Direct(c1)", "Direct(c2)", "Direct(c1,denied)", "Next", "Uncache(c1)"}

// reentrantCallback: the allow filter, a function the caller supplies, itself
// calls the receiver (un-caches an unrelated CID) before answering; with it off
// the filter is a plain predicate.
var (
	reentrantCallback bool
	seqKeyPrefix      = "seq|"
	c3                = fixture.Cid("c16-three", cid.DagJSON)
	cFresh            = fixture.Cid("c16-fresh", cid.DagJSON)
)

// resendTopic: the receivers of the (H) sequences are created with a gossipsub
// topic on a transport-less libp2p host and WithResend(true): every accepted
// direct announcement is republished through the receiver's pubsub sender
// (its own republications come back on the subscription and are ignored), so
// the sender takes part in every Direct.
var resendTopic bool

// hostlessTopic (with resendTopic): the receiver is handed the topic but no
// host (NewReceiver(nil, "", WithTopic(...)): it republishes on the topic and
// reads nothing from it)
var hostlessTopic bool

// filterIPs: the receivers of the (H) sequences are created with
// WithFilterIPs(true) and every direct announcement carries addresses that the
// filter removes (loopback and private only), so that the filtering code takes
// part in every Direct.
var filterIPs bool

func directAddrs() []multiaddr.Multiaddr {
	if !filterIPs {
		return nil
	}
	return []multiaddr.Multiaddr{multiaddr.StringCast("/ip4/127.0.0.1/tcp/3104/http"), multiaddr.StringCast("/ip4/10.1.2.3/tcp/3104/http")}
}

func newReceiver() *announce.Receiver {
	r, _ := newReceiverCleanup()
	return r
}

// newReceiverCleanup also returns what has to be shut down once the receiver
// is closed (nothing for the receiver without pubsub).
func newReceiverCleanup() (*announce.Receiver, func()) {
	var r *announce.Receiver
	reenter := reentrantCallback
	opts := []announce.Option{announce.WithAllowPeer(func(p peer.ID) bool {
		if reenter {
			r.UncacheCid(c3)
		}
		return p != denied
	})}
	if filterIPs {
		opts = append(opts, announce.WithFilterIPs(true))
	}
	var h host.Host
	cleanup := func() {}
	if resendTopic {
		var err error
		h, err = libp2p.New(libp2p.NoListenAddrs, libp2p.Identity(fixture.Key("ed25519", 30).Priv))
		if err != nil {
			panic(err)
		}
		psCtx, psCancel := context.WithCancel(context.Background())
		ps, err := pubsub.NewGossipSub(psCtx, h)
		if err != nil {
			panic(err)
		}
		topic, err := ps.Join("/indexer/ingest/c16")
		if err != nil {
			panic(err)
		}
		opts = append(opts, announce.WithTopic(topic), announce.WithResend(true))
		cleanup = func() {
			topic.Close()
			psCancel()
			h.Close()
			// gossipsub's background loops see their cancelled context only
			// when they wake: let virtual time pass
			time.Sleep(30 * time.Minute)
		}
	}
	rh := h
	if hostlessTopic {
		rh = nil
	}
	r, err := announce.NewReceiver(rh, "", opts...)
	if err != nil {
		panic(err)
	}
	return r, cleanup
}

// doOp performs an operation and returns a description of its result.
func doOp(r *announce.Receiver, o op) string {
	ctx := context.Background()
	res := func(err error) string {
		switch {
		case err == nil:
			return "nil"
		case errors.Is(err, announce.ErrClosed):
			return "ErrClosed"
		default:
			return "err:" + err.Error()
		}
	}
	switch o {
	case opClose:
		return res(r.Close())
	case opDirect1:
		return res(r.Direct(ctx, c1, peer.AddrInfo{ID: allowed, Addrs: directAddrs()}))
	case opDirect2:
		return res(r.Direct(ctx, c2, peer.AddrInfo{ID: allowed, Addrs: directAddrs()}))
	case opDirectDenied:
		return res(r.Direct(ctx, c1, peer.AddrInfo{ID: denied, Addrs: directAddrs()}))
	case opNext:
		a, err := r.Next(ctx)
		if err != nil {
			return res(err)
		}
		switch {
		case a.Cid.Equals(c1) && a.PeerID == allowed:
			return "c1"
		case a.Cid.Equals(c2) && a.PeerID == allowed:
			return "c2"
		default:
			return "unexpected:" + a.Cid.String() + "/" + a.PeerID.String()
		}
	case opUncache1:
		r.UncacheCid(c1)
		return "nil"
	}
	panic("op")
}

// ---------------------------------------------------------------- (H)

// model of the receiver: which calls are blocked and what each returns.
type model struct {
	closed  bool
	queue   string // "" or c1/c2
	seen    map[string]bool
	waitNxt []int // indices of blocked Next calls
	waitDir []int // indices of blocked Direct calls
	dirCid  map[int]string
	// result[i]: "" = blocked, else a set of acceptable results joined by "|"
	result map[int]string
}

func newModel() *model {
	return &model{seen: map[string]bool{}, dirCid: map[int]string{}, result: map[int]string{}}
}

func (m *model) step(i int, o op) {
	switch o {
	case opClose:
		m.result[i] = "nil"
		if m.closed {
			return
		}
		m.closed = true
		for _, w := range m.waitNxt {
			m.result[w] = "ErrClosed"
		}
		m.waitNxt = nil
		for _, w := range m.waitDir {
			m.result[w] = "ErrClosed"
		}
		m.waitDir = nil
	case opDirectDenied:
		m.result[i] = "nil"
	case opDirect1, opDirect2:
		c := "c1"
		if o == opDirect2 {
			c = "c2"
		}
		if m.closed {
			m.result[i] = "ErrClosed"
			return
		}
		if m.seen[c] {
			m.result[i] = "nil"
			return
		}
		m.seen[c] = true
		switch {
		case len(m.waitNxt) > 0:
			w := m.waitNxt[0]
			m.waitNxt = m.waitNxt[1:]
			m.result[w] = c
			m.result[i] = "nil"
		case m.queue == "":
			m.queue = c
			m.result[i] = "nil"
		default:
			m.waitDir = append(m.waitDir, i)
			m.dirCid[i] = c
		}
	case opNext:
		switch {
		case m.queue != "":
			got := m.queue
			m.queue = ""
			if len(m.waitDir) > 0 {
				// which blocked Direct gets the slot is Go's choice; with one waiter it is determined
				w := m.waitDir[0]
				m.waitDir = m.waitDir[1:]
				m.queue = m.dirCid[w]
				m.result[w] = "nil"
			}
			if m.closed {
				m.result[i] = got + "|ErrClosed"
				if m.result[i] != got {
					// if ErrClosed was returned the item stays queued; keep the model simple:
					// sequences continue from the state where the item was taken only when it was
					m.result[i] = got + "|ErrClosed"
				}
			} else {
				m.result[i] = got
			}
		case m.closed:
			m.result[i] = "ErrClosed"
		default:
			m.waitNxt = append(m.waitNxt, i)
		}
	case opUncache1:
		delete(m.seen, "c1")
		m.result[i] = "nil"
	}
}

func seqName(seq []op) string {
	var l []string
	for _, o := range seq {
		l = append(l, opNames[o])
	}
	return strings.Join(l, ";")
}

// ambiguous sequences: more than one Direct blocked at once (which one Go wakes
// is not determined), or a Next after Close with an item still queued (either
// answer is legal and the futures differ).
func ambiguous(seq []op) bool {
	m := newModel()
	for i, o := range seq {
		if o == opNext && m.closed && m.queue != "" {
			return true
		}
		m.step(i, o)
		if len(m.waitDir) > 1 {
			return true
		}
	}
	return false
}

func runSequence(t *testing.T, r *vp.Recorder, seq []op) {
	key := seqKeyPrefix + seqName(seq)
	if !r.Mine(key) {
		return
	}
	nClose := 0
	for _, o := range seq {
		if o == opClose {
			nClose++
		}
	}
	r.Eval(key, len(seq) > 1)
	if ambiguous(seq) {
		r.Count("sequences_with_legal_nondeterminism_skipped", 1)
		return
	}
	var mismatch []string
	func() {
		defer func() {
			// blocked calls of a hung receiver stay behind when the bubble ends
			if e := recover(); e != nil {
				if !strings.Contains(fmt.Sprint(e), "blocked goroutines remain") && !strings.Contains(fmt.Sprint(e), "deadlock") {
					panic(e)
				}
			}
		}()
		synctest.Test(t, func(t *testing.T) {
			rc, shutdown := newReceiverCleanup()
			m := newModel()
			var mu sync.Mutex
			results := map[int]string{}
			for i, o := range seq {
				i, o := i, o
				go func() {
					defer func() {
						if e := recover(); e != nil {
							mu.Lock()
							results[i] = fmt.Sprintf("panic:%v", e)
							mu.Unlock()
						}
					}()
					res := doOp(rc, o)
					mu.Lock()
					results[i] = res
					mu.Unlock()
				}()
				synctest.Wait()
				m.step(i, o)
				// a receiver with a topic also answers what its topic is called,
				// at any time, also while calls wait and after Close: a read-only
				// call that returns and leaves everything as it was
				if resendTopic {
					tnDone := false
					go func() {
						defer func() { recover() }()
						_ = rc.TopicName()
						mu.Lock()
						tnDone = true
						mu.Unlock()
					}()
					synctest.Wait()
					mu.Lock()
					ok := tnDone
					mu.Unlock()
					if !ok {
						mismatch = append(mismatch, fmt.Sprintf("after %s: TopicName is blocked", seqName(seq[:i+1])))
						break
					}
				}
				// compare every call issued so far
				mu.Lock()
				for j := 0; j <= i; j++ {
					got, returned := results[j]
					want := m.result[j]
					switch {
					case want == "" && returned:
						mismatch = append(mismatch, fmt.Sprintf("after %s: call %d %s returned %s but should still be waiting", seqName(seq[:i+1]), j, opNames[seq[j]], got))
					case want != "" && !returned:
						mismatch = append(mismatch, fmt.Sprintf("after %s: call %d %s is blocked but must have returned %s", seqName(seq[:i+1]), j, opNames[seq[j]], want))
					case want != "" && returned:
						ok := false
						for _, w := range strings.Split(want, "|") {
							if w == got {
								ok = true
							}
						}
						if !ok {
							mismatch = append(mismatch, fmt.Sprintf("after %s: call %d %s returned %s, expected %s", seqName(seq[:i+1]), j, opNames[seq[j]], got, want))
						}
					}
				}
				mu.Unlock()
				if len(mismatch) > 0 {
					break
				}
			}
			// "no return path leaves the receiver unusable for the calls that
			// follow": when the receiver is open and nobody waits, what is queued
			// is taken out and a direct announcement of a fresh CID goes through:
			// Direct returns nil, Next returns it
			if len(mismatch) == 0 && !m.closed && len(m.waitNxt) == 0 && len(m.waitDir) == 0 {
				follow := func(what string, want string, f func() string) {
					if len(mismatch) > 0 {
						return
					}
					var got string
					returned := false
					go func() {
						g := f()
						mu.Lock()
						got, returned = g, true
						mu.Unlock()
					}()
					synctest.Wait()
					mu.Lock()
					defer mu.Unlock()
					switch {
					case !returned:
						mismatch = append(mismatch, fmt.Sprintf("after %s: the follow-up call %s is blocked but must have returned %s", seqName(seq), what, want))
					case got != want:
						mismatch = append(mismatch, fmt.Sprintf("after %s: the follow-up call %s returned %s, expected %s", seqName(seq), what, got, want))
					}
				}
				next := func() string {
					a, err := rc.Next(context.Background())
					if err != nil {
						return "err:" + err.Error()
					}
					return a.Cid.String()
				}
				if m.queue != "" {
					q := c1
					if m.queue == "c2" {
						q = c2
					}
					follow("Next (taking out what is queued)", q.String(), next)
				}
				follow("Direct(fresh CID)", "nil", func() string {
					if err := rc.Direct(context.Background(), cFresh, peer.AddrInfo{ID: allowed, Addrs: directAddrs()}); err != nil {
						return "err:" + err.Error()
					}
					return "nil"
				})
				follow("Next (after the direct announcement of a fresh CID)", cFresh.String(), next)
			}
			// cleanup so that legitimately blocked callers end: close (if that hangs, the recover above handles it)
			if len(mismatch) == 0 {
				done := make(chan struct{})
				go func() { rc.Close(); close(done) }()
				synctest.Wait()
				select {
				case <-done:
					shutdown()
				default:
					mismatch = append(mismatch, fmt.Sprintf("after %s: a final Close blocks", seqName(seq)))
				}
			}
		})
	}()
	r.Trace(1)
	r.Transition(int64(len(seq)))
	r.State("seqstate|" + seqName(seq))
	if len(mismatch) > 0 {
		cls := "blocked-call"
		if !strings.Contains(mismatch[0], "is blocked") && !strings.Contains(mismatch[0], "Close blocks") {
			cls = "wrong-result"
		}
		sig := fmt.Sprintf("seq:%s:closes=%d", cls, min(nClose, 2))
		r.Violation(sig, key, mismatch[0], map[string]any{"sequence": seqName(seq), "mismatches": mismatch})
		r.Outcome("mismatch")
		return
	}
	r.Outcome("agrees")
	if len(seq) >= 4 {
		r.Sample(map[string]any{"sequence": seqName(seq)})
	}
}

// ---------------------------------------------------------------- (S)

type threadOps [][]op

func (to threadOps) name() string {
	var l []string
	for _, t := range to {
		l = append(l, seqName(t))
	}
	return strings.Join(l, " || ")
}

func scenarioFor(to threadOps) *sched.Scenario {
	type rec struct {
		thread int
		idx    int
		op     op
		res    string
	}
	return &sched.Scenario{
		Name:     "threads[" + to.name() + "]",
		MaxSteps: 2000,
		Setup: func(e *sched.Exec) ([]sched.Thread, func()) {
			rc := newReceiver()
			var threads []sched.Thread
			for ti, ops := range to {
				ti, ops := ti, ops
				threads = append(threads, sched.Thread{Name: fmt.Sprintf("T%d", ti), Fn: func() {
					for k, o := range ops {
						e.Log("T%d call %d %s", ti, k, opNames[o])
						res := doOp(rc, o)
						e.Log("T%d ret %d %s = %s", ti, k, opNames[o], res)
					}
				}})
			}
			return threads, func() {
				// every configuration contains a Close: once all explored calls have
				// returned, further calls must return too (closed error or nil)
				if len(e.Unfinished) == 0 {
					e.Guarded("UncacheCid after the explored calls", func() { rc.UncacheCid(c1) })
					e.Guarded("Direct after the explored calls", func() { doOp(rc, opDirect2) })
					e.Guarded("Close after the explored calls", func() { rc.Close() })
				}
			}
		},
		Check: func(e *sched.Exec) []sched.Finding {
			var out []sched.Finding
			for _, p := range e.Panics {
				out = append(out, sched.Finding{Sig: "threads:panic", Msg: p})
			}
			if len(e.CleanupHung) > 0 {
				out = append(out, sched.Finding{Sig: "threads:later-call-never-returns", Msg: fmt.Sprintf("after all explored calls had returned, these further calls never return: %v", e.CleanupHung)})
			}
			// once a Close has been invoked every call must return; before that a
			// Direct (queue full) or a Next (queue empty) may legitimately wait
			closeInvoked := false
			for _, o := range e.Obs() {
				if strings.Contains(o, " call ") && strings.HasSuffix(o, " Close") {
					closeInvoked = true
				}
			}
			legitWait := func() bool {
				if closeInvoked {
					return false
				}
				open := map[string]string{}
				for _, o := range e.Obs() {
					f := strings.SplitN(o, " ", 4)
					if f[1] == "call" {
						open[f[0]] = f[3]
					} else {
						delete(open, f[0])
					}
				}
				for _, v := range open {
					if v != "Direct(c1)" && v != "Direct(c2)" && v != "Next" {
						return false
					}
				}
				return true
			}
			if len(e.Unfinished) > 0 && !legitWait() {
				var l []string
				for n, at := range e.Unfinished {
					l = append(l, n+"@"+at)
				}
				sort.Strings(l)
				// which calls are outstanding
				obs := e.Obs()
				var pending []string
				open := map[string]string{}
				for _, o := range obs {
					f := strings.SplitN(o, " ", 4)
					if f[1] == "call" {
						open[f[0]] = f[3]
					} else {
						delete(open, f[0])
					}
				}
				for _, v := range open {
					pending = append(pending, v)
				}
				sort.Strings(pending)
				nClose := 0
				for _, t := range to {
					for _, o := range t {
						if o == opClose {
							nClose++
						}
					}
				}
				out = append(out, sched.Finding{Sig: fmt.Sprintf("threads:call-never-returns:closes=%d", min(nClose, 2)), Msg: fmt.Sprintf("calls %v never return (threads %v; deadlocked %v)", pending, l, e.Deadlocked)})
				return out
			}
			// program order: after a thread's own Close returned, its Direct must give ErrClosed (or nil for ignored ones)
			closedBy := map[string]bool{}
			for _, o := range e.Obs() {
				f := strings.SplitN(o, " ", 4)
				if f[1] != "ret" {
					continue
				}
				parts := strings.Split(f[3], " = ")
				name, res := parts[0], parts[1]
				if strings.HasPrefix(res, "err:") || strings.HasPrefix(res, "unexpected") {
					out = append(out, sched.Finding{Sig: "threads:wrong-result", Msg: o})
				}
				if closedBy[f[0]] {
					if (name == "Direct(c1)" || name == "Direct(c2)") && res != "ErrClosed" {
						out = append(out, sched.Finding{Sig: "threads:direct-after-close-not-closed-error", Msg: o})
					}
				}
				if name == "Close" {
					closedBy[f[0]] = true
				}
			}
			return out
		},
	}
}

// pubsubScenario: the receiver with a real gossipsub topic on a single libp2p
// host without transports (as in C09 layer 4), under the scheduler. Thread M
// publishes one announcement on the topic; the instrumented watcher goroutine
// of the receiver reads it and takes the receiver's lock; the other threads
// call Close / UncacheCid / Next / Close again. Whatever the order, every call
// returns and, once the receiver is closed, the watcher has exited.
func pubsubScenario(extra []string) *sched.Scenario {
	name := "pubsub-watcher[publish || Close"
	resend := false
	for _, x := range extra {
		if x == "resend" {
			// an option, not a thread: direct announcements are republished on
			// the topic (which has no other subscriber here)
			resend = true
			continue
		}
		name += " || " + x
	}
	name += "]"
	if resend {
		name += "+resend"
	}
	return &sched.Scenario{
		Name:     name,
		MaxSteps: 3000,
		Setup: func(e *sched.Exec) ([]sched.Thread, func()) {
			self, from := fixture.Key("ed25519", 30), fixture.Key("ed25519", 31)
			h, err := libp2p.New(libp2p.NoListenAddrs, libp2p.Identity(self.Priv))
			if err != nil {
				panic(err)
			}
			psCtx, psCancel := context.WithCancel(context.Background())
			ps, err := pubsub.NewGossipSub(psCtx, h)
			if err != nil {
				panic(err)
			}
			topic, err := ps.Join("/indexer/ingest/c16")
			if err != nil {
				panic(err)
			}
			rc, err := announce.NewReceiver(h, "", announce.WithTopic(topic), announce.WithAllowPeer(func(peer.ID) bool { return true }), announce.WithResend(resend))
			if err != nil {
				panic(err)
			}
			m := message.Message{Cid: c1}
			var buf bytes.Buffer
			if err := m.MarshalCBOR(&buf); err != nil {
				panic(err)
			}
			threads := []sched.Thread{
				{Name: "M", Fn: func() {
					e.Log("M call publish")
					err := topic.Publish(context.Background(), buf.Bytes(), pubsub.WithSecretKeyAndPeerId(from.Priv, from.ID))
					e.Log("M ret publish err=%v", err != nil)
				}},
				{Name: "C", Fn: func() {
					e.Log("C call Close")
					err := rc.Close()
					e.Log("C ret Close err=%v", err)
				}},
			}
			for i, x := range extra {
				tn := fmt.Sprintf("X%d", i)
				switch x {
				case "UncacheCid":
					threads = append(threads, sched.Thread{Name: tn, Fn: func() {
						e.Log("%s call UncacheCid", tn)
						rc.UncacheCid(c1)
						e.Log("%s ret UncacheCid", tn)
					}})
				case "Next":
					threads = append(threads, sched.Thread{Name: tn, Fn: func() {
						e.Log("%s call Next", tn)
						a, err := rc.Next(context.Background())
						res := "unexpected:" + a.Cid.String() + "/" + a.PeerID.String()
						switch {
						case errors.Is(err, announce.ErrClosed):
							res = "ErrClosed"
						case err != nil:
							res = "err:" + err.Error()
						case a.Cid.Equals(c1) && a.PeerID == from.ID:
							res = "c1"
						case a.Cid.Equals(c2) && a.PeerID == allowed:
							res = "c2" // what a Direct thread announced
						}
						e.Log("%s ret Next = %s", tn, res)
					}})
				case "Close":
					threads = append(threads, sched.Thread{Name: tn, Fn: func() {
						e.Log("%s call Close", tn)
						err := rc.Close()
						e.Log("%s ret Close err=%v", tn, err)
					}})
				case "Direct":
					threads = append(threads, sched.Thread{Name: tn, Fn: func() {
						e.Log("%s call Direct", tn)
						res := doOp(rc, opDirect2)
						e.Log("%s ret Direct = %s", tn, res)
					}})
				}
			}
			return threads, func() {
				// clean-up must not take the receiver's lock when a thread is stuck
				// (a goroutine waiting for a mutex is not "durably blocked" for the
				// bubble: the execution would hang instead of being reported)
				if len(e.Unfinished) == 0 {
					// "no return path leaves the receiver unusable for the calls that
					// follow": one more of each call, each of which must return
					e.Guarded("UncacheCid after the explored calls", func() { rc.UncacheCid(c2) })
					e.Guarded("Direct after the explored calls", func() { rc.Direct(context.Background(), c2, peer.AddrInfo{ID: from.ID}) })
					if e.Guarded("Close after the explored calls", func() { rc.Close() }) {
						topic.Close()
					}
				}
				psCancel()
				h.Close()
				// gossipsub's background loops see their cancelled context only
				// when they wake: let virtual time pass
				time.Sleep(30 * time.Minute)
			}
		},
		Check: func(e *sched.Exec) []sched.Finding {
			var out []sched.Finding
			hasDirect := false
			for _, x := range extra {
				hasDirect = hasDirect || x == "Direct"
			}
			for _, p := range e.Panics {
				out = append(out, sched.Finding{Sig: "pubsub:panic", Msg: firstLine(p)})
			}
			if len(e.Unfinished) > 0 {
				var l []string
				for n, at := range e.Unfinished {
					l = append(l, n+"@"+at)
				}
				sort.Strings(l)
				out = append(out, sched.Finding{Sig: "pubsub:call-never-returns", Msg: fmt.Sprintf("threads %v never finish although Close was among the calls (deadlocked %v)", l, e.Deadlocked)})
				return out
			}
			if len(e.CleanupHung) > 0 {
				out = append(out, sched.Finding{Sig: "pubsub:later-call-never-returns", Msg: fmt.Sprintf("after all explored calls had returned, these further calls never return: %v", e.CleanupHung)})
			}
			for _, o := range e.Obs() {
				if strings.Contains(o, "ret Next = ") && !strings.HasSuffix(o, "= c1") && !strings.HasSuffix(o, "= ErrClosed") && !(hasDirect && strings.HasSuffix(o, "= c2")) {
					out = append(out, sched.Finding{Sig: "pubsub:wrong-result", Msg: o})
				}
				if strings.Contains(o, "ret Direct = ") && !strings.HasSuffix(o, "= nil") && !strings.HasSuffix(o, "= ErrClosed") {
					out = append(out, sched.Finding{Sig: "pubsub:wrong-result", Msg: o})
				}
			}
			for _, g := range e.Leaked {
				if strings.Contains(g, "announce.(*Receiver)") {
					out = append(out, sched.Finding{Sig: "pubsub:watcher-goroutine-left", Msg: "a goroutine of the receiver is still there after Close returned and the host was shut down: " + firstLine(g)})
					break
				}
			}
			e.Class = "no-Next-thread"
			for _, o := range e.Obs() {
				if i := strings.Index(o, "ret Next = "); i >= 0 {
					e.Class = "Next=" + o[i+len("ret Next = "):]
				}
			}
			return out
		},
	}
}

func TestCheck(t *testing.T) {
	r := vp.New("C16", "model_checking",
		"(H) every sequence of <= N operations over {Close, Direct(c1), Direct(c2), Direct(c1) from a denied peer, Next, UncacheCid(c1)}, each operation started in its own goroutine in a synctest bubble and observed at quiescence as returned(value) / blocked, compared after every step with a reference model of the receiver (closed flag, one-slot queue, duplicate set, blocked callers), and the same one operation shallower with an allow filter that itself calls the receiver (UncacheCid of an unrelated CID) before answering, and the same at full depth with receivers that have a pubsub topic and republish every direct announcement (WithResend(true)), asked for their topic's name (TopicName) after every operation, also (one operation shallower) on a receiver that was given the topic but no host, and once more with address filtering on (WithFilterIPs(true)) and direct announcements carrying only loopback and private addresses; after every sequence that leaves the receiver open with nobody waiting, what is queued is taken out and a direct announcement of a fresh CID must go through (Direct returns, Next delivers it); (S) every set of 2 threads x 1-2 operations and 3 threads x 1 operation containing at least one Close (3 threads x <=2 operations in the thorough tier), all interleavings at the scheduling points of the instrumented announce package up to the preemption bound. states = distinct decision states / sequences; transitions = scheduling steps / operations; traces = executions of the real receiver.",
		"(H) and (S): receiver without pubsub (nil host); (P): the receiver with a gossipsub topic on one transport-less libp2p host, a thread publishing one announcement, so that the watcher goroutine takes part: publish || Close, optionally || UncacheCid / Next / a second Close / Direct, the Direct variants also with WithResend(true) (direct announcements republished on a topic that has no other subscriber); every call returns and no receiver goroutine is left. Sequences in which Go itself may legally choose between two answers (Next after Close with a queued announcement, two Direct calls blocked at once) are skipped in (H) and accepted either way in (S)",
		"instrumented select statements try their cases in source order (a legal restriction of Go's choice)",
	)
	defer func() {
		if err := r.Finish(); err != nil {
			t.Fatal(err)
		}
	}()
	thorough := vp.Thorough()
	depth, bound := 4, 2
	if thorough {
		depth, bound = 5, 3
	}
	r.Bounds(map[string]any{"sequence_depth": depth, "preemption_bound": bound})

	// (H)
	if !r.Replaying() || strings.HasPrefix(r.ReplayKey(), "seq|") || strings.HasPrefix(r.ReplayKey(), "reentrant-filter|seq|") {
		hdepth := depth
		var rec func(seq []op)
		rec = func(seq []op) {
			if len(seq) > 0 {
				runSequence(t, r, seq)
			}
			if len(seq) == hdepth {
				return
			}
			for o := op(0); o < nOps; o++ {
				rec(append(seq[:len(seq):len(seq)], o))
			}
		}
		if !r.Replaying() || strings.HasPrefix(r.ReplayKey(), "seq|") {
			rec(nil)
		}
		// once more, one operation shallower, with an allow filter that calls
		// back into the receiver
		if !r.Replaying() || strings.HasPrefix(r.ReplayKey(), "reentrant-filter|seq|") {
			reentrantCallback, seqKeyPrefix, hdepth = true, "reentrant-filter|seq|", depth-1
			rec(nil)
			reentrantCallback, seqKeyPrefix = false, "seq|"
		}
	}
	// and at full depth with receivers that republish what they are handed
	// directly (pubsub topic, WithResend(true)): the pubsub sender is then part
	// of every Direct
	if !r.Replaying() || strings.HasPrefix(r.ReplayKey(), "resend-topic|seq|") {
		hdepth := depth
		var rec func(seq []op)
		rec = func(seq []op) {
			if len(seq) > 0 {
				runSequence(t, r, seq)
			}
			if len(seq) == hdepth {
				return
			}
			for o := op(0); o < nOps; o++ {
				rec(append(seq[:len(seq):len(seq)], o))
			}
		}
		resendTopic, seqKeyPrefix = true, "resend-topic|seq|"
		rec(nil)
		resendTopic, seqKeyPrefix = false, "seq|"
	}
	// the same one operation shallower on a receiver that was given the topic
	// but no host
	if !r.Replaying() || strings.HasPrefix(r.ReplayKey(), "hostless-topic|seq|") {
		hdepth := depth - 1
		var rec func(seq []op)
		rec = func(seq []op) {
			if len(seq) > 0 {
				runSequence(t, r, seq)
			}
			if len(seq) == hdepth {
				return
			}
			for o := op(0); o < nOps; o++ {
				rec(append(seq[:len(seq):len(seq)], o))
			}
		}
		resendTopic, hostlessTopic, seqKeyPrefix = true, true, "hostless-topic|seq|"
		rec(nil)
		resendTopic, hostlessTopic, seqKeyPrefix = false, false, "seq|"
	}
	// and at full depth with address filtering on and direct announcements
	// that carry nothing but addresses the filter removes
	if !r.Replaying() || strings.HasPrefix(r.ReplayKey(), "filter-ips|seq|") {
		hdepth := depth
		var rec func(seq []op)
		rec = func(seq []op) {
			if len(seq) > 0 {
				runSequence(t, r, seq)
			}
			if len(seq) == hdepth {
				return
			}
			for o := op(0); o < nOps; o++ {
				rec(append(seq[:len(seq):len(seq)], o))
			}
		}
		filterIPs, seqKeyPrefix = true, "filter-ips|seq|"
		rec(nil)
		filterIPs, seqKeyPrefix = false, "seq|"
	}

	// (S)
	var perThread [][]op
	for a := op(0); a < nOps; a++ {
		perThread = append(perThread, []op{a})
	}
	for a := op(0); a < nOps; a++ {
		for b := op(0); b < nOps; b++ {
			perThread = append(perThread, []op{a, b})
		}
	}
	hasClose := func(to threadOps) bool {
		for _, t := range to {
			for _, o := range t {
				if o == opClose {
					return true
				}
			}
		}
		return false
	}
	total := func(to threadOps) int {
		n := 0
		for _, t := range to {
			n += len(t)
		}
		return n
	}
	var configs []threadOps
	for i := 0; i < len(perThread); i++ {
		for j := i; j < len(perThread); j++ {
			to := threadOps{perThread[i], perThread[j]}
			if hasClose(to) {
				configs = append(configs, to)
			}
			for k := j; k < len(perThread); k++ {
				to3 := threadOps{perThread[i], perThread[j], perThread[k]}
				lim := 3
				if thorough {
					lim = 4
				}
				if hasClose(to3) && total(to3) <= lim {
					configs = append(configs, to3)
				}
			}
		}
	}
	r.Count("thread_configurations", 0)
	if i, _ := r.Shard(); i == 0 {
		r.Count("thread_configurations", int64(len(configs)))
	}
	budget := 0.0
	if v := os.Getenv("VERIF_BUDGET_S"); v != "" {
		fmt.Sscanf(v, "%g", &budget)
	}
	// (P) the receiver with a pubsub topic: the watcher goroutine takes part
	pubsubSets := [][]string{nil, {"UncacheCid"}, {"Next"}, {"Close"}, {"Direct"}, {"UncacheCid", "Next"}, {"Direct", "resend"}, {"Direct", "Next", "resend"}}
	for pi, extra := range pubsubSets {
		sc := pubsubScenario(extra)
		if r.Replaying() {
			if strings.HasPrefix(r.ReplayKey(), sc.Name+"|") {
				(&sched.Explorer{T: t, R: r, Sc: sc, Bound: bound}).Explore()
			}
			continue
		}
		// the subtrees of each scenario are spread over all shards; each scenario
		// gets an equal share of 40% of the time budget
		x := &sched.Explorer{T: t, R: r, Sc: sc, Bound: bound}
		if budget > 0 {
			x.Deadline = time.Now().Add(time.Duration(budget * 0.4 / float64(len(pubsubSets)) * float64(time.Second)))
		}
		if done := x.Explore(); done < bound {
			r.NotExhaustive(fmt.Sprintf("%s: time share used up after completing preemption bound %d of %d", sc.Name, done, bound))
		}
		_ = pi
	}
	shard, n := r.Shard()
	for ci, to := range configs {
		sc := scenarioFor(to)
		if r.Replaying() {
			if strings.HasPrefix(r.ReplayKey(), sc.Name+"|") {
				(&sched.Explorer{T: t, R: r, Sc: sc, Bound: bound}).Explore()
			}
			continue
		}
		// configurations are small: give whole configurations to shards
		if ci%n != shard {
			continue
		}
		x := &sched.Explorer{T: t, R: vp.Single(r), Sc: sc, Bound: bound}
		x.Explore()
		if r.OverBudget() {
			break
		}
	}
	t.Logf("violations: %d", r.Violations())
}

func firstLine(s string) string {
	if i := strings.IndexByte(s, '\n'); i >= 0 {
		return s[:i]
	}
	return s
}
