// C03: a chain head is accepted only when signed by the expected publisher.
// Bounded-exhaustive enumeration of roots/topics/key types on the publisher
// side and of alterations of encoded signed heads on the client side, against
// an independent reference validator.
package c03

import (
	"bytes"
	"context"
	"fmt"
	"net/http"
	"net/http/httptest"
	"sort"
	"strings"
	"testing"
	"testing/synctest"
	"time"

	"github.com/ipfs/go-cid"
	"github.com/ipld/go-ipld-prime"
	"github.com/ipld/go-ipld-prime/codec/dagjson"
	cidlink "github.com/ipld/go-ipld-prime/linking/cid"
	"github.com/ipld/go-ipld-prime/node/basicnode"
	"github.com/ipni/go-libipni/dagsync"
	"github.com/ipni/go-libipni/dagsync/ipnisync"
	"github.com/ipni/go-libipni/dagsync/ipnisync/head"
	"github.com/libp2p/go-libp2p"
	ic "github.com/libp2p/go-libp2p/core/crypto"
	"github.com/libp2p/go-libp2p/core/peer"
	libp2phttp "github.com/libp2p/go-libp2p/p2p/http"
	"github.com/multiformats/go-multiaddr"
	"github.com/multiformats/go-multihash"

	"verifharness/fixture"
	"verifharness/memnet"
	"verifharness/syncfx"
	"verifharness/vp"
)

func firstLine(s string) string {
	if i := strings.IndexByte(s, '\n'); i >= 0 {
		return s[:i]
	}
	return s
}

// refValidate is the independent reference: generic DAG-JSON decode, then
// accept iff the key unmarshals, the signature verifies over cid bytes ||
// topic bytes, and the key's peer ID is the expected one.
func refValidate(body []byte, expected peer.ID) (c cid.Cid, signer peer.ID, ok bool, why string) {
	nb := basicnode.Prototype.Any.NewBuilder()
	if err := dagjson.Decode(nb, bytes.NewReader(body)); err != nil {
		return cid.Undef, "", false, "not dag-json: " + err.Error()
	}
	n := nb.Build()
	if n.Kind() != ipld.Kind_Map {
		return cid.Undef, "", false, "not a map"
	}
	hn, err := n.LookupByString("head")
	if err != nil {
		return cid.Undef, "", false, "no head"
	}
	hl, err := hn.AsLink()
	if err != nil {
		return cid.Undef, "", false, "head is not a link"
	}
	c = hl.(cidlink.Link).Cid
	topic := ""
	if tn, err := n.LookupByString("topic"); err == nil && !tn.IsNull() {
		topic, err = tn.AsString()
		if err != nil {
			return c, "", false, "topic is not a string"
		}
	}
	kn, err := n.LookupByString("pubkey")
	if err != nil {
		return c, "", false, "no pubkey"
	}
	kb, err := kn.AsBytes()
	if err != nil {
		return c, "", false, "pubkey is not bytes"
	}
	sn, err := n.LookupByString("sig")
	if err != nil {
		return c, "", false, "no sig"
	}
	sb, err := sn.AsBytes()
	if err != nil {
		return c, "", false, "sig is not bytes"
	}
	if len(kb) == 0 || len(sb) == 0 {
		return c, "", false, "empty key or signature"
	}
	pk, err := ic.UnmarshalPublicKey(kb)
	if err != nil {
		return c, "", false, "bad key"
	}
	msg := append(append([]byte{}, c.Bytes()...), []byte(topic)...)
	good, err := pk.Verify(msg, sb)
	if err != nil || !good {
		return c, "", false, "signature does not verify"
	}
	signer, err = peer.IDFromPublicKey(pk)
	if err != nil {
		return c, "", false, "no peer id"
	}
	if signer != expected {
		return c, signer, false, "signed by another identity"
	}
	return c, signer, true, ""
}

func rootAlphabet() []cid.Cid {
	h256 := fixture.Mh("root", multihash.SHA2_256, -1)
	out := []cid.Cid{cid.NewCidV0(h256)}
	for _, codec := range []uint64{cid.DagJSON, cid.DagCBOR, cid.Raw} {
		for _, mh := range []multihash.Multihash{h256, fixture.Mh("root", multihash.SHA2_512, -1), fixture.Mh("root", multihash.IDENTITY, -1)} {
			out = append(out, cid.NewCidV1(codec, mh))
		}
	}
	return out
}

var topics = []string{"", "/indexer/ingest/mainnet", "tópico/ユニコード", strings.Repeat("t", 256), strings.Repeat("t", 1000), strings.Repeat("/long-topic", 600), "/indexer/ingest/", "/", " padded topic ", "UPPER/lower"}

// headServer serves a body verbatim as the head.
type headServer struct {
	discovery bool
	body      []byte
	requests  int
}

func (h *headServer) ServeHTTP(w http.ResponseWriter, r *http.Request) {
	switch {
	case strings.HasPrefix(r.URL.Path, "/.well-known/"):
		if h.discovery {
			w.Header().Set("Content-Type", "application/json")
			w.Write([]byte(`{"/ipni/v1/ad":{"path":"/ipni/v1/ad/"}}`))
		} else {
			http.Error(w, "not found", 404)
		}
	case strings.HasSuffix(r.URL.Path, "/head"):
		h.requests++
		w.Write(h.body)
	default:
		http.Error(w, "not found", 404)
	}
}

func TestCheck(t *testing.T) {
	r := vp.New("C03", "exploration",
		"publisher side: every root of a 10-CID alphabet (v0, v1 x 3 codecs x 3 hash functions) x 10 topics (none, ascii, unicode, 256, 1000 and 6600 bytes, ending in '/', only '/', padded with spaces, mixed case) x key types: the real Publisher's /head answer is validated by the reference and must be accepted, with the same CID and signer, by the library's own head.Decode / Validate; one publisher taken through every ordered pair of roots (root, other root, first root again), the head verified after every change. Client side: for each of a corpus of valid encoded heads (key types x topics) served verbatim to the real Syncer.GetHead (libp2p-HTTP discovery and plain HTTP): every single-byte substitution, every truncation, and field-level alterations (CID replaced, topic added/removed/changed/given a leading or trailing slash, space or NUL/upper-cased/shortened by a character, key of another identity of the same and another type, signature of another head, key+signature swapped between two valid heads, re-signed by another identity, empty key, empty signature); every field-level alteration served cold (fresh Syncer) and after each of 5 histories of valid heads on a reused Syncer ([valid], [other root], [valid, other], [other, valid], [valid, valid]), each altered head served up to 3 times in a row, followed by both valid heads again; every byte-level alteration right after the valid head on a reused Syncer (every 8th also cold); every field-level alteration also against Syncers created for address lists that mix the HTTP address with a non-HTTP one (both orders), repeat it, or hold nil entries, and against sync clients built with each ClientOption (server peer-ID authentication on/off, time-out, retry) and with all of them, and over the libp2p stream transport (publisher = a libp2p host with the publisher's identity serving over streams only, client built with ClientStreamHost; loopback TCP); every alteration class also through Subscriber.SyncAdChain, cold and after a healthy sync with a head query (altered head derived from the head served before, and from the current one), with the publisher named in the ID field of the AddrInfo and named only by a /p2p component of its addresses, or by the ID field next to a nil entry and an address whose /p2p component names another identity. Every head the reference rejects is also read the other documented way (generic node, UnwrapSignedHead, Validate, signer compared) and must not be accepted there either. Non-trivial: every altered head. Distinct = distinct (head, alteration).",
		"reference validator (generic DAG-JSON decode + libp2p crypto) is the oracle; an altered encoding is required to be rejected only when the reference rejects it (byte changes that alter no value are not alterations)",
		"announce-triggered syncs do not query the head and are out of this property's reach",
		"ECDSA signatures are randomised by the signer (libp2p/crypto), so the encoded ECDSA head, and with it the number of byte positions enumerated, varies by a few bytes between runs; every other fixture is deterministic",
	)
	defer func() {
		if err := r.Finish(); err != nil {
			t.Fatal(err)
		}
	}()
	thorough := vp.Thorough()
	kts := []string{"ed25519", "secp256k1"}
	if thorough {
		kts = fixture.KeyTypes
	}
	r.Bounds(map[string]any{"key_types": kts, "roots": len(rootAlphabet()), "topics": len(topics)})

	// (i) publisher side
	for _, kt := range fixture.KeyTypes {
		id := fixture.Key(kt, 0)
		for ri, root := range rootAlphabet() {
			for ti, topic := range topics {
				key := fmt.Sprintf("pub|%s|root%d|topic%d", kt, ri, ti)
				if !r.Mine(key) {
					continue
				}
				r.Eval(key, true)
				st := syncfx.NewStore()
				pub, err := ipnisync.NewPublisher(st.LinkSystem(), id.Priv, ipnisync.WithStartServer(false), ipnisync.WithHTTPListenAddrs("http://pub.test:80"), ipnisync.WithHeadTopic(topic))
				if err != nil {
					panic(err)
				}
				pub.SetRoot(root)
				rec := httptest.NewRecorder()
				req := httptest.NewRequest("GET", "http://pub.test:80/ipni/v1/ad/head", nil)
				if pn, pm := vp.Guard(func() { pub.ServeHTTP(rec, req) }); pn {
					r.Violation("publisher:panic", key, firstLine(pm), nil)
					continue
				}
				if rec.Code != 200 {
					r.Violation("publisher:head-status", key, fmt.Sprintf("status %d", rec.Code), nil)
					continue
				}
				c, signer, ok, why := refValidate(rec.Body.Bytes(), id.ID)
				if !ok || !c.Equals(root) || signer != id.ID {
					r.Violation("publisher:served-head-does-not-verify:"+kt, key, fmt.Sprintf("head served for root %s topic %q: reference says ok=%v (%s) cid=%s signer=%s", root, topic, ok, why, c, signer), nil)
					continue
				}
				// and the library's own reader accepts what the library's
				// publisher served (a sync client does exactly this)
				var lsigner peer.ID
				var lcid cid.Cid
				var lerr error
				if pn, pm := vp.Guard(func() {
					var sh *head.SignedHead
					if sh, lerr = head.Decode(bytes.NewReader(rec.Body.Bytes())); lerr == nil {
						if lsigner, lerr = sh.Validate(); lerr == nil {
							lcid = sh.Head.(cidlink.Link).Cid
						}
					}
				}); pn {
					r.Violation("publisher:panic", key, "decoding the served head: "+firstLine(pm), nil)
					continue
				}
				if lerr != nil || lsigner != id.ID || !lcid.Equals(root) {
					r.Violation("publisher:served-head-rejected-by-the-library-reader:"+kt, key, fmt.Sprintf("head served for root %s, topic of %d bytes (%d bytes encoded): head.Decode/Validate gives err=%v signer=%s cid=%s", root, len(topic), rec.Body.Len(), lerr, lsigner, lcid), nil)
					continue
				}
				// the topic that was signed is the one configured
				if topic != "" && !bytes.Contains(rec.Body.Bytes(), []byte(`"topic"`)) {
					r.Violation("publisher:topic-missing", key, "configured topic is not in the served head", nil)
				}
				r.Outcome("publisher-ok")
			}
		}
	}

	// (i-b) one publisher taken through two roots in turn (every ordered pair of
	// the root alphabet, which contains the same digest under several codecs
	// and CID versions): what it serves as the head always verifies for the
	// root it has at that moment
	for _, kt := range fixture.KeyTypes {
		id := fixture.Key(kt, 0)
		for ti, topic := range topics[:2] {
			roots := rootAlphabet()
			for i, r1 := range roots {
				for j, r2 := range roots {
					key := fmt.Sprintf("pub-sequence|%s|topic%d|root%d>root%d", kt, ti, i, j)
					if !r.Mine(key) {
						continue
					}
					r.Eval(key, true)
					st := syncfx.NewStore()
					pub, err := ipnisync.NewPublisher(st.LinkSystem(), id.Priv, ipnisync.WithStartServer(false), ipnisync.WithHTTPListenAddrs("http://pub.test:80"), ipnisync.WithHeadTopic(topic))
					if err != nil {
						panic(err)
					}
					for step, root := range []cid.Cid{r1, r2, r1} {
						pub.SetRoot(root)
						rec := httptest.NewRecorder()
						req := httptest.NewRequest("GET", "http://pub.test:80/ipni/v1/ad/head", nil)
						if pn, pm := vp.Guard(func() { pub.ServeHTTP(rec, req) }); pn {
							r.Violation("publisher:panic", key, firstLine(pm), nil)
							break
						}
						c, signer, ok, why := refValidate(rec.Body.Bytes(), id.ID)
						if rec.Code != 200 || !ok || !c.Equals(root) || signer != id.ID {
							r.Violation("publisher:served-head-does-not-verify-after-root-change:"+kt, key, fmt.Sprintf("step %d: root set to %s; the head served (status %d) gives reference ok=%v (%s) cid=%s signer=%s", step, root, rec.Code, ok, why, c, signer), nil)
							break
						}
					}
					pub.Close()
				}
			}
		}
	}

	// (ii) client side
	for _, disc := range []bool{true, false} {
		for _, kt := range kts {
			for ti, topic := range []string{"", "/indexer/ingest/mainnet"} {
				clientSide(t, r, kt, topic, ti, disc, thorough)
			}
		}
	}
	// (iii) through the subscriber
	for _, kt := range kts {
		throughSubscriber(t, r, kt)
	}
	t.Logf("violations: %d", r.Violations())
}

type alteration struct {
	name string
	body []byte
}

func fieldAlterations(kt string, topic string, root cid.Cid) (valid []byte, expected *fixture.Identity, alts []alteration) {
	valid, _, expected, alts = fieldAlterations2(kt, topic, root, fixture.Cid("another-root", cid.DagJSON))
	return
}

// fieldAlterations2 also returns the valid head of the other root (same
// publisher, same topic), for histories of several valid heads.
func fieldAlterations2(kt string, topic string, root, otherRoot cid.Cid) (valid, validOther []byte, expected *fixture.Identity, alts []alteration) {
	me := fixture.Key(kt, 0)
	same := fixture.Key(kt, 1)
	otherType := "ed25519"
	if kt == "ed25519" {
		otherType = "secp256k1"
	}
	other := fixture.Key(otherType, 2)
	enc := func(sh *head.SignedHead) []byte {
		b, err := sh.Encode()
		if err != nil {
			panic(err)
		}
		return b
	}
	mk := func(c cid.Cid, tp string, id *fixture.Identity) *head.SignedHead {
		sh, err := head.NewSignedHead(c, tp, id.Priv)
		if err != nil {
			panic(err)
		}
		return sh
	}
	good := mk(root, topic, me)
	valid = enc(good)
	goodOtherRoot := mk(otherRoot, topic, me)
	validOther = enc(goodOtherRoot)
	clone := func(sh *head.SignedHead) *head.SignedHead { c := *sh; return &c }
	add := func(name string, sh *head.SignedHead) { alts = append(alts, alteration{name, enc(sh)}) }

	a := clone(good)
	a.Head = cidlink.Link{Cid: otherRoot}
	add("cid-replaced", a)

	a = clone(good)
	if topic == "" {
		tp := "/added/topic"
		a.Topic = &tp
		add("topic-added", a)
	} else {
		a.Topic = nil
		add("topic-removed", a)
		a = clone(good)
		tp := topic + "x"
		a.Topic = &tp
		add("topic-changed", a)
		a = clone(good)
		tp2 := ""
		a.Topic = &tp2
		add("topic-emptied", a)
	}
	// topics that a "canonicalising" reader would take for the signed one
	variants := map[string]string{
		"topic-with-trailing-slash":       topic + "/",
		"topic-with-two-trailing-slashes": topic + "//",
		"topic-with-trailing-space":       topic + " ",
		"topic-with-leading-slash":        "/" + topic,
		"topic-with-leading-space":        " " + topic,
		"topic-upper-cased":               strings.ToUpper(topic),
		"topic-with-trailing-nul":         topic + "\x00",
	}
	if len(topic) > 1 {
		variants["topic-without-its-last-character"] = topic[:len(topic)-1]
		variants["topic-without-its-first-character"] = topic[1:]
	}
	vnames := make([]string, 0, len(variants))
	for n := range variants {
		vnames = append(vnames, n)
	}
	sort.Strings(vnames)
	for _, n := range vnames {
		if v := variants[n]; v != topic {
			v := v
			a = clone(good)
			a.Topic = &v
			add(n, a)
		}
	}
	a = clone(good)
	a.Pubkey, _ = ic.MarshalPublicKey(same.Priv.GetPublic())
	add("key-of-other-identity-same-type", a)
	a = clone(good)
	a.Pubkey, _ = ic.MarshalPublicKey(other.Priv.GetPublic())
	add("key-of-other-identity-other-type", a)
	a = clone(good)
	a.Sig = goodOtherRoot.Sig
	add("signature-of-other-head", a)
	a = clone(good)
	a.Pubkey, a.Sig = goodOtherRoot.Pubkey, goodOtherRoot.Sig
	add("key-and-signature-of-other-head", a)
	swapped := mk(otherRoot, topic, same)
	a = clone(good)
	a.Pubkey, a.Sig = swapped.Pubkey, swapped.Sig
	add("key-and-signature-swapped-between-two-valid-heads", a)
	add("resigned-by-other-identity-same-type", mk(root, topic, same))
	add("resigned-by-other-identity-other-type", mk(root, topic, other))
	a = clone(good)
	a.Pubkey = []byte{}
	add("empty-key", a)
	a = clone(good)
	a.Sig = []byte{}
	add("empty-signature", a)
	a = clone(good)
	a.Sig = a.Sig[:len(a.Sig)-1]
	add("signature-truncated", a)
	return valid, validOther, me, alts
}

func clientSide(t *testing.T, r *vp.Recorder, kt, topic string, ti int, disc, thorough bool) {
	root := fixture.Cid("the-root", cid.DagJSON)
	otherRoot := fixture.Cid("another-root", cid.DagJSON)
	valid, validOther, me, alts := fieldAlterations2(kt, topic, root, otherRoot)
	base := fmt.Sprintf("client|disc=%v|%s|topic%d", disc, kt, ti)

	n := memnet.New()
	restore := n.InstallDefault()
	defer restore()
	hs := &headServer{discovery: disc}
	stop := n.Serve("pub.test:80", hs)
	defer stop()
	st := syncfx.NewStore()
	sy := ipnisync.NewSync(st.LinkSystem(), nil)
	defer sy.Close()
	newSyncer := func() *ipnisync.Syncer {
		syncer, err := sy.NewSyncer(peer.AddrInfo{ID: me.ID, Addrs: []multiaddr.Multiaddr{multiaddr.StringCast("/dns4/pub.test/tcp/80/http")}})
		if err != nil {
			t.Fatalf("NewSyncer: %v", err)
		}
		return syncer
	}
	ctx := context.Background()

	// serve one body to a syncer and judge the answer by the reference
	// overRealNetwork: the request travels between two real hosts (stream
	// pass): an answer is judged only when the request arrived at the server
	overRealNetwork := false
	serve := func(syncer *ipnisync.Syncer, key, class, when string, body []byte) {
		hs.body = body
		var got cid.Cid
		var gerr error
		arrivedBefore := hs.requests
		if pn, pm := vp.Guard(func() { got, gerr = syncer.GetHead(ctx) }); pn {
			r.Violation("client:panic:"+class, key, when+": "+firstLine(pm), nil)
			return
		}
		if overRealNetwork && hs.requests == arrivedBefore {
			r.Outcome("stream-request-did-not-arrive")
			return
		}
		rc, rsigner, rok, why := refValidate(body, me.ID)
		// the other documented way to read a head: decode it as a generic node,
		// UnwrapSignedHead, Validate, compare the signer. It may be stricter
		// than the reference about how a head is written, never more lenient
		// about who signed what.
		if !rok && !overRealNetwork {
			nb := basicnode.Prototype.Any.NewBuilder()
			if dagjson.Decode(nb, bytes.NewReader(body)) == nil {
				var sh *head.SignedHead
				var uerr, verr error
				var signer peer.ID
				if pn, pm := vp.Guard(func() {
					if sh, uerr = head.UnwrapSignedHead(nb.Build()); uerr == nil {
						signer, verr = sh.Validate()
					}
				}); pn {
					r.Violation("unwrap-route:panic:"+class, key, when+": "+firstLine(pm), nil)
				} else if uerr == nil && verr == nil && signer == me.ID {
					r.Violation("unwrap-route:accepted-altered-head:"+class, key, fmt.Sprintf("%s: a generic node handed to UnwrapSignedHead and Validate is accepted as signed by the publisher although the reference rejects the head (%s)", when, why), nil)
				}
			}
		}
		switch {
		case rok && (gerr != nil || !got.Equals(rc)):
			r.Violation("client:valid-head-rejected:"+kt, key, fmt.Sprintf("%s: GetHead on a head that the reference accepts (cid %s): %s, %v", when, rc, got, gerr), nil)
		case rok:
			r.Outcome("accepted-as-reference")
		case gerr == nil:
			r.Outcome("altered-accepted")
			r.Violation("client:accepted-altered-head:"+class, key, fmt.Sprintf("%s: GetHead returned %s for an altered head that the reference rejects (%s; reference cid %s signer %s)", when, got, why, rc, rsigner), nil)
		case got.Defined():
			// "a head query yields a CID only if ...": a rejected head yields
			// none, not the rejected head's CID next to the error
			r.Violation("client:rejected-head-still-yields-a-cid:"+class, key, fmt.Sprintf("%s: GetHead returned the error %q together with the CID %s (reference: %s)", when, gerr, got, why), nil)
		default:
			r.Outcome("rejected")
		}
	}
	// histories of valid heads that a reused syncer has seen before the altered one
	histories := []struct {
		name  string
		heads [][]byte
	}{
		{"after-valid", [][]byte{valid}},
		{"after-valid-of-other-root", [][]byte{validOther}},
		{"after-valid,other", [][]byte{valid, validOther}},
		{"after-other,valid", [][]byte{validOther, valid}},
		{"after-valid,valid", [][]byte{valid, valid}},
	}
	// try: the altered body cold (fresh syncer) and after every history (fresh
	// syncer per history), followed by both valid heads again: a rejected head
	// must leave nothing behind either
	tryAll := func(key, class string, body []byte) {
		if !r.Mine(key) {
			return
		}
		r.Eval(key, true)
		cold := newSyncer()
		for rep := 1; rep <= 3; rep++ {
			// the same altered head again and again: a rejection must not be
			// remembered as anything but a rejection
			serve(cold, key, class, fmt.Sprintf("cold, served %d time(s)", rep), body)
		}
		serve(cold, key, "valid", "cold, after the altered head was served 3 times", valid)
		for _, h := range histories {
			r.Eval(key+"|"+h.name, true)
			sc := newSyncer()
			for _, hb := range h.heads {
				serve(sc, key, "valid", h.name+" (history)", hb)
			}
			serve(sc, key, class, h.name, body)
			serve(sc, key, class, h.name+", served a second time", body)
			serve(sc, key, "valid", h.name+", then valid again", valid)
			serve(sc, key, "valid", h.name+", then the other valid head again", validOther)
		}
	}
	// tryWarm: the cheap form for the large byte-level families: on one reused
	// syncer, the valid head and then the altered one (every key carries its own
	// history, whatever shard it runs in); every 8th also cold
	shared := newSyncer()
	nWarm := 0
	tryWarm := func(key, class string, body []byte) {
		if !r.Mine(key) {
			return
		}
		r.Eval(key, true)
		serve(shared, key, "valid", "before "+class, valid)
		serve(shared, key, class, "after-valid", body)
		serve(shared, key, class, "after-valid, served a second time", body)
		if nWarm%8 == 0 {
			serve(newSyncer(), key, class, "cold", body)
		}
		nWarm++
	}
	if r.Mine(base + "|valid") {
		r.Eval(base+"|valid", false)
		serve(newSyncer(), base+"|valid", "valid", "cold", valid)
		serve(newSyncer(), base+"|valid", "valid", "cold", validOther)
	}
	r.Sample(map[string]any{"key_type": kt, "topic": topic, "discovery": disc, "valid_head": string(valid)})
	for _, a := range alts {
		tryAll(base+"|field|"+a.name, "field:"+a.name, a.body)
	}
	// the same alterations against syncers created for an address list that
	// mixes the HTTP address with addresses that are not HTTP (the caller hands
	// over everything it knows about the publisher), in both orders
	other := multiaddr.StringCast("/ip4/192.0.2.7/tcp/9999")
	httpAddr := multiaddr.StringCast("/dns4/pub.test/tcp/80/http")
	// ... and for lists with a nil entry (an address the caller could not parse),
	// which the library is written to tolerate (mautil.CleanPeerAddrInfo)
	for si, shape := range [][]multiaddr.Multiaddr{{httpAddr, other}, {other, httpAddr}, {httpAddr, httpAddr}, {httpAddr, nil}, {nil, httpAddr}, {nil, httpAddr, nil, other}} {
		for _, a := range append([]alteration{{"none", valid}}, alts...) {
			key := fmt.Sprintf("%s|addr-list-shape%d|field|%s", base, si, a.name)
			if !r.Mine(key) {
				continue
			}
			r.Eval(key, true)
			sc, err := sy.NewSyncer(peer.AddrInfo{ID: me.ID, Addrs: append([]multiaddr.Multiaddr{}, shape...)})
			if err != nil {
				r.Violation("client:new-syncer-error", key, err.Error(), nil)
				continue
			}
			class := "field:" + a.name
			if a.name == "none" {
				class = "valid"
			}
			serve(sc, key, class, fmt.Sprintf("cold, address list %v", shape), a.body)
		}
	}
	// the same alterations against sync clients built with each of the client
	// options (alone and together): whatever a client is configured with, a
	// head is accepted only when signed by the publisher asked for
	clientOpts := []struct {
		name string
		opts []ipnisync.ClientOption
	}{
		{"auth-server-peer-id", []ipnisync.ClientOption{ipnisync.ClientAuthServerPeerID(true)}},
		{"auth-server-peer-id-off", []ipnisync.ClientOption{ipnisync.ClientAuthServerPeerID(false)}},
		{"http-timeout", []ipnisync.ClientOption{ipnisync.ClientHTTPTimeout(5 * time.Second)}},
		{"http-retry", []ipnisync.ClientOption{ipnisync.ClientHTTPRetry(1, time.Millisecond, 2*time.Millisecond)}},
		{"auth+retry+timeout", []ipnisync.ClientOption{ipnisync.ClientAuthServerPeerID(true), ipnisync.ClientHTTPRetry(1, time.Millisecond, 2*time.Millisecond), ipnisync.ClientHTTPTimeout(5 * time.Second)}},
	}
	for _, co := range clientOpts {
		osy := ipnisync.NewSync(st.LinkSystem(), nil, co.opts...)
		for _, a := range append([]alteration{{"none", valid}}, alts...) {
			key := fmt.Sprintf("%s|client-option-%s|field|%s", base, co.name, a.name)
			if !r.Mine(key) {
				continue
			}
			r.Eval(key, true)
			sc, err := osy.NewSyncer(peer.AddrInfo{ID: me.ID, Addrs: []multiaddr.Multiaddr{multiaddr.StringCast("/dns4/pub.test/tcp/80/http")}})
			if err != nil {
				// a client that cannot be made for this publisher accepts nothing
				r.Outcome("no-syncer-with-option-" + co.name)
				continue
			}
			class := "field:" + a.name
			if a.name == "none" {
				class = "valid"
			}
			serve(sc, key, class, "cold, client option "+co.name, a.body)
			serve(sc, key, class, "client option "+co.name+", served a second time", a.body)
		}
		osy.Close()
	}
	// the same alterations over the libp2p stream transport: the publisher is a
	// libp2p host with the publisher's identity that serves the protocol over
	// streams only (loopback TCP between two real hosts), the sync client is
	// built with ClientStreamHost. That the stream's peer is authenticated says
	// who serves the head, not who signed it.
	if !disc {
		func() {
			hostP, err := libp2p.New(libp2p.Identity(me.Priv), libp2p.ListenAddrStrings("/ip4/127.0.0.1/tcp/0"))
			if err != nil {
				r.Note("stream transport: publisher host unavailable: %v", err)
				return
			}
			defer hostP.Close()
			server := &libp2phttp.Host{StreamHost: hostP}
			server.SetHTTPHandlerAtPath(ipnisync.ProtocolID, ipnisync.IPNIPath, hs)
			go server.Serve()
			defer server.Close()
			clientHost, err := libp2p.New(libp2p.NoListenAddrs)
			if err != nil {
				r.Note("stream transport: client host unavailable: %v", err)
				return
			}
			defer clientHost.Close()
			ssy := ipnisync.NewSync(st.LinkSystem(), nil, ipnisync.ClientStreamHost(clientHost))
			defer ssy.Close()
			var warm *ipnisync.Syncer
			overRealNetwork = true
			defer func() { overRealNetwork = false }()
			for _, a := range append([]alteration{{"none", valid}}, alts...) {
				key := fmt.Sprintf("%s|over-a-libp2p-stream|field|%s", base, a.name)
				if !r.Mine(key) {
					continue
				}
				r.Eval(key, true)
				sc, err := ssy.NewSyncer(peer.AddrInfo{ID: me.ID, Addrs: hostP.Addrs()})
				if err != nil {
					// the two hosts talk over the loopback interface: a client
					// that cannot be made (connection, protocol discovery) is the
					// environment's business; no verdict for this alteration
					r.Outcome("stream-syncer-unavailable")
					r.Note("stream transport: NewSyncer failed for %s: %v", key, err)
					continue
				}
				class := "field:" + a.name
				if a.name == "none" {
					class = "valid"
				}
				serve(sc, key, class, "cold, over a libp2p stream", a.body)
				if warm == nil {
					warm = sc
				} else {
					serve(warm, key, "valid", "reused syncer over a libp2p stream, valid head", valid)
					serve(warm, key, class, "reused syncer over a libp2p stream, after the valid head", a.body)
				}
			}
		}()
	}
	for cut := 0; cut < len(valid); cut++ {
		tryWarm(fmt.Sprintf("%s|trunc|%d", base, cut), "truncation", valid[:cut])
	}
	stride := 1
	if !thorough && (disc || ti == 1) {
		stride = 3
	}
	for i := 0; i < len(valid); i += stride {
		for v := 0; v < 256; v++ {
			if byte(v) == valid[i] {
				continue
			}
			m := append([]byte(nil), valid...)
			m[i] = byte(v)
			tryWarm(fmt.Sprintf("%s|sub|%d|%d", base, i, v), "byte-substitution", m)
		}
	}
}

func throughSubscriber(t *testing.T, r *vp.Recorder, kt string) {
	// modes: "cold" = the subscriber never queried this publisher's head before
	// (the set-up sync names its head explicitly); "warm-replay" = a healthy sync
	// with a head query came first, and the altered head is derived from the
	// head that was served then (so that key and signature are ones the syncer
	// has already verified); "warm-current" = same history, altered head derived
	// from the current valid head, the other head being the one served before
	// naming: how the caller names the publisher it wants to sync: "id" = in the
	// ID field of the AddrInfo; "addr" = only as a /p2p/<id> component of the
	// addresses (ID field empty), which the subscriber is documented to accept
	// and from which it has to recover the expected signer.
	// "id+nil+p2p-same" / "id+nil+p2p-other": the ID field names the publisher, the
	// address list holds a nil entry (an address that did not parse) and the
	// address carries a /p2p/ component naming ANOTHER identity (the one that
	// signs the "other signer" alterations): the ID field is what was asked for.
	for _, naming := range []string{"id", "addr", "id+nil+p2p-same", "id+nil+p2p-other"} {
		for _, mode := range []string{"cold", "warm-replay", "warm-current"} {
			if strings.HasPrefix(naming, "id+nil") && mode == "warm-current" {
				continue
			}
			for _, disc := range []bool{true, false} {
				for ti, topic := range []string{"", "/indexer/ingest/mainnet"} {
					base := fmt.Sprintf("sub|%s|disc=%v|%s|topic%d", mode, disc, kt, ti)
					if naming != "id" {
						base += "|named-by-" + naming
					}
					target := func(p *syncfx.Pub) peer.AddrInfo {
						ai := p.AddrInfo()
						if naming == "id" {
							return ai
						}
						if strings.HasPrefix(naming, "id+nil") {
							otherType := "ed25519"
							if kt == "ed25519" {
								otherType = "secp256k1"
							}
							foreign := fixture.Key(kt, 1).ID
							if naming == "id+nil+p2p-other" {
								foreign = fixture.Key(otherType, 2).ID
							}
							out := peer.AddrInfo{ID: ai.ID, Addrs: []multiaddr.Multiaddr{nil}}
							for _, a := range ai.Addrs {
								out.Addrs = append(out.Addrs, multiaddr.Join(a, multiaddr.StringCast("/p2p/"+foreign.String())))
							}
							return out
						}
						out := peer.AddrInfo{}
						for _, a := range ai.Addrs {
							out.Addrs = append(out.Addrs, multiaddr.Join(a, multiaddr.StringCast("/p2p/"+ai.ID.String())))
						}
						return out
					}
					var names []string
					{
						_, _, alts := fieldAlterations(kt, topic, fixture.Cid("x", cid.DagJSON))
						for _, a := range alts {
							names = append(names, a.name)
						}
					}
					for ai, name := range names {
						key := base + "|" + name
						if !r.Mine(key) {
							continue
						}
						r.Eval(key, true)
						leak := syncfx.Bubble(t, func(t *testing.T) {
							w := syncfx.NewWorld()
							defer w.Close()
							id := fixture.Key(kt, 0)
							p := w.AddPub(id, disc, ipnisync.WithHeadTopic(topic))
							ch := syncfx.BuildAdChain(p.Src, id, 3, syncfx.DefaultProto, "c03")
							sub := w.NewSubscriber()
							// a first healthy sync of the oldest ad fixes a latest-synced value
							if _, err := sub.SyncAdChain(context.Background(), target(p), dagsync.WithHeadAdCid(ch.Cids[0])); err != nil {
								r.Violation("subscriber:setup", key, err.Error(), nil)
								return
							}
							if err := sub.SetLatestSync(id.ID, ch.Cids[0]); err != nil {
								panic(err)
							}
							baseline := ch.Cids[0]
							var body []byte
							switch mode {
							case "cold":
								p.Publisher.SetRoot(ch.Cids[2])
								_, _, _, alts := fieldAlterations2(kt, topic, ch.Cids[2], fixture.Cid("another-root", cid.DagJSON))
								body = alts[ai].body
							default:
								// healthy sync with a head query: the syncer has verified the head of Cids[1]
								p.Publisher.SetRoot(ch.Cids[1])
								got, err := sub.SyncAdChain(context.Background(), target(p))
								synctest.Wait()
								if err != nil || !got.Equals(ch.Cids[1]) {
									r.Violation("subscriber:setup", key, fmt.Sprintf("healthy sync with head query: %s, %v", got, err), nil)
									return
								}
								baseline = ch.Cids[1]
								p.Publisher.SetRoot(ch.Cids[2])
								if mode == "warm-replay" {
									_, _, _, alts := fieldAlterations2(kt, topic, ch.Cids[1], ch.Cids[2])
									body = alts[ai].body
								} else {
									_, _, _, alts := fieldAlterations2(kt, topic, ch.Cids[2], ch.Cids[1])
									body = alts[ai].body
								}
							}
							if _, _, rok, _ := refValidate(body, id.ID); rok {
								r.Count("alterations_semantically_valid", 1)
								return
							}
							p.Script = func(rq *syncfx.Req) *syncfx.Fault {
								if rq.Kind == "head" {
									return &syncfx.Fault{Kind: "body", Body: body, Label: name}
								}
								return nil
							}
							lst := w.Listen()
							defer lst.Stop()
							p.ResetLog()
							w.ResetHooks()
							var got cid.Cid
							var err error
							if pn, pm := vp.Guard(func() { got, err = sub.SyncAdChain(context.Background(), target(p)); synctest.Wait() }); pn {
								r.Violation("subscriber:panic", key, firstLine(pm), nil)
								return
							}
							if err == nil {
								r.Violation("subscriber:sync-accepted-altered-head:"+name, key, fmt.Sprintf("%s: SyncAdChain returned %s with a head altered by %s", mode, got, name), nil)
								return
							}
							// the identical response once more on the same subscriber
							if pn, pm := vp.Guard(func() { got, err = sub.SyncAdChain(context.Background(), target(p)); synctest.Wait() }); pn {
								r.Violation("subscriber:panic", key, firstLine(pm), nil)
								return
							}
							if err == nil {
								r.Violation("subscriber:sync-accepted-altered-head-when-repeated:"+name, key, fmt.Sprintf("%s: the second SyncAdChain against the same altered head (%s) returned %s", mode, name, got), nil)
								return
							}
							for _, rq := range p.Requests() {
								if rq.Kind == "block" {
									r.Violation("subscriber:request-after-rejected-head:"+name, key, mode+": a block was requested after the head was rejected", nil)
									return
								}
							}
							if len(w.HookLog()) != 0 {
								r.Violation("subscriber:hook-after-rejected-head:"+name, key, mode, nil)
								return
							}
							if l := sub.GetLatestSync(id.ID); l == nil || !l.(cidlink.Link).Cid.Equals(baseline) {
								r.Violation("subscriber:latest-changed-after-rejected-head:"+name, key, fmt.Sprint(mode, " ", l), nil)
								return
							}
							if evs := lst.Poll(); len(evs) != 0 {
								r.Violation("subscriber:event-after-rejected-head:"+name, key, fmt.Sprintf("%s %+v", mode, evs[0]), nil)
								return
							}
							r.Outcome("subscriber-rejected-" + mode)
						})
						if leak != "" {
							r.Count("bubble_leaks", 1)
							r.Note("goroutines left in bubble for %s: %s", key, firstLine(leak))
						}
					}
				}
			}
		}
	}
}
