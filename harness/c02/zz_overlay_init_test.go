package c02

import (
	"github.com/ipni/go-libipni/verifshim/vsched"

	"verifharness/vp"
)

// This package is built with the instrumentation overlay only for its spawn
// wrapper: a panic in a goroutine the library starts (the announce path, the
// event distributor) is recovered there and reported by vp.Guard as a panic of
// the case being run, instead of killing the whole shard.
func init() { vp.LibraryPanics = vsched.TakePanics }
