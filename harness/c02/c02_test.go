// C02: only bytes that hash to the requested CID are ever stored or reported.
// Fault enumeration: every tampered body kind at every block-request position,
// for every multihash function, against the real sync path.
package c02

import (
	"bytes"
	"context"
	"fmt"
	"strings"
	"testing"
	"testing/synctest"
	"time"

	"github.com/ipfs/go-cid"
	cidlink "github.com/ipld/go-ipld-prime/linking/cid"
	"github.com/ipld/go-ipld-prime/traversal/selector"
	"github.com/ipni/go-libipni/dagsync"
	"github.com/ipni/go-libipni/dagsync/ipnisync"
	"github.com/libp2p/go-libp2p/core/peer"
	"github.com/multiformats/go-multihash"

	"verifharness/fixture"
	"verifharness/syncfx"
	"verifharness/vp"
)

type hashFn struct {
	name string
	code uint64
	l    int
}

var hashFns = []hashFn{
	{"sha2-256", multihash.SHA2_256, -1},
	{"sha2-256-trunc20", multihash.SHA2_256, 20},
	{"sha2-512", multihash.SHA2_512, -1},
	{"blake2b-256", multihash.BLAKE2B_MIN + 31, -1},
	{"sha3-256", multihash.SHA3_256, -1},
	{"dbl-sha2-256", multihash.DBL_SHA2_256, -1},
	{"identity", multihash.IDENTITY, -1},
}

// tamper describes one replacement body for the block at chain index K.
type tamper struct {
	label string
	class string
	make  func(genuine []byte, chainBlocks [][]byte) *syncfx.Fault
}

func bodyFault(label string, b []byte) *syncfx.Fault {
	return &syncfx.Fault{Kind: "body", Body: b, Label: label}
}

func tampers(genuineLen int, L, k int, thorough bool, bitStride int) []tamper {
	var out []tamper
	for bit := 0; bit < genuineLen*8; bit += bitStride {
		bit := bit
		out = append(out, tamper{fmt.Sprintf("bitflip-%d", bit), "bit-flip", func(g []byte, _ [][]byte) *syncfx.Fault {
			m := append([]byte(nil), g...)
			m[bit/8] ^= 1 << (bit % 8)
			return bodyFault("bitflip", m)
		}})
	}
	lenStride := 1
	if bitStride > 1 {
		lenStride = bitStride
	}
	for cut := 0; cut < genuineLen; cut += lenStride {
		cut := cut
		out = append(out, tamper{fmt.Sprintf("trunc-%d", cut), "truncation", func(g []byte, _ [][]byte) *syncfx.Fault {
			return bodyFault("trunc", append([]byte(nil), g[:cut]...))
		}})
		out = append(out, tamper{fmt.Sprintf("trunc-declared-%d", cut), "truncation-original-length", func(g []byte, _ [][]byte) *syncfx.Fault {
			return &syncfx.Fault{Kind: "declared", Status: len(g), Body: append([]byte(nil), g[:cut]...), Label: "trunc-declared"}
		}})
	}
	// the body breaks off and the response is left open: the request ends by
	// the client's own time-out while the caller's context is still alive
	for _, cut := range []int{0, 1, genuineLen / 2, genuineLen - 1} {
		cut := cut
		if cut < 0 || cut >= genuineLen || (cut == 1 && genuineLen <= 2) {
			continue
		}
		out = append(out, tamper{fmt.Sprintf("trunc-left-open-%d", cut), "truncation-response-left-open", func(g []byte, _ [][]byte) *syncfx.Fault {
			return &syncfx.Fault{Kind: "declared-stall", Status: len(g), Body: append([]byte(nil), g[:cut]...), Label: "trunc-left-open"}
		}})
	}
	// the body breaks off because the connection is reset (the error a libp2p
	// stream reports, network.ErrReset); the next request for the same block
	// gets the whole block
	for _, cut := range []int{0, 1, genuineLen / 2, genuineLen - 1} {
		cut := cut
		if cut < 0 || cut >= genuineLen || (cut == 1 && genuineLen <= 2) {
			continue
		}
		out = append(out, tamper{fmt.Sprintf("reset-mid-body-%d", cut), "connection-reset-mid-body", func(g []byte, _ [][]byte) *syncfx.Fault {
			return &syncfx.Fault{Kind: "reset", Status: len(g), Body: append([]byte(nil), g[:cut]...), Label: "reset-mid-body"}
		}})
	}
	for _, n := range []int{1, 1024, 1 << 20} {
		n := n
		if n == 1<<20 && !thorough && k > 0 {
			continue
		}
		out = append(out, tamper{fmt.Sprintf("append-%d", n), "appended-bytes", func(g []byte, _ [][]byte) *syncfx.Fault {
			return bodyFault("append", append(append([]byte(nil), g...), bytes.Repeat([]byte{' '}, n)...))
		}})
	}
	for j := 0; j < L; j++ {
		j := j
		if j == k {
			continue
		}
		out = append(out, tamper{fmt.Sprintf("substitute-%d", j), "substituted-valid-block", func(_ []byte, blocks [][]byte) *syncfx.Fault {
			return bodyFault("substitute", blocks[j])
		}})
	}
	out = append(out,
		tamper{"empty", "empty-body", func([]byte, [][]byte) *syncfx.Fault { return bodyFault("empty", []byte{}) }},
		tamper{"whitespace", "reserialised-whitespace", func(g []byte, _ [][]byte) *syncfx.Fault {
			return bodyFault("whitespace", append([]byte(" "), bytes.Replace(g, []byte(":"), []byte(": "), 1)...))
		}},
		tamper{"prefix-garbage", "prefixed", func(g []byte, _ [][]byte) *syncfx.Fault {
			return bodyFault("prefix", append([]byte("\n"), g...))
		}},
	)
	return out
}

type scenario struct {
	hf   hashFn
	kind string // ads (real signed ads, strict selector), map (generic chain, non-strict selector), tree (generic DAG with fan-out, non-strict selector; L spine blocks, 3*L blocks), map@<size>
	L    int
	seg  int64
	k    int // tampered block index
}

func firstLine(s string) string {
	if i := strings.IndexByte(s, '\n'); i >= 0 {
		return s[:i]
	}
	return s
}

// checkDirectClients: the sync client used without the Subscriber
// (ipnisync.NewSync with each client option and with all of them, NewSyncer,
// Syncer.Sync with the library's selector) against a publisher that serves one
// block of a generic chain altered: flipped bits, another valid block of the
// chain, a truncation, appended bytes. Whatever the client was configured
// with, nothing that does not hash to its CID is stored, reported or counted.
func checkDirectClients(t *testing.T, r *vp.Recorder) {
	const L = 3
	clientOpts := []struct {
		name string
		opts []ipnisync.ClientOption
	}{
		{"none", nil},
		{"auth-server-peer-id", []ipnisync.ClientOption{ipnisync.ClientAuthServerPeerID(true)}},
		{"http-timeout", []ipnisync.ClientOption{ipnisync.ClientHTTPTimeout(5 * time.Second)}},
		{"http-retry", []ipnisync.ClientOption{ipnisync.ClientHTTPRetry(1, time.Millisecond, 2*time.Millisecond)}},
		{"auth+retry+timeout", []ipnisync.ClientOption{ipnisync.ClientAuthServerPeerID(true), ipnisync.ClientHTTPRetry(1, time.Millisecond, 2*time.Millisecond), ipnisync.ClientHTTPTimeout(5 * time.Second)}},
	}
	alters := []string{"bitflip-first", "bitflip-middle", "bitflip-last", "substitute-older", "substitute-newer", "truncate-half", "append-space", "empty"}
	for _, co := range clientOpts {
		for _, disc := range []bool{false, true} {
			for k := 0; k < L; k++ {
				for _, alt := range alters {
					key := fmt.Sprintf("direct-client|%s|disc=%v|k%d|%s", co.name, disc, k, alt)
					if !r.Mine(key) {
						continue
					}
					r.Eval(key, true)
					var bad, cls string
					syncfx.Bubble(t, func(t *testing.T) {
						w := syncfx.NewWorld()
						defer w.Close()
						id := fixture.Key("ed25519", 0)
						p := w.AddPub(id, disc)
						ch := syncfx.BuildMapChain(p.Src, L, syncfx.DefaultProto, "c02-direct")
						genuine, _ := p.Src.Get(ch.Cids[k])
						body := append([]byte(nil), genuine...)
						switch alt {
						case "bitflip-first":
							body[0] ^= 1
						case "bitflip-middle":
							body[len(body)/2] ^= 0x10
						case "bitflip-last":
							body[len(body)-1] ^= 0x80
						case "substitute-older":
							body, _ = p.Src.Get(ch.Cids[(k+L-1)%L])
						case "substitute-newer":
							body, _ = p.Src.Get(ch.Cids[(k+1)%L])
						case "truncate-half":
							body = body[:len(body)/2]
						case "append-space":
							body = append(body, ' ')
						case "empty":
							body = []byte{}
						}
						target := ch.Cids[k]
						p.Script = func(rq *syncfx.Req) *syncfx.Fault {
							if rq.Kind == "block" && rq.Cid.Equals(target) {
								return bodyFault(alt, body)
							}
							return nil
						}
						var hooks []cid.Cid
						sy := ipnisync.NewSync(w.Dst.LinkSystem(), func(_ peer.ID, c cid.Cid) { hooks = append(hooks, c) }, co.opts...)
						defer sy.Close()
						syncer, err := sy.NewSyncer(p.AddrInfo())
						if err != nil {
							bad, cls = "NewSyncer: "+err.Error(), "new-syncer-error"
							return
						}
						ctx, cerr := ipnisync.CtxWithCidSchema(context.Background(), ipnisync.CidSchemaEntryChunk)
						if cerr != nil {
							panic(cerr)
						}
						var serr error
						if pn, pm := vp.Guard(func() {
							serr = syncer.Sync(ctx, ch.Head(), dagsync.DagsyncSelector(selector.RecursionLimitDepth(16), nil)) // bounded: a substituted block that is accepted can close a cycle
							synctest.Wait()
						}); pn {
							bad, cls = "panic: "+firstLine(pm), "panic"
							return
						}
						if badBlocks := w.Dst.Audit(); len(badBlocks) != 0 {
							bad, cls = fmt.Sprintf("client option %s, block %d served as %s: the store holds %d block(s) whose bytes do not hash to their CID, e.g. %s (sync error: %v)", co.name, k, alt, len(badBlocks), badBlocks[0], serr), "store-holds-bytes-not-hashing-to-cid"
							return
						}
						for _, h := range hooks {
							if data, ok := w.Dst.Get(h); !ok || !syncfx.Verifies(h, data) {
								bad, cls = fmt.Sprintf("client option %s: the hook was handed %s, which is not stored with bytes hashing to it", co.name, h), "hook-for-unverified-block"
								return
							}
						}
						if serr == nil {
							bad, cls = fmt.Sprintf("client option %s, block %d served as %s: Sync reported success", co.name, k, alt), "sync-succeeded-with-tampered-block"
						}
					})
					if bad != "" {
						r.Violation("direct-client:"+cls+":"+co.name, key, bad, nil)
						continue
					}
					r.Outcome("direct-client-rejected")
				}
			}
		}
	}
}

func TestCheck(t *testing.T) {
	r := vp.New("C02", "fault_enumeration",
		"for every multihash function of the tier x chain kind (real signed advertisements with the strict selector; small generic map chains, and a generic DAG with fan-out in which every block is followed by further requests of the same walk, with the non-strict selector) x chain length L x segmented/unsegmented x every block-request position k: the body of block k is replaced by every single-bit flip (all bits of the small blocks, strided on real advertisements), every truncation length with consistent and with the original Content-Length, truncations after which the response is left open until the client's own time-out ends the request, the body breaking off because the connection is reset (the client's read fails with network.ErrReset, as on a libp2p stream) with the whole block served on the next request, appended bytes (1, 1 KiB, 1 MiB), every other valid block of the chain, an empty body, the same node re-serialised with whitespace; then a healthy sync and a third sync tampered at another position on the same subscriber. The sync client used directly (NewSync with each ClientOption and with all of them, NewSyncer, Syncer.Sync) against 8 alterations of each block of a 3-block chain, both transports. Non-trivial: every tampered run. Distinct = distinct (scenario, tamper).",
		"hash functions are trusted to be collision resistant for the enumerated single alterations",
		"quick tier strides bit flips and truncations of real advertisements (every 11th); small map blocks are enumerated bit by bit",
	)
	defer func() {
		if err := r.Finish(); err != nil {
			t.Fatal(err)
		}
	}()
	thorough := vp.Thorough()
	// quick: the default function, a truncated digest, and identity (whose
	// "digest" is the data itself, so a partial digest comparison shows)
	fns := []hashFn{hashFns[0], hashFns[1], hashFns[6]}
	L := 2
	segs := []int64{-1}
	if thorough {
		fns = hashFns
		L = 3
		segs = []int64{-1, 1}
	}
	r.Bounds(map[string]any{"hash_functions": len(fns), "chain_length": L, "segment_sizes": segs})
	var scs []scenario
	for _, hf := range fns {
		for _, kind := range []string{"map", "ads"} {
			for _, seg := range segs {
				for k := 0; k < L; k++ {
					scs = append(scs, scenario{hf, kind, L, seg, k})
				}
			}
		}
	}
	// a DAG with fan-out (every spine block links to a leaf before and a leaf
	// after its link to the older spine block), synced with the non-strict
	// selector: every block has requests, or local hits, that follow it in the
	// same walk. k runs over all 3*L blocks.
	for k := 0; k < 3*L; k++ {
		scs = append(scs, scenario{fns[0], "tree", L, -1, k})
	}
	// block sizes at and just above powers of two (where read buffers and size
	// limits live), up to 4 MiB: untouched, with appended bytes, substituted, empty
	for _, k2 := range []uint{12, 15, 16, 20, 22} {
		for _, d := range []int{0, 1} {
			for k := 0; k < 2; k++ {
				scs = append(scs, scenario{fns[0], fmt.Sprintf("map@%d", (1<<k2)+d), 2, -1, k})
			}
		}
	}
	for _, sc := range scs {
		runScenario(t, r, sc, thorough)
		if r.OverBudget() {
			return
		}
	}
	checkDirectClients(t, r)
	t.Logf("violations: %d", r.Violations())
}

// world for one run
type built struct {
	w      *syncfx.World
	p      *syncfx.Pub
	ch     *syncfx.Chain
	blocks [][]byte
}

func build(sc scenario) *built {
	w := syncfx.NewWorld()
	id := fixture.Key("ed25519", 0)
	p := w.AddPub(id, true)
	lp := syncfx.Proto(sc.hf.code, sc.hf.l)
	var ch *syncfx.Chain
	var opts []dagsync.Option
	if sc.kind == "ads" {
		ch = syncfx.BuildAdChain(p.Src, id, sc.L, lp, "c02")
	} else if sc.kind == "tree" {
		ch = syncfx.BuildMapTree(p.Src, sc.L, lp, "c02")
		opts = append(opts, dagsync.StrictAdsSelector(false))
	} else if strings.HasPrefix(sc.kind, "map@") {
		var size int
		fmt.Sscanf(sc.kind, "map@%d", &size)
		ch = syncfx.BuildPaddedMapChain(p.Src, sc.L, lp, "c02", size)
		opts = append(opts, dagsync.StrictAdsSelector(false))
	} else {
		ch = syncfx.BuildMapChain(p.Src, sc.L, lp, "c02")
		opts = append(opts, dagsync.StrictAdsSelector(false))
	}
	opts = append(opts, dagsync.SegmentDepthLimit(sc.seg))
	w.NewSubscriber(opts...)
	p.Publisher.SetRoot(ch.Head())
	b := &built{w: w, p: p, ch: ch}
	for _, c := range ch.Cids {
		data, _ := p.Src.Get(c)
		b.blocks = append(b.blocks, data)
	}
	return b
}

func runScenario(t *testing.T, r *vp.Recorder, sc scenario, thorough bool) {
	// genuine length of block k
	var glen int
	syncfx.Bubble(t, func(t *testing.T) {
		b := build(sc)
		glen = len(b.blocks[sc.k])
		b.w.Close()
	})
	stride := 1
	if sc.kind == "ads" {
		stride = 7
		if thorough {
			stride = 3
		}
	} else if !thorough && sc.hf.l == 20 {
		stride = 3
	}
	scKey := fmt.Sprintf("%s|%s|L%d|seg%d|k%d", sc.hf.name, sc.kind, sc.L, sc.seg, sc.k)
	var tms []tamper
	if !strings.HasPrefix(sc.kind, "map@") {
		nblocks := sc.L
		if sc.kind == "tree" {
			nblocks = 3 * sc.L
		}
		tms = tampers(glen, nblocks, sc.k, thorough, stride)
	} else {
		// large blocks: the untouched body (must be accepted), appended bytes,
		// substitution, empty (no per-bit and per-length families)
		tms = []tamper{{"genuine", "genuine-body", func(g []byte, _ [][]byte) *syncfx.Fault { return bodyFault("genuine", append([]byte(nil), g...)) }}}
		for _, tm := range tampers(0, sc.L, sc.k, true, 1) {
			if tm.class == "appended-bytes" || tm.class == "substituted-valid-block" || tm.class == "empty-body" {
				tms = append(tms, tm)
			}
		}
	}
	for _, tm := range tms {
		key := "tamper|" + scKey + "|" + tm.label
		if !r.Mine(key) {
			continue
		}
		r.Eval(key, true)
		syncfx.Bubble(t, func(t *testing.T) { oneRun(r, key, sc, tm) })
	}
}

func oneRun(r *vp.Recorder, key string, sc scenario, tm tamper) {
	b := build(sc)
	defer b.w.Close()
	w, p, ch := b.w, b.p, b.ch
	target := ch.Cids[sc.k]
	genuine := b.blocks[sc.k]
	fault := tm.make(genuine, b.blocks)
	tamperedBody := fault.Body
	p.Script = func(rq *syncfx.Req) *syncfx.Fault {
		if rq.Kind == "block" && rq.Cid.Equals(target) && rq.N == 0 {
			return fault
		}
		return nil
	}
	ctx := context.Background()
	cls := fmt.Sprintf("%s:%s:%s", tm.class, sc.kind, sc.hf.name)
	var ret cid.Cid
	var err error
	if pn, pm := vp.Guard(func() { ret, err = w.Sub.SyncAdChain(ctx, p.AddrInfo()); synctest.Wait() }); pn {
		r.Violation("panic:"+cls, key, firstLine(pm), nil)
		return
	}
	audit := func(stage string) bool {
		if bad := w.Dst.Audit(); len(bad) != 0 {
			r.Outcome("stored-bad-bytes")
			r.Violation("store-holds-bytes-not-hashing-to-cid:"+cls, key, fmt.Sprintf("%s: destination store holds %d block(s) whose bytes do not hash to their CID, e.g. %s (tamper %s of block %d)", stage, len(bad), bad[0], tm.label, sc.k), nil)
			return false
		}
		for _, h := range w.HookLog() {
			data, ok := w.Dst.Get(h.Cid)
			if !ok || !syncfx.Verifies(h.Cid, data) {
				r.Violation("hook-reported-unverified-block:"+cls, key, fmt.Sprintf("%s: block hook was called for %s whose stored bytes do not verify", stage, h.Cid), nil)
				return false
			}
		}
		return true
	}
	if !audit("after tampered sync") {
		return
	}
	tamperedIsGenuine := fault.Kind == "body" && bytes.Equal(tamperedBody, genuine)
	if tamperedIsGenuine && tm.class == "genuine-body" && (err != nil || !ret.Equals(ch.Head())) {
		r.Violation("sync-failed-with-genuine-blocks:"+cls, key, fmt.Sprintf("every block was served untouched (block %d has %d bytes) but the sync returned %s, %v", sc.k, len(genuine), ret, err), nil)
		return
	}
	if !tamperedIsGenuine {
		// the tampered block was needed: the sync must fail and record nothing
		if err == nil {
			r.Outcome("tampered-sync-succeeded")
			r.Violation("sync-succeeded-with-tampered-block:"+cls, key, fmt.Sprintf("sync returned %s without error although block %d was served as %s", ret, sc.k, tm.label), nil)
			return
		}
		if l := w.Sub.GetLatestSync(p.Ident.ID); l != nil {
			r.Violation("latest-sync-set-after-tampered-sync:"+cls, key, fmt.Sprintf("latest sync is %s after a failed sync", l), nil)
			return
		}
		if _, ok := w.Dst.Get(target); ok {
			r.Violation("tampered-block-stored:"+cls, key, "the tampered block's CID is present in the store", nil)
			return
		}
		for _, h := range w.HookLog() {
			if h.Cid.Equals(target) {
				r.Violation("hook-called-for-tampered-block:"+cls, key, "", nil)
				return
			}
		}
		r.Outcome("rejected")
		if strings.HasSuffix(tm.label, "-8") || tm.class == "substituted-valid-block" || tm.class == "empty-body" {
			r.Sample(map[string]any{"scenario": fmt.Sprintf("%s chain of %d %s, segment %d", sc.hf.name, sc.L, sc.kind, sc.seg), "tampered_block": sc.k, "tamper": tm.label, "sync_error": firstLine(err.Error())})
		}
	}
	// a body that broke off mid-stream (declared length longer than what came)
	// is followed by a response that is exactly the missing remainder: whatever
	// the first attempt left behind (a digest state, a partial write), prefix and
	// remainder never add up to the block across two requests
	if fault.Kind == "declared" && len(fault.Body) > 0 && len(fault.Body) < len(genuine) {
		rest := append([]byte(nil), genuine[len(fault.Body):]...)
		p.Script = func(rq *syncfx.Req) *syncfx.Fault {
			if rq.Kind == "block" && rq.Cid.Equals(target) && rq.N == 1 {
				return bodyFault("remainder-of-the-broken-off-body", rest)
			}
			return nil
		}
		w.ResetHooks()
		var err2 error
		if pn, pm := vp.Guard(func() { _, err2 = w.Sub.SyncAdChain(ctx, p.AddrInfo()); synctest.Wait() }); pn {
			r.Violation("panic:"+cls, key, "remainder step: "+firstLine(pm), nil)
			return
		}
		if !audit("after the remainder of a broken-off body was served") {
			return
		}
		if err2 == nil {
			r.Violation("sync-succeeded-with-tampered-block:remainder-after-broken-off-body:"+sc.kind+":"+sc.hf.name, key, fmt.Sprintf("block %d was first served cut off after %d of %d bytes, then as the remaining %d bytes, and the second sync succeeded", sc.k, len(fault.Body), len(genuine), len(rest)), nil)
			return
		}
		p.Script = nil
	}
	// second sync: healthy
	w.ResetHooks()
	ret, err = w.Sub.SyncAdChain(ctx, p.AddrInfo())
	synctest.Wait()
	if err != nil || !ret.Equals(ch.Head()) {
		// that later syncs work again is property C04's business; here only the store invariant counts
		r.Count("healthy_retry_failed", 1)
	} else {
		// what the healthy sync hands to the block hook are blocks of this
		// sync, each once: nothing of the rejected attempt is reported now
		seen := map[string]int{}
		for _, h := range w.HookLog() {
			seen[h.Cid.String()]++
			if seen[h.Cid.String()] > 1 {
				r.Violation("hook-called-again-for-a-block-of-the-rejected-attempt:"+cls, key, fmt.Sprintf("the healthy sync after the tampered one reported %s %d times (%d hook calls for a DAG of %d blocks)", h.Cid, seen[h.Cid.String()], len(w.HookLog()), len(ch.Cids)), nil)
				return
			}
		}
		if len(w.HookLog()) > len(ch.Cids) {
			r.Violation("hook-called-again-for-a-block-of-the-rejected-attempt:"+cls, key, fmt.Sprintf("%d hook calls for a DAG of %d blocks", len(w.HookLog()), len(ch.Cids)), nil)
			return
		}
	}
	if !audit("after healthy sync") {
		return
	}
	// third sync on the same subscriber: extend the chain by one block served tampered
	id := p.Ident
	var ext *syncfx.Chain
	lp := syncfx.Proto(sc.hf.code, sc.hf.l)
	if sc.kind == "ads" {
		ext = syncfx.BuildAdChain(p.Src, id, 1, lp, "c02-ext")
	} else {
		ext = syncfx.BuildMapChain(p.Src, 1, lp, "c02-ext")
	}
	extData, _ := p.Src.Get(ext.Head())
	p.Publisher.SetRoot(ext.Head())
	p.Script = func(rq *syncfx.Req) *syncfx.Fault {
		if rq.Kind == "block" && rq.Cid.Equals(ext.Head()) {
			m := append([]byte(nil), extData...)
			m[len(m)/2] ^= 0x20
			return bodyFault("third-sync-flip", m)
		}
		return nil
	}
	w.ResetHooks()
	_, err = w.Sub.SyncAdChain(ctx, p.AddrInfo(), dagsync.WithAdsResync(true))
	synctest.Wait()
	if err == nil {
		r.Violation("sync-succeeded-with-tampered-block:third-sync:"+cls, key, "third sync with a corrupted new head succeeded", nil)
		return
	}
	audit("after third sync")
	_ = cidlink.Link{}
}
