// C20: URL <-> multiaddr conversion keeps the target; address helpers behave
// as set operations. Bounded-exhaustive enumeration against a specification
// written from the property statement.
package c20

import (
	"bytes"
	"fmt"
	"net"
	"net/url"
	"path"
	"sort"
	"strconv"
	"strings"
	"testing"

	cidlink "github.com/ipld/go-ipld-prime/linking/cid"
	"github.com/ipni/go-libipni/dagsync/ipnisync"
	"github.com/ipni/go-libipni/maurl"
	"github.com/ipni/go-libipni/mautil"
	"github.com/libp2p/go-libp2p/core/peer"
	"github.com/multiformats/go-multiaddr"
	"github.com/multiformats/go-varint"

	"verifharness/fixture"
	"verifharness/vp"
)

var hosts = []string{
	"1.2.3.4", "203.0.113.9", "127.0.0.1",
	"::1", "2001:db8::1", "2607:f8b0:4005:80a::200e",
	"example.com", "a.b-c.example.org", "localhost",
}

func hostPort(h, port string) string {
	if strings.Contains(h, ":") {
		h = "[" + h + "]"
	}
	if port == "" {
		return h
	}
	return h + ":" + port
}

func sameHost(a, b string) bool {
	ia, ib := net.ParseIP(a), net.ParseIP(b)
	if ia != nil || ib != nil {
		return ia != nil && ib != nil && ia.Equal(ib)
	}
	return a == b
}

// pathSymbols is the path alphabet: every printable ASCII character, a
// non-ASCII rune, literal percent sequences and a repeated slash.
func pathSymbols() []string {
	var s []string
	for c := 0x20; c < 0x7f; c++ {
		s = append(s, string(rune(c)))
	}
	s = append(s, "é", "%2F", "%25", "//")
	return s
}

// pathClass gives the signature class of a failing path: the set of
// characters of the path that are not unreserved/plain.
func pathClass(p string) string {
	seen := map[rune]bool{}
	var l []string
	for _, r := range p {
		if (r >= 'a' && r <= 'z') || (r >= 'A' && r <= 'Z') || (r >= '0' && r <= '9') || r == '/' || r == '-' || r == '.' || r == '_' || r == '~' {
			continue
		}
		if !seen[r] {
			seen[r] = true
			l = append(l, strconv.QuoteRune(r))
		}
	}
	sort.Strings(l)
	return strings.Join(l, "")
}

func checkURL(r *vp.Recorder, scheme, host, port, path string) {
	key := fmt.Sprintf("url|%s|%s|%s|%q", scheme, host, port, path)
	if !r.Mine(key) {
		return
	}
	u := &url.URL{Scheme: scheme, Host: hostPort(host, port), Path: path}
	checkURLValue(r, key, u, scheme, host, port, path)
}

// checkParsedURL: the URL arrives as text, the way a publisher's configured
// address or an announced address does, and is parsed with url.Parse. The
// parsed value carries the path twice (decoded, and as written when the text
// is not Go's canonical encoding of it: lower-case hex digits, escapes of
// characters that need none, %2F); the path that has to survive the round
// trip is the decoded one, whichever way it was written.
func checkParsedURL(r *vp.Recorder, scheme, host, port, text string) {
	key := fmt.Sprintf("parsed-url|%s|%s|%s|%q", scheme, host, port, text)
	if !r.Mine(key) {
		return
	}
	u, err := url.Parse(scheme + "://" + hostPort(host, port) + text)
	if err != nil {
		r.Count("url_texts_rejected_by_net_url", 1)
		return
	}
	checkURLValue(r, key, u, scheme, host, port, u.Path)
}

func checkURLValue(r *vp.Recorder, key string, u *url.URL, scheme, host, port, path string) {
	nontrivial := path != "" || port != ""
	r.Eval(key, nontrivial)
	var ma multiaddr.Multiaddr
	var out *url.URL
	var err error
	panicked, pmsg := vp.Guard(func() {
		ma, err = maurl.FromURL(u)
		if err != nil {
			return
		}
		out, err = maurl.ToURL(ma)
	})
	if panicked {
		r.Violation("url-roundtrip:panic", key, "panic converting "+u.String()+": "+pmsg, nil)
		return
	}
	if err != nil {
		r.Violation("url-roundtrip:error:"+errClass(scheme, host, port, path), key, fmt.Sprintf("conversion of %q failed: %v", u.String(), err), nil)
		return
	}
	r.Outcome("ok")
	if r.Replaying() || (path != "" && port != "") {
		r.Sample(map[string]string{"url": u.String(), "multiaddr": ma.String(), "back": out.String()})
	}
	var diffs []string
	if out.Scheme != scheme {
		diffs = append(diffs, "scheme")
	}
	if !sameHost(out.Hostname(), u.Hostname()) {
		diffs = append(diffs, "host")
	}
	if out.Port() != u.Port() {
		diffs = append(diffs, "port")
	}
	if out.Path != u.Path {
		diffs = append(diffs, "path")
	} else if canon := (&url.URL{Path: u.Path}).EscapedPath(); out.EscapedPath() != canon {
		// the path as it goes on the wire (request target, String()): the
		// canonical escaping of that path, not some other spelling of it
		diffs = append(diffs, "escaped-path")
	}
	if len(diffs) == 0 {
		// the multiaddr itself must name the same path: a second conversion
		// through its string and binary forms must give the same URL
		ma2, err := multiaddr.NewMultiaddrBytes(ma.Bytes())
		if err == nil {
			out2, err2 := maurl.ToURL(ma2)
			if err2 != nil || out2.String() != out.String() {
				diffs = append(diffs, "binary-form")
			}
		}
	}
	if len(diffs) != 0 {
		sig := "url-roundtrip:" + strings.Join(diffs, "+")
		for _, d := range diffs {
			if d == "path" {
				sig += ":chars=" + changedChars(path, out.Path)
			}
		}
		r.Violation(sig, key, fmt.Sprintf("ToURL(FromURL(%q)) = %q via %s: differs in %v (path %q -> %q)", u.String(), out.String(), ma.String(), diffs, u.Path, out.Path), nil)
	}
}

// changedChars names the input characters that did not survive: when input
// and output have the same number of runes, the input runes at the positions
// that differ; otherwise the special characters of the input.
func changedChars(in, out string) string {
	a, b := []rune(in), []rune(out)
	if len(a) != len(b) {
		return "len:" + pathClass(in)
	}
	seen := map[rune]bool{}
	var l []string
	for i := range a {
		if a[i] != b[i] && !seen[a[i]] {
			seen[a[i]] = true
			l = append(l, strconv.QuoteRune(a[i]))
		}
	}
	sort.Strings(l)
	return strings.Join(l, "")
}

func errClass(scheme, host, port, path string) string {
	c := "host=" + hostKind(host)
	if port == "" {
		c += ",noport"
	}
	if path != "" {
		c += ",chars=" + pathClass(path)
	}
	return c
}

func hostKind(h string) string {
	ip := net.ParseIP(h)
	switch {
	case ip == nil:
		return "dns"
	case ip.To4() != nil:
		return "ip4"
	default:
		return "ip6"
	}
}

func TestCheck(t *testing.T) {
	r := vp.New("C20", "exploration",
		"URL round trip: nested loops over scheme x host x port x path (paths: every sequence of <=N symbols over all printable ASCII characters, 'é', '%2F', '%25', '//' after a leading '/'); URLs given as text and parsed with net/url: every printable ASCII character and 'é' written as a percent-escape in upper- and lower-case hex, alone, inside segments and in ordered pairs (the decoded path is what has to survive); a case is non-trivial when it has a port or a path; distinct = distinct (scheme,host,port,path). The addresses a publisher advertises when configured with listen URLs (5 host/scheme forms) and a handler path (11 paths with spaces, plus signs, several segments, non-ASCII) convert back to the configured endpoint. Syncer.SameAddrs for every ordered pair of lists of 1..3 over three HTTP addresses (duplicates included) is multiset equality. Helpers: ParsePeers for every list of <=4 over seven (address, peer) pairs of three peers against an independent grouping, with the URLs recovered from each peer's HTTP addresses; FindHTTPAddrs for every address made of 6 prefixes x {http, https, ws, wss, none} x every sequence of <=3 trailing components over {http-path (2 values), p2p, p2p-circuit}, alone and in 3 list shapes; every list of length <=4 over a 27-address alphabet (public, private, loopback, unspecified, localhost; the IP followed by tcp, udp, sctp, tls, http or nothing; http after tls/sni and before /p2p; ws / wss, which are not http) incl. nil and duplicates, all pairs of lists of length <=3 for equality; what FindHTTPAddrs and FilterPublic selected must read the same after the caller has overwritten its own list.",
		"URLs are built as url.URL{Scheme,Host,Path} values, and (section 2b) parsed from text; hosts are limited to 3 IPv4, 3 IPv6 (no zone, not v4-mapped) and 3 DNS names",
		"IPv6 hosts are compared as IP values, not as text",
		"FilterPublic: link-local and other special ranges that are neither loopback, private (net.IP.IsPrivate) nor unspecified are accepted either way; nothing is required of nil entries",
	)
	defer func() {
		if err := r.Finish(); err != nil {
			t.Fatal(err)
		}
	}()
	syms := pathSymbols()
	maxSym := 2
	if vp.Thorough() {
		maxSym = 3
	}
	r.Bounds(map[string]any{"path_symbols": len(syms), "max_path_symbols": maxSym, "hosts": len(hosts), "ports": "absent + 0..65535"})

	// 1. all ports x all hosts x both schemes x representative paths
	repPaths := []string{"", "/", "/ipni/v1/ad", "/a b", "/a+b", "/a%2Fb", "/a//b/", "/é"}
	if !vp.Thorough() {
		repPaths = []string{"", "/ipni/v1/ad"}
	}
	for _, scheme := range []string{"http", "https"} {
		for _, h := range hosts {
			for _, path := range repPaths {
				checkURL(r, scheme, h, "", path)
				for p := 0; p <= 65535; p++ {
					if !vp.Thorough() && h != hosts[0] && h != hosts[4] && h != hosts[6] && p > 1024 && p < 65000 {
						continue
					}
					checkURL(r, scheme, h, strconv.Itoa(p), path)
				}
			}
		}
	}
	// 2. all paths of <= maxSym symbols for representative host/port pairs
	type hp struct{ scheme, host, port string }
	hps := []hp{{"http", "1.2.3.4", "8080"}, {"https", "example.com", ""}, {"https", "2001:db8::1", "443"}}
	if !vp.Thorough() {
		hps = hps[:2]
	}
	var gen func(prefix string, n int, f func(string))
	gen = func(prefix string, n int, f func(string)) {
		f(prefix)
		if n == 0 {
			return
		}
		for _, s := range syms {
			gen(prefix+s, n-1, f)
		}
	}
	for _, x := range hps {
		gen("/", maxSym, func(p string) { checkURL(r, x.scheme, x.host, x.port, p) })
		// and paths with the interesting symbol in the middle of a longer path
		for _, s := range syms {
			checkURL(r, x.scheme, x.host, x.port, "/ipni/v1"+s+"ad/"+s)
		}
	}

	// 2b. URLs given as text: every printable ASCII character and 'é' written as
	// a percent-escape with upper-case and with lower-case hex digits (for most
	// characters that is not the canonical encoding), alone, inside a segment,
	// and every ordered pair of such escapes (thorough: over all characters;
	// quick: second one from a reduced set)
	var escs []string
	for c := 0x20; c <= 0x7e; c++ {
		escs = append(escs, fmt.Sprintf("%%%02X", c))
		if l := fmt.Sprintf("%%%02x", c); l != escs[len(escs)-1] {
			escs = append(escs, l)
		}
	}
	escs = append(escs, "%C3%A9", "%c3%a9", "%c3%A9")
	second := []string{"%2F", "%2f", "%7E", "%7e", "%41", "%2B", "%2b", "%25", "%20", "%c3%a9", "+", "é", "~", " "}
	if vp.Thorough() {
		second = append(append([]string{}, escs...), "+", "é", "~")
	}
	for _, x := range hps {
		for _, e1 := range escs {
			for _, tmpl := range []string{"/%s", "/a%sb", "/ipni/v1/%s/ad", "/caf%s/ad/", "//%s"} {
				checkParsedURL(r, x.scheme, x.host, x.port, fmt.Sprintf(tmpl, e1))
			}
			for _, e2 := range second {
				e2 := strings.ReplaceAll(e2, " ", "%20")
				checkParsedURL(r, x.scheme, x.host, x.port, "/"+e1+e2)
				checkParsedURL(r, x.scheme, x.host, x.port, "/x"+e2+"/"+e1)
			}
		}
	}

	checkForms(r)
	checkHelpers(r)
	t.Logf("violations: %d", r.Violations())
}

// checkForms: hand-written multiaddrs in tls/http, https and legacy forms.
func checkForms(r *vp.Recorder) {
	type form struct {
		ma                       string
		scheme, host, port, path string
	}
	var forms []form
	for _, base := range []struct{ ma, host string }{
		{"/ip4/1.2.3.4", "1.2.3.4"}, {"/ip6/2001:db8::1", "2001:db8::1"}, {"/dns/example.com", "example.com"}, {"/dns4/example.com", "example.com"}, {"/dns6/example.com", "example.com"},
	} {
		for _, port := range []string{"0", "80", "443", "65535"} {
			for _, sch := range []struct{ ma, scheme string }{{"/http", "http"}, {"/https", "https"}, {"/tls/http", "https"}} {
				for _, pth := range []struct{ ma, path string }{
					{"", ""}, {"/http-path/foo", "foo"}, {"/http-path/%2Fipni%2Fv1", "/ipni/v1"}, {"/http-path/a%20b", "a b"}, {"/http-path/a%2Bb", "a+b"}, {"/http-path/a%252Fb", "a%2Fb"},
					{"/httpath/foo", "foo"}, {"/httpath/%2Fipni%2Fv1", "/ipni/v1"}, {"/httpath/a%20b", "a b"},
				} {
					forms = append(forms, form{base.ma + "/tcp/" + port + sch.ma + pth.ma, sch.scheme, base.host, port, pth.path})
				}
			}
		}
	}
	for _, f := range forms {
		key := "form|" + f.ma
		if !r.Mine(key) {
			continue
		}
		r.Eval(key, true)
		ma, err := multiaddr.NewMultiaddr(f.ma)
		if err != nil {
			r.Count("forms_unparseable", 1)
			continue
		}
		var u *url.URL
		panicked, pmsg := vp.Guard(func() { u, err = maurl.ToURL(ma) })
		if panicked {
			r.Violation("form:panic", key, pmsg, nil)
			continue
		}
		if err != nil {
			r.Violation("form:error", key, fmt.Sprintf("ToURL(%s): %v", f.ma, err), nil)
			continue
		}
		var diffs []string
		if u.Scheme != f.scheme {
			diffs = append(diffs, "scheme")
		}
		if !sameHost(u.Hostname(), f.host) {
			diffs = append(diffs, "host")
		}
		if u.Port() != f.port {
			diffs = append(diffs, "port")
		}
		if u.Path != f.path {
			diffs = append(diffs, "path")
		}
		if len(diffs) != 0 {
			sig := "form:" + strings.Join(diffs, "+")
			if strings.Contains(f.ma, "/httpath/") {
				sig += ":legacy"
			}
			for _, d := range diffs {
				if d == "path" {
					sig += ":chars=" + changedChars(f.path, u.Path)
				}
			}
			r.Violation(sig, key, fmt.Sprintf("ToURL(%s) = %q, want scheme=%s host=%s port=%s path=%q", f.ma, u.String(), f.scheme, f.host, f.port, f.path), nil)
		}
		// a legacy address as it travels: the bytes older publishers put into
		// announce messages (protocol code 0x300200, a length, the path-escaped
		// text), written out here by hand and decoded with NewMultiaddrBytes
		if i := strings.Index(f.ma, "/httpath/"); i >= 0 && len(diffs) == 0 {
			prefix, err := multiaddr.NewMultiaddr(f.ma[:i])
			if err != nil {
				continue
			}
			text := f.ma[i+len("/httpath/"):]
			wire := append([]byte{}, prefix.Bytes()...)
			wire = append(wire, multiaddr.CodeToVarint(0x300200)...)
			wire = append(wire, varint.ToUvarint(uint64(len(text)))...)
			wire = append(wire, text...)
			wm, err := multiaddr.NewMultiaddrBytes(wire)
			if err != nil {
				r.Violation("form:legacy-wire-bytes-rejected", key, fmt.Sprintf("%x: %v", wire, err), nil)
				continue
			}
			var wu *url.URL
			if panicked, pmsg := vp.Guard(func() { wu, err = maurl.ToURL(wm) }); panicked || err != nil {
				r.Violation("form:legacy-wire-bytes:error", key, fmt.Sprint(pmsg, err), nil)
				continue
			}
			if wu.Scheme != f.scheme || !sameHost(wu.Hostname(), f.host) || wu.Port() != f.port || wu.Path != f.path {
				r.Violation("form:legacy-wire-bytes:differs:chars="+changedChars(f.path, wu.Path), key, fmt.Sprintf("the legacy address %s decoded from its wire bytes %x converts to %q, want path %q", f.ma, wire, wu.String(), f.path), nil)
			}
		}
	}
}

type addrSym struct {
	s      string
	http   bool
	remove bool // FilterPublic must remove it
	keep   bool // FilterPublic must keep it
}

var addrAlphabet = []addrSym{
	{s: "/ip4/8.8.8.8/tcp/80/http", http: true, keep: true},
	{s: "/ip4/1.1.1.1/tcp/443/https", http: true, keep: true},
	{s: "/ip6/2607:f8b0:4005:80a::200e/tcp/443/tls/http", http: true, keep: true},
	{s: "/dns4/example.com/tcp/443/https/http-path/ipni", http: true, keep: true},
	{s: "/ip4/9.9.9.9/tcp/3003", keep: true},
	{s: "/ip4/10.1.2.3/tcp/80/http", http: true, remove: true},
	{s: "/ip4/172.16.5.5/tcp/3003", remove: true},
	{s: "/ip4/192.168.1.1/tcp/443/https", http: true, remove: true},
	{s: "/ip4/127.0.0.1/tcp/80/http", http: true, remove: true},
	{s: "/ip6/::1/tcp/80/http", http: true, remove: true},
	{s: "/ip4/0.0.0.0/tcp/80/http", http: true, remove: true},
	{s: "/ip6/::/tcp/3003", remove: true},
	{s: "/ip6/fd00::1/tcp/3003", remove: true},
	{s: "/dns/localhost/tcp/80/http", http: true, remove: true},
	// the IP address followed by something other than tcp (what makes an
	// address private is its IP component alone)
	{s: "/ip4/127.0.0.1", remove: true},
	{s: "/ip4/10.0.0.7/udp/4001/quic-v1", remove: true},
	{s: "/ip4/192.168.1.4/http", http: true, remove: true},
	{s: "/ip6/::/tls", remove: true},
	{s: "/ip4/127.0.0.1/sctp/5000", remove: true},
	{s: "/ip4/8.8.4.4/udp/4001/quic-v1", keep: true},
	{s: "/ip4/8.8.4.4/http", http: true, keep: true},
	// http(s) behind other components, and secure transports that are not http
	{s: "/dns/example.com/tcp/443/tls/sni/example.com/http", http: true, keep: true},
	{s: "/ip4/8.8.8.8/tcp/80/http/p2p/12D3KooWBahVhXpN2F6NMjC4BDSNXLWnGtjHwcVbR2qJUK2xWx1J", http: true, keep: true},
	{s: "/ip4/8.8.8.8/tcp/443/tls/ws", keep: true},
	{s: "/ip4/8.8.8.8/tcp/443/wss", keep: true},
	{s: "/ip4/10.9.9.9/tcp/443/tls/sni/internal.example/http", http: true, remove: true},
	{s: "", http: false}, // nil entry
}

var (
	nonHTTPFiller = multiaddr.StringCast("/ip4/9.9.9.9/udp/9/quic-v1")
	privateFiller = multiaddr.StringCast("/ip4/10.255.255.1/tcp/1")
)

// checkHTTPPosition: where in an address the http / https component stands is
// irrelevant to "contains http or https": every address made of a prefix
// (IP or DNS name, with or without tcp, tls, tls/sni), a middle component
// (http, https, ws, wss or none) and every sequence of 0..3 trailing components
// (http-path, p2p, p2p-circuit) that the multiaddr package accepts, alone and
// in lists with other entries.
func checkHTTPPosition(r *vp.Recorder) {
	const pid = "12D3KooWBahVhXpN2F6NMjC4BDSNXLWnGtjHwcVbR2qJUK2xWx1J"
	prefixes := []string{"/ip4/8.8.8.8", "/dns/example.com", "/ip4/8.8.8.8/tcp/443", "/dns4/example.com/tcp/443/tls", "/dns/example.com/tcp/443/tls/sni/example.com", "/ip6/2607:f8b0:4005:80a::200e/udp/443/quic-v1"}
	middles := []string{"", "/http", "/https", "/ws", "/wss"}
	trailers := []string{"/http-path/pub%2Fone", "/http-path/x", "/p2p/" + pid, "/p2p-circuit"}
	var tails []string
	var gen func(cur string, n int)
	gen = func(cur string, n int) {
		tails = append(tails, cur)
		if n == 3 {
			return
		}
		for _, t := range trailers {
			gen(cur+t, n+1)
		}
	}
	gen("", 0)
	for _, pre := range prefixes {
		for _, mid := range middles {
			for _, tail := range tails {
				text := pre + mid + tail
				key := "http-position|" + text
				if !r.Mine(key) {
					continue
				}
				a, err := multiaddr.NewMultiaddr(text)
				if err != nil {
					r.Count("http_position_addresses_not_accepted_by_multiaddr", 1)
					continue
				}
				r.Eval(key, tail != "")
				isHTTP := mid == "/http" || mid == "/https"
				for li, l := range [][]multiaddr.Multiaddr{{a}, {nonHTTPFiller, a}, {a, nil, a}, {multiaddr.StringCast("/ip4/1.1.1.1/tcp/443/https"), a, nonHTTPFiller}} {
					want := 0
					for _, x := range l {
						if x == nil {
							continue
						}
						if x.Equal(a) && isHTTP || strings.HasSuffix(x.String(), "/https") {
							want++
						}
					}
					var got []multiaddr.Multiaddr
					if p, m := vp.Guard(func() { got = mautil.FindHTTPAddrs(append([]multiaddr.Multiaddr{}, l...)) }); p {
						r.Violation("FindHTTPAddrs:panic", key, m, nil)
						break
					}
					nA := 0
					for _, g := range got {
						if g != nil && g.Equal(a) {
							nA++
						}
					}
					if len(got) != want || (isHTTP && nA == 0) || (!isHTTP && nA != 0) {
						r.Violation("FindHTTPAddrs:wrong-set:by-position-of-the-http-component", key, fmt.Sprintf("list shape %d: FindHTTPAddrs(%v) = %v; %s contains http or https: %v", li, l, got, text, isHTTP), nil)
						break
					}
				}
				r.Outcome(fmt.Sprintf("http-position-%v", isHTTP))
			}
		}
	}
}

// checkParsePeers: the helper that turns a list of p2p address strings
// (".../p2p/<peer>", as publishers are configured on a command line) into one
// address list per peer: every list of <= 4 entries over an alphabet of seven
// (address, peer) pairs of three peers (repeats included, in every order, so
// that a peer's addresses are adjacent, interleaved with another peer's, and
// duplicated), against an independent grouping; and what is selected from each
// peer's list as HTTP addresses converts back to the URLs that were put in.
func checkParsePeers(r *vp.Recorder) {
	peers := []string{"12D3KooWBahVhXpN2F6NMjC4BDSNXLWnGtjHwcVbR2qJUK2xWx1J", "12D3KooWQYhTNQdmr3ArTeUHRYzFg94BKyTkoWBDWez9kSCVe2Xo", "QmYyQSo1c1Ym7orWxLYvCrM2EmxFTANf8wXmmE7DWjhx5N"}
	type sym struct {
		addr string
		peer int
		url  string // for http addresses: the URL it stands for
	}
	alpha := []sym{
		{"/dns/a.example.org/tcp/443/https/http-path/pub", 0, "https://a.example.org:443/pub"},
		{"/ip6/2001:db8::2/tcp/3104/http", 0, "http://[2001:db8::2]:3104"},
		{"/ip4/203.0.113.7/tcp/9000", 0, ""},
		{"/dns/b.example.org/tcp/443/https/http-path/pub", 1, "https://b.example.org:443/pub"},
		{"/ip4/198.51.100.3/tcp/80/http", 1, "http://198.51.100.3:80"},
		{"/dns4/c.example.org/tcp/8080/tls/http", 2, "https://c.example.org:8080"},
		{"/ip4/203.0.113.9/udp/4001/quic-v1", 2, ""},
	}
	var lists [][]int
	var gen func(cur []int)
	gen = func(cur []int) {
		lists = append(lists, append([]int(nil), cur...))
		if len(cur) == 4 {
			return
		}
		for i := range alpha {
			gen(append(cur, i))
		}
	}
	gen(nil)
	for _, l := range lists {
		key := fmt.Sprintf("parse-peers|%v", l)
		if !r.Mine(key) {
			continue
		}
		r.Eval(key, len(l) > 1)
		var in []string
		want := map[string][]string{}
		wantURLs := map[string][]string{}
		for _, i := range l {
			a := alpha[i]
			in = append(in, a.addr+"/p2p/"+peers[a.peer])
			want[peers[a.peer]] = append(want[peers[a.peer]], a.addr)
			if a.url != "" {
				wantURLs[peers[a.peer]] = append(wantURLs[peers[a.peer]], a.url)
			}
		}
		var got []peer.AddrInfo
		var err error
		if p, m := vp.Guard(func() { got, err = mautil.ParsePeers(append([]string(nil), in...)) }); p {
			r.Violation("ParsePeers:panic", key, m, nil)
			continue
		}
		if err != nil {
			r.Violation("ParsePeers:error", key, fmt.Sprintf("ParsePeers(%q): %v", in, err), nil)
			continue
		}
		canon := func(l []string) string {
			c := append([]string(nil), l...)
			sort.Strings(c)
			return strings.Join(c, " ")
		}
		seen := map[string]bool{}
		bad := ""
		for _, ai := range got {
			id := ai.ID.String()
			if seen[id] {
				bad = "peer " + id + " appears twice in the result"
				break
			}
			seen[id] = true
			var as []string
			for _, a := range ai.Addrs {
				as = append(as, a.String())
			}
			if canon(as) != canon(want[id]) {
				bad = fmt.Sprintf("peer %s got the addresses %q, its addresses in the list are %q", id, as, want[id])
				break
			}
			// what a sync client makes of the peer's list
			var urls []string
			for _, h := range mautil.FindHTTPAddrs(ai.Addrs) {
				u, err := maurl.ToURL(h)
				if err != nil {
					bad = fmt.Sprintf("peer %s: %s does not convert to a URL: %v", id, h, err)
					break
				}
				urls = append(urls, u.String())
			}
			if bad == "" && canon(urls) != canon(wantURLs[id]) {
				bad = fmt.Sprintf("peer %s: the HTTP addresses of its list give the URLs %q, the list was made for %q", id, urls, wantURLs[id])
			}
			if bad != "" {
				break
			}
		}
		if bad == "" && len(seen) != len(want) {
			bad = fmt.Sprintf("%d peers in the result, %d in the list", len(seen), len(want))
		}
		if bad != "" {
			r.Violation("ParsePeers:addresses-not-grouped-by-their-peer", key, fmt.Sprintf("ParsePeers(%q): %s", in, bad), nil)
			continue
		}
		r.Outcome("parse-peers-ok")
	}
}

// checkPublisherAddrs: where the conversion is used to advertise: a publisher
// that is handed its public URLs and a handler path (WithHTTPListenAddrs +
// WithHandlerPath, no server of its own) advertises multiaddrs which, turned
// back into URLs, name the endpoint it was configured with: scheme, host, port
// and the handler path. Listen URLs over host kinds and schemes x handler
// paths over unreserved characters, spaces, plus signs, several segments.
func checkPublisherAddrs(r *vp.Recorder) {
	listens := []struct{ in, scheme, host string }{
		{"http://203.0.113.5:3104", "http", "203.0.113.5:3104"},
		{"https://pub.example.org:8443", "https", "pub.example.org:8443"},
		{"http://[2001:db8::7]:80", "http", "[2001:db8::7]:80"},
		{"https://pub.example.org", "https", "pub.example.org"},
		{"http://pub.example.org/", "http", "pub.example.org"},
	}
	paths := []string{"ipni", "/ipni/", "a/b/c", "my ads", "a b/c d", "v1+2", "a+b c", "x-y_z.~", "é", "//double//", "Ümlaut/ö"}
	key0 := fixture.Key("ed25519", 0)
	for li, l := range listens {
		for pi, hp := range paths {
			key := fmt.Sprintf("publisher-addrs|%d|%d", li, pi)
			if !r.Mine(key) {
				continue
			}
			r.Eval(key, true)
			lsys := cidlink.DefaultLinkSystem()
			var pub *ipnisync.Publisher
			var err error
			if p, m := vp.Guard(func() {
				pub, err = ipnisync.NewPublisher(lsys, key0.Priv, ipnisync.WithHTTPListenAddrs(l.in), ipnisync.WithHandlerPath(hp), ipnisync.WithStartServer(false))
			}); p {
				r.Violation("publisher-addrs:panic", key, m, nil)
				continue
			}
			if err != nil {
				r.Outcome("publisher-refused")
				continue
			}
			addrs := pub.Addrs()
			pub.Close()
			if len(addrs) != 1 {
				r.Violation("publisher-addrs:count", key, fmt.Sprintf("listen %q handler path %q: %d addresses advertised", l.in, hp, len(addrs)), nil)
				continue
			}
			u, err := maurl.ToURL(addrs[0])
			if err != nil {
				r.Violation("publisher-addrs:not-a-url", key, fmt.Sprintf("listen %q handler path %q: advertised %s does not convert to a URL: %v", l.in, hp, addrs[0], err), nil)
				continue
			}
			wantPath := strings.Trim(path.Clean("/"+hp), "/")
			gotPath := strings.Trim(u.Path, "/")
			if u.Scheme != l.scheme || u.Host != l.host || gotPath != wantPath {
				r.Violation("publisher-addrs:advertised-endpoint-is-not-the-configured-one", key, fmt.Sprintf("listen %q handler path %q: advertised %s, i.e. %s (path %q); configured scheme %s host %s path %q", l.in, hp, addrs[0], u, u.Path, l.scheme, l.host, wantPath), nil)
				continue
			}
			r.Outcome("publisher-addrs-ok")
		}
	}
}

// checkSameAddrs: address-list equality where the sync client uses it: a
// Syncer made for one address list is asked whether another list is the same
// (the subscriber keeps or replaces its sync client by this answer). Every
// ordered pair of lists of 1..3 entries over three HTTP addresses, duplicates
// included: the answer is multiset equality.
func checkSameAddrs(r *vp.Recorder) {
	alpha := []multiaddr.Multiaddr{multiaddr.StringCast("/ip4/203.0.113.5/tcp/80/http"), multiaddr.StringCast("/dns/pub.example.org/tcp/443/https"), multiaddr.StringCast("/ip4/198.51.100.9/tcp/8080/http")}
	var lists [][]int
	var gen func(cur []int)
	gen = func(cur []int) {
		if len(cur) > 0 {
			lists = append(lists, append([]int(nil), cur...))
		}
		if len(cur) == 3 {
			return
		}
		for i := range alpha {
			gen(append(cur, i))
		}
	}
	gen(nil)
	mk := func(l []int) []multiaddr.Multiaddr {
		out := make([]multiaddr.Multiaddr, len(l))
		for i, x := range l {
			out[i] = alpha[x]
		}
		return out
	}
	canon := func(l []int) string { c := append([]int(nil), l...); sort.Ints(c); return fmt.Sprint(c) }
	id := fixture.Key("ed25519", 0).ID
	sy := ipnisync.NewSync(cidlink.DefaultLinkSystem(), nil)
	defer sy.Close()
	for _, a := range lists {
		key := fmt.Sprintf("same-addrs|%v", a)
		if !r.Mine(key) {
			continue
		}
		r.Eval(key, true)
		syncer, err := sy.NewSyncer(peer.AddrInfo{ID: id, Addrs: mk(a)})
		if err != nil {
			r.Violation("SameAddrs:new-syncer-error", key, err.Error(), nil)
			continue
		}
		for _, b := range lists {
			var got bool
			if p, m := vp.Guard(func() { got = syncer.SameAddrs(mk(b)) }); p {
				r.Violation("SameAddrs:panic", key, m, nil)
				break
			}
			if want := canon(a) == canon(b); got != want {
				r.Violation("SameAddrs:not-multiset-equality", key, fmt.Sprintf("a sync client made for %v, asked about %v: SameAddrs = %v, want %v", mk(a), mk(b), got, want), nil)
				break
			}
		}
		r.Outcome("same-addrs-ok")
	}
}

func checkHelpers(r *vp.Recorder) {
	checkSameAddrs(r)
	checkPublisherAddrs(r)
	checkHTTPPosition(r)
	checkParsePeers(r)
	n := len(addrAlphabet)
	mas := make([]multiaddr.Multiaddr, n)
	for i, a := range addrAlphabet {
		if a.s != "" {
			mas[i] = multiaddr.StringCast(a.s)
		}
	}
	// sanity of the alphabet against net.IP predicates (independent of manet)
	for _, a := range addrAlphabet {
		if a.s == "" {
			continue
		}
		parts := strings.Split(a.s, "/")
		if parts[1] == "ip4" || parts[1] == "ip6" {
			ip := net.ParseIP(parts[2])
			bad := ip.IsLoopback() || ip.IsPrivate() || ip.IsUnspecified()
			if bad != a.remove || bad == a.keep {
				panic("alphabet inconsistent with net.IP predicates: " + a.s)
			}
		}
	}
	maxLen := 3
	if vp.Thorough() {
		maxLen = 4
	}
	var lists [][]int
	var gen func(cur []int)
	gen = func(cur []int) {
		lists = append(lists, append([]int(nil), cur...))
		if len(cur) == maxLen {
			return
		}
		for i := 0; i < n; i++ {
			gen(append(cur, i))
		}
	}
	gen(nil)
	// longer lists over a small alphabet: every pattern of {nil entry, a public
	// HTTP address, a private address} of length maxLen+1 .. 8 (in-place
	// compaction loops go wrong only when several holes meet)
	small3 := []int{-1, -1, -1}
	for i, a := range addrAlphabet {
		switch {
		case a.s == "" && small3[0] < 0:
			small3[0] = i
		case a.keep && a.http && small3[1] < 0:
			small3[1] = i
		case a.remove && small3[2] < 0:
			small3[2] = i
		}
	}
	if small3[0] < 0 || small3[1] < 0 || small3[2] < 0 {
		panic("alphabet lacks a nil entry, a public http address or a private address")
	}
	var genLong func(cur []int)
	genLong = func(cur []int) {
		if len(cur) > maxLen {
			lists = append(lists, append([]int(nil), cur...))
		}
		if len(cur) == 8 {
			return
		}
		for _, i := range small3 {
			genLong(append(cur, i))
		}
	}
	genLong(nil)
	mk := func(l []int) []multiaddr.Multiaddr {
		if l == nil {
			return nil
		}
		out := make([]multiaddr.Multiaddr, len(l))
		for i, x := range l {
			out[i] = mas[x]
		}
		return out
	}
	multiset := func(l []multiaddr.Multiaddr) string {
		var s []string
		for _, a := range l {
			if a == nil {
				s = append(s, "<nil>")
			} else {
				s = append(s, string(a.Bytes()))
			}
		}
		sort.Strings(s)
		return strings.Join(s, "\x00")
	}
	for _, l := range lists {
		key := fmt.Sprintf("helpers|%v", l)
		if !r.Mine(key) {
			continue
		}
		r.Eval(key, len(l) > 1)
		// FindHTTPAddrs
		var wantHTTP []multiaddr.Multiaddr
		for _, x := range l {
			if addrAlphabet[x].http {
				wantHTTP = append(wantHTTP, mas[x])
			}
		}
		var got []multiaddr.Multiaddr
		arg := mk(l)
		if p, m := vp.Guard(func() { got = mautil.FindHTTPAddrs(arg) }); p {
			r.Violation("FindHTTPAddrs:panic", key, m, nil)
		} else if multiset(got) != multiset(wantHTTP) {
			r.Violation("FindHTTPAddrs:wrong-set", key, fmt.Sprintf("FindHTTPAddrs(%v) = %v, want %v", mk(l), got, wantHTTP), nil)
		} else {
			// the list is the caller's and the caller goes on using it: what
			// was selected from it stays what it was
			for i := range arg {
				arg[i] = nonHTTPFiller
			}
			if multiset(got) != multiset(wantHTTP) {
				r.Violation("FindHTTPAddrs:selection-changes-when-the-caller-reuses-its-list", key, fmt.Sprintf("after the caller overwrote its own list the selection made from %v reads %v", mk(l), got), nil)
			}
		}
		// FilterPublic
		arg = mk(l)
		if p, m := vp.Guard(func() { got = mautil.FilterPublic(arg) }); p {
			r.Violation("FilterPublic:panic", key, m, nil)
		} else {
			before := multiset(got)
			for i := range arg {
				arg[i] = privateFiller
			}
			if multiset(got) != before {
				r.Violation("FilterPublic:selection-changes-when-the-caller-reuses-its-list", key, fmt.Sprintf("after the caller overwrote its own list the selection made from %v reads %v", mk(l), got), nil)
			}
			gotSet := map[string]int{}
			for _, a := range got {
				if a != nil {
					gotSet[string(a.Bytes())]++
				}
			}
			for _, x := range l {
				a := addrAlphabet[x]
				if a.s == "" {
					continue
				}
				k := string(mas[x].Bytes())
				if a.remove && gotSet[k] > 0 {
					r.Violation("FilterPublic:returned-nonpublic:"+a.s, key, fmt.Sprintf("FilterPublic(%v) returned %s", mk(l), a.s), nil)
				}
			}
			wantKeep := map[string]int{}
			for _, x := range l {
				if addrAlphabet[x].keep {
					wantKeep[string(mas[x].Bytes())]++
				}
			}
			for k, c := range wantKeep {
				if gotSet[k] != c {
					r.Violation("FilterPublic:dropped-public", key, fmt.Sprintf("FilterPublic(%v) = %v: public address kept %d times, want %d", mk(l), got, gotSet[k], c), nil)
				}
			}
		}
		// CleanPeerAddrInfo
		var wantClean []multiaddr.Multiaddr
		for _, x := range l {
			if mas[x] != nil {
				wantClean = append(wantClean, mas[x])
			}
		}
		var ai peer.AddrInfo
		if p, m := vp.Guard(func() { ai = mautil.CleanPeerAddrInfo(peer.AddrInfo{ID: "x", Addrs: mk(l)}) }); p {
			r.Violation("CleanPeerAddrInfo:panic", key, m, nil)
		} else if multiset(ai.Addrs) != multiset(wantClean) || ai.ID != "x" {
			r.Violation("CleanPeerAddrInfo:wrong-set", key, fmt.Sprintf("CleanPeerAddrInfo(%v) = %v, want the non-nil entries %v", mk(l), ai.Addrs, wantClean), nil)
		}
	}
	// MultiaddrsEqual over all pairs of non-nil lists of length <= 3 over 5 addresses
	small := []int{0, 1, 3, 5, 13}
	var sl [][]int
	var gen2 func(cur []int)
	gen2 = func(cur []int) {
		sl = append(sl, append([]int(nil), cur...))
		if len(cur) == 3 {
			return
		}
		for _, i := range small {
			gen2(append(cur, i))
		}
	}
	gen2(nil)
	for _, a := range sl {
		for _, b := range sl {
			key := fmt.Sprintf("equal|%v|%v", a, b)
			if !r.Mine(key) {
				continue
			}
			la, lb := mk(a), mk(b)
			want := multiset(la) == multiset(lb)
			r.Eval(key, len(a) > 1 && len(b) > 1)
			var got bool
			if p, m := vp.Guard(func() { got = mautil.MultiaddrsEqual(la, lb) }); p {
				r.Violation("MultiaddrsEqual:panic", key, m, nil)
			} else if got != want {
				r.Violation("MultiaddrsEqual:wrong", key, fmt.Sprintf("MultiaddrsEqual(%v, %v) = %v, want %v", mk(a), mk(b), got, want), nil)
			}
			if got {
				r.Outcome("equal")
			} else {
				r.Outcome("unequal")
			}
		}
	}
	_ = bytes.Compare
}
